"""
History generator for the state-machine properties (C01, C02, C03, C04, C09, C12, C13).

A history is a list of operations (see harness/impl.py) on one graph.  Generation is steered by the REAL graph
(the ops are executed while generating so the next op can aim at the current nodes / edges), about two thirds
towards calls that are likely to succeed and one third towards a specific error path.
Everything is derived from the one `random.Random` passed in.
"""
from __future__ import annotations

from harness import impl

PLAIN_POOL = ['a', 'b', 'c', 'd', 'e', 'x y', 'é', 'a\nb', 'lag', 'Z lag(n=1)']
RARE_PLAIN = ['', ' ', 'a ', 'node_0', '0']
TS_VARS = ['X', 'Y', 'Z', 'a b']
TS_LAGS = [-2, -1, 0, 0, 1]
TS_BAD = ['X lag(n=1) lag(n=2)', 'Y lag(n=1) future(n=2)', '', 'Z future(n=1) lag(n=1)']
TS_NONCANON = ['X lag(n=0)', 'Y lag(n=01)', 'Z\n']
TYPES = ['->', '--', '<>', 'oo', 'o>', 'o-']
VTYPES = ['unspecified', 'continuous', 'binary', 'multiclass', 'ordinal']
METAS = [{}, {}, {}, {'k': 1}, {'color': 'red', 'w': [1, 2]}, {'a': {'b': [1, {'c': None}]}}, {'time_lag': 5},
         {'time_lag': -1, 'variable_name': 'Y', 'u': 2},
         {'variable_name': 'Q', 'z': True}, {'é': 'ü'}, {'none': None, 'k': 0}, {'z': None, 'f': False, 'e': ''}]


def ts_name(var, lag):
    if lag == 0:
        return var
    return f'{var} future(n={lag})' if lag > 0 else f'{var} lag(n={-lag})'


class Gen:
    def __init__(self, rng, cls, universe=None):
        self.r = rng
        self.cls = cls
        self.g = impl.new_graph(cls)
        if universe is not None:
            self.pool = list(universe)
        elif cls == 'ts':
            self.pool = [ts_name(v, l) for v in TS_VARS[:3] for l in (-2, -1, 0, 1)] + [ts_name('a b', 0), ts_name('a b', -1)]
        else:
            self.pool = list(PLAIN_POOL)

    # -- helpers -------------------------------------------------------------------------------------
    def names(self):
        try:
            return self.g.get_node_names()
        except Exception:  # noqa: BLE001 - a broken implementation must not stop generation
            return []

    def edges(self):
        try:
            return [(e.source.identifier, e.destination.identifier, impl.ety(e)) for e in self.g.get_edges()]
        except Exception:  # noqa: BLE001
            return []

    def any_name(self):
        r = self.r
        x = r.random()
        if x < 0.04:
            return r.choice(TS_BAD if self.cls == 'ts' else RARE_PLAIN)
        if x < 0.07 and self.cls == 'ts':
            return r.choice(TS_NONCANON)
        return r.choice(self.pool)

    def existing(self):
        n = self.names()
        return self.r.choice(n) if n else self.any_name()

    def fresh(self):
        n = set(self.names())
        c = [x for x in self.pool if x not in n]
        return self.r.choice(c) if c else self.any_name()

    def meta(self):
        return dict(self.r.choice(METAS))

    def ety(self):
        return '->' if self.r.random() < 0.5 else self.r.choice(TYPES)

    def reach(self, a):
        """nodes reachable from a along directed edges (strict)"""
        succ = {}
        for s, d, t in self.edges():
            if t == '->':
                succ.setdefault(s, []).append(d)
        seen, todo = set(), [a]
        while todo:
            x = todo.pop()
            for y in succ.get(x, []):
                if y not in seen:
                    seen.add(y)
                    todo.append(y)
        return seen

    def cycle_closing_pair(self):
        """(s, d) such that d already reaches s by directed edges and no edge joins them: adding s->d closes a cycle
        (a directly joined pair would be rejected as a reverse / duplicate edge before the cycle check)"""
        names = self.names()
        self.r.shuffle(names)
        joined = {(a, b) for a, b, _ in self.edges()} | {(b, a) for a, b, _ in self.edges()}
        fallback = None
        for d in names:
            rs = sorted(self.reach(d))
            far = [s for s in rs if (s, d) not in joined and s != d]
            if far:
                return self.r.choice(far), d
            if rs and fallback is None:
                fallback = (self.r.choice(rs), d)
        return fallback

    def gen_cycle_by_retype(self):
        """a non-directed edge (s, d) whose retyping to -> closes a cycle (d reaches s through other edges)"""
        cands = []
        for s, d, t in self.edges():
            if t != '->' and s in self.reach(d):
                cands.append((s, d))
        if cands:
            s, d = self.r.choice(cands)
            return ['change_edge_type', s, d, '->']
        return None

    def endpoint(self, name):
        """sometimes pass a Node object instead of the identifier"""
        if self.r.random() < 0.1:
            e = {'id': name, 'vt': self.r.choice(VTYPES), 'meta': self.meta()}
            if self.r.random() < 0.4:
                e['plain'] = True           # a base-class Node object, also for the time-series graph
            return e
        return name

    # -- single operations ---------------------------------------------------------------------------
    def gen_add_edge(self):
        r = self.r
        x = r.random()
        es = self.edges()
        validate = r.random() < 0.92
        if x < 0.08 and es:      # duplicate
            s, d, _ = r.choice(es)
        elif x < 0.18 and es:    # reverse of an existing edge
            d, s, _ = r.choice(es)
        elif x < 0.22:           # self loop
            s = d = self.existing()
        elif x < 0.34:           # cycle closing
            p = self.cycle_closing_pair()
            if p:
                s, d = p
                return ['add_edge', s, d, '->' if r.random() < 0.85 else self.ety(), self.meta(),
                        validate and r.random() < 0.85]
            s, d = self.any_name(), self.any_name()
        elif x < 0.42:           # a non-directed edge that would close a cycle if it were directed
            p = self.cycle_closing_pair()
            if p:
                s, d = p
                return ['add_edge', s, d, r.choice(['--', '<>', 'oo', 'o>', 'o-']), self.meta(), validate]
            s, d = self.existing(), self.existing()
        elif x < 0.6:
            s, d = self.existing(), self.existing()
        else:
            s, d = self.any_name(), self.any_name()
        y = r.random()
        if y < 0.06:
            return ['add_edge_by_pair', s, d, self.ety(), self.meta(), validate]
        if y < 0.12:
            return ['add_edge_obj', s, d, self.ety(), self.meta(), validate]
        return ['add_edge', self.endpoint(s), self.endpoint(d), self.ety(), self.meta(), validate]

    def gen_delete_edge(self):
        r = self.r
        es = self.edges()
        x = r.random()
        kind = r.choice(['delete_edge', 'delete_edge', 'remove_edge', 'remove_edge_by_pair'])
        if es and x < 0.75:
            s, d, t = r.choice(es)
            y = r.random()
            ty = None if y < 0.5 else (t if y < 0.8 else r.choice([u for u in TYPES if u != t]))
            if r.random() < 0.12:
                s, d = d, s
            return [kind, s, d, ty]
        return [kind, self.any_name(), self.any_name(), None if r.random() < 0.7 else self.ety()]

    def gen_delete_node(self):
        kind = self.r.choice(['delete_node', 'remove_node'])
        return [kind, self.existing() if self.r.random() < 0.8 else self.any_name()]

    def gen_change_type(self):
        es = self.edges()
        r = self.r
        if r.random() < 0.25:
            op = self.gen_cycle_by_retype()
            if op:
                return op
        if es and r.random() < 0.85:
            s, d, t = r.choice(es)
            if r.random() < 0.1:
                s, d = d, s
            return ['change_edge_type', s, d, self.ety()]
        return ['change_edge_type', self.any_name(), self.any_name(), self.ety()]

    def gen_replace_edge(self):
        r = self.r
        es = self.edges()
        if not es or r.random() < 0.1:
            return ['replace_edge', self.any_name(), self.any_name(), self.any_name(), self.any_name(), None, None]
        s, d, t = r.choice(es)
        x = r.random()
        if x < 0.12:
            ns, nd, _ = r.choice(es)          # existing target
        elif x < 0.24:
            nd, ns, _ = r.choice(es)          # reverse of an existing edge (possibly of itself)
        elif x < 0.30:
            ns = nd = self.existing()         # self loop target
        elif x < 0.45:
            p = self.cycle_closing_pair()
            ns, nd = p if p else (self.existing(), self.existing())
        elif x < 0.75:
            ns, nd = self.existing(), self.existing()
        else:
            ns, nd = self.any_name(), self.any_name()
        ty = None if r.random() < 0.5 else self.ety()
        m = None if r.random() < 0.6 else self.meta()
        return ['replace_edge', s, d, ns, nd, ty, m]

    def gen_replace_node(self):
        r = self.r
        n = self.existing() if r.random() < 0.9 else self.any_name()
        vt = r.choice(['default', 'default', None, r.choice(VTYPES), r.choice(VTYPES), 'BAD_STR', 'BAD_OBJ'])
        m = None if r.random() < 0.5 else self.meta()
        x = r.random()
        if self.cls == 'ts' and x < 0.4:
            lag = r.choice([None, -2, -1, 0, 1])
            var = r.choice([None, None, 'X', 'Y', 'Q'])
            new = None if r.random() < 0.9 else self.fresh()
            return ['replace_node', n, new, lag, var, vt, m]
        if x < 0.55:
            return ['replace_node', n, None, None, None, vt, m]
        new = self.fresh() if r.random() < 0.8 else self.existing()
        return ['replace_node', n, new, None, None, vt, m]

    def gen_add_node(self):
        r = self.r
        name = self.fresh() if r.random() < 0.7 else self.any_name()
        x = r.random()
        if self.cls == 'ts' and x < 0.3:
            v, l = r.choice(TS_VARS + ['X lag(n=1)']), r.choice(TS_LAGS)
            form = r.random()
            if form < 0.6:
                return ['ts_add_node', None, v, l, r.choice(VTYPES), self.meta()]
            if form < 0.75:
                return ['ts_add_node', ts_name(v, l), v, l, r.choice(VTYPES), self.meta()]
            if form < 0.85:
                return ['ts_add_node', name, v, l, r.choice(VTYPES), self.meta()]
            if form < 0.93:
                return ['ts_add_node', None, v, None, 'unspecified', {}]
            return ['ts_add_node', name, None, l, 'unspecified', {}]
        if x < 0.45:
            return ['add_node_obj', name, r.choice(VTYPES), self.meta()]
        return ['add_node', name, r.choice(VTYPES) if r.random() < 0.93 else r.choice(['BAD_STR', 'BAD_OBJ']), self.meta()]

    def gen_bulk(self):
        r = self.r
        if r.random() < 0.3:
            p = self.cycle_closing_pair()
            if p:
                s, d = p
                y = r.random()
                tail = [self.any_name() for _ in range(r.randint(1, 2))]
                if y < 0.4:
                    return ['add_path', [s, d] + tail, r.random() < 0.9]
                if y < 0.6:
                    return ['add_paths', [[self.any_name(), s, d] + tail, [self.any_name(), self.any_name()]]]
                if y < 0.8:
                    return ['add_edges_from', [[s, d]] + [[self.any_name(), self.any_name()] for _ in range(2)], r.random() < 0.9]
                return ['add_fully_connected', [s], [d] + tail]
        x = r.random()
        k = r.randint(1, 4)
        if x < 0.2:
            return ['add_nodes_from', [self.any_name() for _ in range(k)]]
        if x < 0.45:
            return ['add_edges_from', [[self.any_name(), self.any_name()] for _ in range(k)], r.random() < 0.9]
        if x < 0.7:
            return ['add_path', [self.any_name() for _ in range(r.randint(0, 5))], r.random() < 0.85]
        if x < 0.85:
            return ['add_paths', [[self.any_name() for _ in range(r.randint(0, 4))] for _ in range(r.randint(0, 3))]]
        return ['add_fully_connected', [self.any_name() for _ in range(r.randint(0, 2))],
                [self.any_name() for _ in range(r.randint(0, 3))]]

    def gen_time_edge(self):
        r = self.r
        return ['add_time_edge', r.choice(TS_VARS + ['X lag(n=1)']), r.choice(TS_LAGS), r.choice(TS_VARS),
                r.choice(TS_LAGS), self.meta(), r.random() < 0.9]

    def next_op(self, singles_only=False):
        r = self.r
        table = [(30, self.gen_add_edge), (12, self.gen_add_node), (10, self.gen_delete_edge),
                 (6, self.gen_delete_node), (12, self.gen_change_type), (12, self.gen_replace_edge),
                 (10, self.gen_replace_node)]
        if not singles_only:
            table.append((8, self.gen_bulk))
        if self.cls == 'ts':
            table.append((6, self.gen_time_edge))
        tot = sum(w for w, _ in table)
        x = r.random() * tot
        for w, f in table:
            x -= w
            if x <= 0:
                return f()
        return table[0][1]()

    def history(self, length, singles_only=False):
        ops = []
        for _ in range(length):
            op = self.next_op(singles_only)
            ops.append(op)
            impl.apply_op(self.g, op)
        return ops


SINGLE_OPS = {'add_node', 'add_node_obj', 'ts_add_node', 'add_edge', 'add_edge_by_pair', 'add_edge_obj', 'delete_edge',
              'remove_edge', 'remove_edge_by_pair', 'delete_node', 'remove_node', 'change_edge_type', 'replace_edge',
              'replace_node', 'add_time_edge'}


def gen_cases(tier, rng, n_quick, n_thorough, singles_only=False, max_len=25):
    n = n_quick if tier == 'quick' else n_thorough
    for i in range(n):
        cls = 'ts' if rng.random() < 0.5 else 'plain'
        universe = None
        if cls == 'plain' and rng.random() < 0.12:
            # names whose PAIRS collide when joined with a separator: ('a', 'b c') and ('a b', 'c') both spell 'a b c'
            sep = rng.choice([' ', '_', ',', '-', '>', '|', ', ', '->'])
            universe = ['a', 'b' + sep + 'c', 'a' + sep + 'b', 'c', 'b']
        gen = Gen(rng, cls, universe=universe)
        length = rng.randint(3, max_len)
        ops = gen.history(length, singles_only)
        yield {'cls': cls, 'gmeta': dict(rng.choice(METAS)), 'ops': ops, 'warm': rng.random() < 0.5}


def warm_caches(g):
    """call every memoising reader (so that later answers come from warm caches if a reset is missed)"""
    for f in (g.is_dag, g.to_networkx, lambda: g.adjacency_matrix, lambda: g.identifier):
        try:
            f()
        except Exception:  # noqa: BLE001
            pass
    if impl.is_ts(g):
        # the memoised time-series answers, and the derived graphs (read-only: producing them must not change the graph)
        for f in (lambda: g.variables, g.is_minimal_graph, g.is_stationary_graph, g.get_minimal_graph,
                  lambda: g.adjacency_matrices, g.get_stationary_graph, g.get_summary_graph,
                  lambda: g.extend_graph(1, 1)):
            try:
                f()
            except Exception:  # noqa: BLE001
                pass


def shrink_ops(case, still_fails, budget=200):
    """greedy delta-debugging over the operation list"""
    ops = list(case['ops'])
    n = 0
    changed = True
    while changed and n < budget:
        changed = False
        i = len(ops) - 1
        while i >= 0 and n < budget:
            trial = ops[:i] + ops[i + 1:]
            n += 1
            c2 = dict(case, ops=trial, warm=case.get('warm', False))
            if trial and still_fails(c2):
                ops = trial
                changed = True
            i -= 1
    return dict(case, ops=ops)


def widen_history(case, limit=80):
    """widened search around a disagreeing history: the same history followed by one more directed edge between every
    ordered pair of node names it mentions (one variant per pair, plus one with all of them) - used when model and
    implementation disagree but the oracle saw no failure yet"""
    names = []
    for op in case['ops']:
        for x in op[1:]:
            if isinstance(x, str) and x not in names and x not in TYPES and x not in VTYPES and x not in ('default', 'BAD_STR', 'BAD_OBJ'):
                names.append(x)
    names = names[:8]
    extra = [['add_edge', a, b, '->', {}, True] for a in names for b in names if a != b]
    out = [dict(case, ops=case['ops'] + extra)]
    for e in extra[:limit]:
        out.append(dict(case, ops=case['ops'] + [e]))
    return out
