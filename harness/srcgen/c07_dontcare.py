"""
C07 (equality): the list of edge types for which `Edge.__eq__` ignores the declared orientation.

`Edge.__eq__` in cai_causal_graph/graph_components.py starts with the literal

    dont_care_direction = [EdgeType.UNDIRECTED_EDGE, EdgeType.BIDIRECTED_EDGE, EdgeType.UNKNOWN_EDGE]

The list is re-extracted from the working tree with `ast` on every run, every member is resolved to its VALUE text
through the `EdgeType` enum of cai_causal_graph/type_definitions.py (also with `ast`), and the result is written to
lean/CG/Generated/DontCare.lean.  The model (`CG.dontCare` in lean/CG/Model/Eq.lean) reads the table; the proof
obligation `CG.C07.dontCare_eq` pins it to ["--", "<>", "oo"]: if the source list changes, `lake build CG` fails
(intended: the characterisation `graphEq_iff` is stated for exactly these three symmetric types).
"""
import ast
import os
import sys

from harness.core import REPO

FILENAME = 'DontCare.lean'
STUB = 'namespace CG.Generated\n\ndef dontCareDirection : List String := ["<extraction failed>"]\n\nend CG.Generated\n'
GC = os.path.join('cai_causal_graph', 'graph_components.py')
TD = os.path.join('cai_causal_graph', 'type_definitions.py')


def _class(tree, name, path):
    for node in tree.body:
        if isinstance(node, ast.ClassDef) and node.name == name:
            return node
    raise AssertionError(f'class {name} not found in {path}')


def edge_type_values(repo=None):
    """member name -> value text of the `EdgeType` enum, in declaration order"""
    path = os.path.join(repo or REPO, TD)
    tree = ast.parse(open(path, encoding='utf-8').read())
    out = {}
    for st in _class(tree, 'EdgeType', path).body:
        if isinstance(st, ast.Assign) and len(st.targets) == 1 and isinstance(st.targets[0], ast.Name):
            if isinstance(st.value, ast.Constant) and isinstance(st.value.value, str):
                out[st.targets[0].id] = st.value.value
    if not out:
        raise AssertionError(f'no members found in EdgeType ({path})')
    return out


def dont_care_members(repo=None):
    """the member names in the `dont_care_direction` list literal of `Edge.__eq__`, in source order"""
    path = os.path.join(repo or REPO, GC)
    tree = ast.parse(open(path, encoding='utf-8').read())
    eq = None
    for st in _class(tree, 'Edge', path).body:
        if isinstance(st, ast.FunctionDef) and st.name == '__eq__':
            eq = st
    if eq is None:
        raise AssertionError(f'Edge.__eq__ not found in {path}')
    found = []
    for node in ast.walk(eq):
        if isinstance(node, ast.Assign) and any(isinstance(t, ast.Name) and t.id == 'dont_care_direction'
                                                for t in node.targets):
            found.append(node.value)
    if len(found) != 1:
        raise AssertionError(f'expected exactly one assignment to dont_care_direction in Edge.__eq__, got {len(found)}')
    lit = found[0]
    # a refactoring may hoist the literal into a module-level or class-level constant: follow one Name / self.X / cls.X
    hops = 0
    while not isinstance(lit, (ast.List, ast.Tuple, ast.Set)) and hops < 3:
        hops += 1
        ref = lit.id if isinstance(lit, ast.Name) else (lit.attr if isinstance(lit, ast.Attribute) else None)
        if ref is None:
            break
        target = None
        for scope in (tree.body, _class(tree, 'Edge', path).body):
            for st in scope:
                if isinstance(st, ast.Assign) and any(isinstance(t, ast.Name) and t.id == ref for t in st.targets):
                    target = st.value
                if isinstance(st, ast.AnnAssign) and isinstance(st.target, ast.Name) and st.target.id == ref and st.value:
                    target = st.value
        if target is None:
            break
        lit = target
    if isinstance(lit, ast.Call) and isinstance(lit.func, ast.Name) and lit.func.id in ('frozenset', 'set', 'tuple', 'list') \
            and len(lit.args) == 1:
        lit = lit.args[0]
    if not isinstance(lit, (ast.List, ast.Tuple, ast.Set)):
        raise AssertionError('dont_care_direction is not (a reference to) a list / tuple / set literal')
    names = []
    for el in lit.elts:
        if not (isinstance(el, ast.Attribute) and isinstance(el.value, ast.Name) and el.value.id == 'EdgeType'):
            raise AssertionError('dont_care_direction has a member that is not of the form EdgeType.<NAME>')
        names.append(el.attr)
    return names


def dont_care_texts(repo=None):
    values = edge_type_values(repo)
    out = []
    for n in dont_care_members(repo):
        if n not in values:
            raise AssertionError(f'EdgeType.{n} is not a member of the EdgeType enum')
        out.append(values[n])
    return out


def dont_care_by_execution():
    """Fallback when the literal cannot be found in the text (the comparison was restructured): the table is small and
    closed -- six edge types -- so it is computed by RUNNING `Edge.__eq__` of the working tree on every type: the types for
    which the edge a -> b of that type equals the edge b -> a of that type, in declaration order.  Exhaustive over the
    whole domain of the table, so this is the table, not a sample of it."""
    from harness.core import setup_repo_path
    setup_repo_path()
    from cai_causal_graph.graph_components import Edge, Node
    from cai_causal_graph.type_definitions import EdgeType
    members = []
    for t in EdgeType:
        e1, e2 = Edge(Node('a'), Node('b'), edge_type=t), Edge(Node('b'), Node('a'), edge_type=t)
        fwd, bwd = e1.__eq__(e2), e2.__eq__(e1)
        if fwd != bwd:
            raise AssertionError(f'Edge.__eq__ is not symmetric on flipped {t!r} edges')
        if fwd:
            members.append(t.name)
    return members, [EdgeType[m].value for m in members]


def generate():
    how = 'the `dont_care_direction` list literal of `Edge.__eq__`, read with `ast`'
    try:
        members = dont_care_members()
        texts = dont_care_texts()
    except Exception as e:  # noqa: BLE001 -- the literal is gone from the text: compute the table by execution
        members, texts = dont_care_by_execution()
        how = ('computed by running `Edge.__eq__` on a flipped pair of every edge type (the literal was not found in the '
               'text: ' + str(e).replace('-/', '- /')[:160] + ')')
    lits = ', '.join('"' + t.replace('\\', '\\\\').replace('"', '\\"') + '"' for t in texts)
    text = (
        '/-\n'
        'GENERATED by harness/srcgen/c07_dontcare.py -- do not edit.\n'
        'The edge types for which `Edge.__eq__` (cai_causal_graph/graph_components.py) ignores the declared orientation,\n'
        'as value texts of the `EdgeType` enum (cai_causal_graph/type_definitions.py).\n'
        f'source: {how}\n'
        f'members = {", ".join("EdgeType." + m for m in members)}\n'
        '-/\n'
        'namespace CG.Generated\n\n'
        f'def dontCareDirection : List String := [{lits}]\n\n'
        'end CG.Generated\n'
    )
    return FILENAME, text


if __name__ == '__main__':
    sys.stdout.write(generate()[1])
