"""
C04 (cached answers reflect the current graph): the decorator / index-write / call table of the two graph classes,
re-extracted from the source text with `ast` on every run and written to lean/CG/Generated/CacheTable.lean.

Per method of `CausalGraph` and `TimeSeriesCausalGraph` (class bodies only, nested functions are attributed to
the method that contains them):

  decorated   `@reset_cached_attributes_decorator` is among the decorators
  writes      index attributes the body mutates directly:
                self._x = …, self._x[...] = …, self._x[...][...] = …, del self._x[...], augmented assignments,
                self._x….pop( / .append( / .remove( / .clear( / .update( / .setdefault( / .insert( / .extend( /
                .popitem( for _x in INDEX_ATTRS; calls of ._add_inbound_edge( / ._add_outbound_edge( /
                ._delete_inbound_edge( / ._delete_outbound_edge( on anything (per-node edge lists, written
                `@node_edge_lists`); in-place `<name>.meta = …` / `<name>.variable_type = …` on a local that is not
                `self` (written `@meta`, `@variable_type`)
  selfCalls   m for every `self.m(…)`, `cls.m(…)`, `self.__class__.m(…)` and every *load* of `self.m` where m is a
              method or property of either class (a property access runs the property)
  superCalls  m for every `super().m(…)` / `super(X, self).m(…)`
  caches      attributes memoised by the method: `self._x` (or `getattr(self, '_x', …)`) is compared with None
              (`is None` / `is not None`) AND
              assigned a value other than the constant None in the same method (`__init__` and
              `_reset_cached_attributes` excluded)

and per class the attributes `_reset_cached_attributes` assigns None to, and whether it calls
`super()._reset_cached_attributes()`.

The Lean side (CG/Proofs/C04.lean) resolves the calls (most-derived method for `self.`, base class for `super().`)
and proves by evaluation: (a) no public undecorated method reaches a direct index write without passing through a
decorated method, (b) every memoised attribute is cleared by the class's reset, (c) no decorated method and no
direct writer reaches a memoising reader.  `check_tables()` computes the same three facts in Python so that a
broken build has a readable explanation (lane C04 `source_obligations`).
"""
import ast
import os

from harness.core import REPO

FILENAME = 'CacheTable.lean'

SOURCES = [('CausalGraph', os.path.join('cai_causal_graph', 'causal_graph.py')),
           ('TimeSeriesCausalGraph', os.path.join('cai_causal_graph', 'time_series_causal_graph.py'))]

DECORATOR = 'reset_cached_attributes_decorator'
RESET = '_reset_cached_attributes'
INDEX_ATTRS = ['_nodes_by_identifier', '_edges_by_source', '_edges_by_destination', '_lag_to_nodes',
               '_variable_name_to_nodes']
MUTATING_CALLS = {'pop', 'append', 'remove', 'clear', 'update', 'setdefault', 'insert', 'extend', 'popitem',
                  '__setitem__', '__delitem__'}
NODE_LIST_CALLS = {'_add_inbound_edge', '_add_outbound_edge', '_delete_inbound_edge', '_delete_outbound_edge'}
INPLACE_ATTRS = {'meta', 'variable_type'}


def _self_attr(node):
    """'_x' if node is `self._x`, else None"""
    if isinstance(node, ast.Attribute) and isinstance(node.value, ast.Name) and node.value.id == 'self':
        return node.attr
    return None


def _root_index_attr(node):
    """the index attribute at the root of `self._x`, `self._x[...]`, `self._x[...][...]` …, else None"""
    while isinstance(node, ast.Subscript):
        node = node.value
    a = _self_attr(node)
    return a if a in INDEX_ATTRS else None


def _getattr_self(node):
    """'_x' if node is `getattr(self, '_x', …)`, else None"""
    if (isinstance(node, ast.Call) and isinstance(node.func, ast.Name) and node.func.id == 'getattr' and len(node.args) >= 2
            and isinstance(node.args[0], ast.Name) and node.args[0].id == 'self'
            and isinstance(node.args[1], ast.Constant) and isinstance(node.args[1].value, str)):
        return node.args[1].value
    return None


def _is_none(node):
    return isinstance(node, ast.Constant) and node.value is None


def _is_super_call(node):
    return isinstance(node, ast.Call) and isinstance(node.func, ast.Name) and node.func.id == 'super'


def _targets(stmt):
    if isinstance(stmt, ast.Assign):
        out = []
        for t in stmt.targets:
            out.extend(t.elts if isinstance(t, (ast.Tuple, ast.List)) else [t])
        return out
    if isinstance(stmt, (ast.AugAssign, ast.AnnAssign)):
        return [stmt.target] if not (isinstance(stmt, ast.AnnAssign) and stmt.value is None) else []
    if isinstance(stmt, ast.Delete):
        return list(stmt.targets)
    return []


def _method_facts(fn, all_names):
    decorated = False
    kind = 'method'
    for d in fn.decorator_list:
        name = d.id if isinstance(d, ast.Name) else d.attr if isinstance(d, ast.Attribute) else None
        if name == DECORATOR:
            decorated = True
        if name in ('property', 'classmethod', 'staticmethod'):
            kind = name
    writes, self_calls, super_calls = [], [], []
    compared, assigned, cleared = set(), set(), []

    def add(lst, x):
        if x not in lst:
            lst.append(x)

    for node in ast.walk(fn):
        for t in _targets(node):
            r = _root_index_attr(t)
            if r is not None:
                add(writes, r)
            if (isinstance(t, ast.Attribute) and t.attr in INPLACE_ATTRS and isinstance(t.value, ast.Name)
                    and t.value.id != 'self' and not isinstance(node, ast.Delete)):
                add(writes, '@' + t.attr)
            a = _self_attr(t)
            if a is not None and isinstance(node, (ast.Assign, ast.AnnAssign)):
                if _is_none(node.value):
                    add(cleared, a)
                else:
                    assigned.add(a)
        if isinstance(node, ast.Call) and isinstance(node.func, ast.Attribute):
            f = node.func
            if f.attr in MUTATING_CALLS:
                r = _root_index_attr(f.value)
                if r is not None:
                    add(writes, r)
            if f.attr in NODE_LIST_CALLS:
                add(writes, '@node_edge_lists')
            if _is_super_call(f.value):
                add(super_calls, f.attr)
            if isinstance(f.value, ast.Name) and f.value.id == 'cls':
                add(self_calls, f.attr)
            if (isinstance(f.value, ast.Attribute) and f.value.attr == '__class__'
                    and isinstance(f.value.value, ast.Name) and f.value.value.id == 'self'):
                add(self_calls, f.attr)
        if isinstance(node, ast.Attribute) and isinstance(node.ctx, ast.Load):
            a = _self_attr(node)
            if a is not None and a in all_names:
                add(self_calls, a)
        if isinstance(node, ast.Compare):
            operands = [node.left] + list(node.comparators)
            if any(isinstance(op, (ast.Is, ast.IsNot)) for op in node.ops) and any(_is_none(o) for o in operands):
                for o in operands:
                    a = _self_attr(o) or _getattr_self(o)
                    if a is not None:
                        compared.add(a)
    caches = sorted(compared & assigned) if fn.name not in ('__init__', RESET) else []
    return {'name': fn.name, 'kind': kind, 'decorated': decorated, 'writes': writes, 'selfCalls': self_calls,
            'superCalls': super_calls, 'caches': caches, 'cleared': cleared if fn.name == RESET else []}


def extract(repo=None):
    """{'CausalGraph': [method facts …], 'TimeSeriesCausalGraph': [...]} in source order"""
    repo = repo or REPO
    trees = {}
    for cls, rel in SOURCES:
        tree = ast.parse(open(os.path.join(repo, rel), encoding='utf-8').read())
        cdef = next(n for n in tree.body if isinstance(n, ast.ClassDef) and n.name == cls)
        trees[cls] = [n for n in cdef.body if isinstance(n, (ast.FunctionDef, ast.AsyncFunctionDef))]
    all_names = {fn.name for fns in trees.values() for fn in fns}
    out = {}
    for cls, fns in trees.items():
        rows, seen = [], {}
        for fn in fns:
            facts = _method_facts(fn, all_names)
            if fn.name in seen:
                # property setter / overload with the same name: merge into the first row
                row = rows[seen[fn.name]]
                row['decorated'] = row['decorated'] and facts['decorated']
                for k in ('writes', 'selfCalls', 'superCalls', 'caches', 'cleared'):
                    for x in facts[k]:
                        if x not in row[k]:
                            row[k].append(x)
            else:
                seen[fn.name] = len(rows)
                rows.append(facts)
        out[cls] = rows
    return out


# ------------------------------------------------------------------------------------------------------------
# the three obligations, in Python (same definitions as CG/Proofs/C04.lean)
# ------------------------------------------------------------------------------------------------------------

def _resolver(tables, cls):
    """nodes are (class, method); returns (nodes visible on an instance of `cls`, successor function)"""
    base, ts = 'CausalGraph', 'TimeSeriesCausalGraph'
    rows = {(c, r['name']): r for c in tables for r in tables[c]}
    order = [ts, base] if cls == ts else [base]

    def most_derived(m):
        for c in order:
            if (c, m) in rows:
                return (c, m)
        return None

    def succ(node):
        c, _ = node
        r = rows[node]
        out = []
        for m in r['selfCalls']:
            t = most_derived(m)
            if t is not None:
                out.append(t)
        for m in r['superCalls']:
            if c == ts and (base, m) in rows:
                out.append((base, m))
        return out

    names = []
    for c in order:
        for r in tables[c]:
            if r['name'] not in names:
                names.append(r['name'])
    entry = [most_derived(m) for m in names]
    return rows, entry, succ


def _closure(starts, succ, stop=lambda n: False):
    seen, todo = [], list(starts)
    while todo:
        n = todo.pop()
        if n in seen:
            continue
        seen.append(n)
        for m in succ(n):
            if not stop(m):
                todo.append(m)
    return seen


def check_tables(tables=None):
    """[(name, ok, detail)] for: writers covered, cached ⊆ cleared, no reader inside a mutator — per class"""
    tables = tables or extract()
    base, ts = 'CausalGraph', 'TimeSeriesCausalGraph'
    out = []
    for cls in (base, ts):
        rows, entry, succ = _resolver(tables, cls)
        dec = lambda n: rows[n]['decorated']                                      # noqa: E731
        # (a) from every public undecorated entry point, without entering decorated methods, no direct writer
        starts = [n for n in entry if not n[1].startswith('_') and not dec(n)]
        reach = _closure(starts, succ, stop=dec)
        bad = [f'{c}.{m} writes {rows[(c, m)]["writes"]}' for (c, m) in reach if rows[(c, m)]['writes']]
        out.append((f'{cls}: every direct index write happens inside a decorated call', not bad,
                    'reachable from a public method without passing through a decorated method: ' + '; '.join(bad)
                    if bad else f'{len(reach)} methods reachable outside decorated calls, none writes an index'))
        # (b) cached ⊆ cleared
        visible = _closure(entry, succ)
        cached = sorted({a for n in rows if n[0] in ([base, ts] if cls == ts else [base]) for a in rows[n]['caches']})
        cleared = list(rows[(cls, RESET)]['cleared']) if (cls, RESET) in rows else []
        if cls == ts and ((ts, RESET) not in rows or RESET in rows[(ts, RESET)]['superCalls']):
            cleared += rows[(base, RESET)]['cleared']
        missing = [a for a in cached if a not in cleared]
        out.append((f'{cls}: every memoised attribute is cleared by _reset_cached_attributes', not missing,
                    f'memoised but never cleared: {missing}' if missing else f'cached={cached} cleared={sorted(cleared)}'))
        # (c) no memoising reader is reachable from a decorated method or a direct writer
        readers = [n for n in visible if rows[n]['caches']]
        muts = [n for n in visible if dec(n) or rows[n]['writes']]
        bad = []
        for m in muts:
            hit = [r for r in _closure([m], succ) if r in readers]
            if hit:
                bad.append(f'{m[0]}.{m[1]} reaches {[f"{c}.{x}" for c, x in hit]}')
        out.append((f'{cls}: no mutator runs a memoising reader', not bad,
                    '; '.join(bad) if bad else f'{len(muts)} decorated/writing methods, {len(readers)} memoising readers'))
    return out


# ------------------------------------------------------------------------------------------------------------
# Lean text
# ------------------------------------------------------------------------------------------------------------

def _s(x):
    return '"' + x.replace('\\', '\\\\').replace('"', '\\"') + '"'


def _l(xs):
    return '[' + ', '.join(_s(x) for x in xs) + ']'


def _row(r, code):
    def calls(xs):
        return '[' + ', '.join(f'{code[x]} /- {x} -/' for x in xs if x in code) + ']'
    return (f'  ⟨{code[r["name"]]} /- {r["name"]} -/, {"false" if r["name"].startswith("_") else "true"}, '
            f'{"true" if r["decorated"] else "false"}, {_l(r["writes"])}, '
            f'{calls(r["selfCalls"])}, {calls(r["superCalls"])}, {_l(r["caches"])}⟩')


def generate():
    t = extract()
    base, ts = t['CausalGraph'], t['TimeSeriesCausalGraph']
    names = []
    for rows in (base, ts):
        for r in rows:
            if r['name'] not in names:
                names.append(r['name'])
    code = {n: i for i, n in enumerate(names)}

    def cleared(rows):
        r = [x for x in rows if x['name'] == RESET]
        return (r[0]['cleared'], RESET in r[0]['superCalls']) if r else ([], True)

    bc, _ = cleared(base)
    tc, tsup = cleared(ts)
    name_rows = []
    for i in range(0, len(names), 6):
        name_rows.append('  ' + ', '.join(_s(n) for n in names[i:i + 6]))
    text = (
        '/-\n'
        'GENERATED by harness/srcgen/c04_table.py -- do not edit.\n'
        'Decorator / direct-index-write / call table of `CausalGraph` and `TimeSeriesCausalGraph`, extracted from the\n'
        'class bodies with Python `ast` (see the generator for the exact patterns).  A method name is written as its\n'
        'position in `methodNames` (the name follows in a comment).  One row per method:\n'
        '  ⟨name, public (no leading underscore)?, decorated with reset_cached_attributes_decorator?, index attributes\n'
        '   written directly,\n'
        '   self.m(…)/self.m/cls.m(…) references to methods, super().m(…) calls, attributes memoised here⟩\n'
        f'index attributes: {", ".join(INDEX_ATTRS)}; @node_edge_lists = Node._add/_delete_inbound/outbound_edge;\n'
        '@meta / @variable_type = in-place assignment on a node/edge object.\n'
        'The proof obligations over this table are in CG/Proofs/C04.lean.\n'
        '-/\n'
        'namespace CG.Generated.CacheTable\n\n'
        'def methodNames : List String := [\n' + ',\n'.join(name_rows) + '\n]\n\n'
        'structure Method where\n'
        '  name : Nat\n'
        '  isPublic : Bool\n'
        '  decorated : Bool\n'
        '  writes : List String\n'
        '  selfCalls : List Nat\n'
        '  superCalls : List Nat\n'
        '  caches : List String\n\n'
        'def causalGraph : List Method := [\n' + ',\n'.join(_row(r, code) for r in base) + '\n]\n\n'
        'def timeSeriesCausalGraph : List Method := [\n' + ',\n'.join(_row(r, code) for r in ts) + '\n]\n\n'
        '/-- attributes `CausalGraph._reset_cached_attributes` sets to None -/\n'
        f'def clearedCausalGraph : List String := {_l(bc)}\n\n'
        '/-- attributes `TimeSeriesCausalGraph._reset_cached_attributes` sets to None itself -/\n'
        f'def clearedTimeSeriesOwn : List String := {_l(tc)}\n\n'
        '/-- … and whether it then calls `super()._reset_cached_attributes()` (true also when it is not overridden) -/\n'
        f'def timeSeriesResetCallsSuper : Bool := {"true" if tsup else "false"}\n\n'
        'end CG.Generated.CacheTable\n'
    )
    return FILENAME, text


if __name__ == '__main__':
    import sys
    if len(sys.argv) > 1 and sys.argv[1] == 'check':
        for name, ok, detail in check_tables():
            print('OK ' if ok else 'BAD', name, '--', detail)
    else:
        sys.stdout.write(generate()[1])
