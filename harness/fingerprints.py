"""Normalised-AST fingerprints of the package under test (docstrings and formatting do not count)."""
import ast
import hashlib
import json
import os

VERIF = os.path.dirname(os.path.dirname(os.path.abspath(__file__)))


def _strip_docstrings(tree):
    for node in ast.walk(tree):
        if isinstance(node, (ast.FunctionDef, ast.AsyncFunctionDef, ast.ClassDef, ast.Module)):
            b = node.body
            if b and isinstance(b[0], ast.Expr) and isinstance(getattr(b[0], 'value', None), ast.Constant) \
                    and isinstance(b[0].value.value, str):
                node.body = b[1:] or [ast.Pass()]
    return tree


def current(repo=None):
    repo = repo or os.environ.get('REPO', '/repo')
    pkg = os.path.join(repo, 'cai_causal_graph')
    out = {}
    for f in sorted(os.listdir(pkg)):
        if f.endswith('.py'):
            try:
                tree = _strip_docstrings(ast.parse(open(os.path.join(pkg, f), encoding='utf-8').read()))
                out[f] = hashlib.sha1(ast.dump(tree).encode()).hexdigest()
            except SyntaxError:
                out[f] = 'syntax-error'
    return out


def changed_files(repo=None):
    p = os.path.join(VERIF, 'fingerprints.json')
    if not os.path.exists(p):
        return []
    old = json.load(open(p))
    new = current(repo)
    return sorted(f for f in set(old) | set(new) if old.get(f) != new.get(f))
