"""Shared generators: labelled DAGs, mixed graphs, builders for real CausalGraph objects."""
from __future__ import annotations

import itertools

NAMES = ['a', 'b', 'c', 'd', 'e', 'f', 'g', 'h', 'i']
EDGE_TYPES = ['->', '--', '<>', 'oo', 'o>', 'o-']


def is_acyclic(n, edges):
    """edges: iterable of (i, j) over range(n)."""
    indeg = [0] * n
    out = [[] for _ in range(n)]
    for i, j in edges:
        out[i].append(j)
        indeg[j] += 1
    todo = [i for i in range(n) if indeg[i] == 0]
    seen = 0
    while todo:
        x = todo.pop()
        seen += 1
        for y in out[x]:
            indeg[y] -= 1
            if indeg[y] == 0:
                todo.append(y)
    return seen == n


def all_labelled_dags(n):
    """Every labelled DAG on exactly n nodes 0..n-1, as a sorted tuple of (i, j) edges.
    Counts: n=0:1, 1:1, 2:3, 3:25, 4:543, 5:29281."""
    pairs = [(i, j) for i in range(n) for j in range(i + 1, n)]
    # each unordered pair: none, i->j, j->i
    for choice in itertools.product((0, 1, 2), repeat=len(pairs)):
        edges = []
        for (i, j), c in zip(pairs, choice):
            if c == 1:
                edges.append((i, j))
            elif c == 2:
                edges.append((j, i))
        if is_acyclic(n, edges):
            yield tuple(edges)


def upper_triangular_dags(n):
    """One representative per topological shape: all sub-sets of the strict upper triangle."""
    pairs = [(i, j) for i in range(n) for j in range(i + 1, n)]
    for mask in range(1 << len(pairs)):
        yield tuple(p for k, p in enumerate(pairs) if mask >> k & 1)


def random_dag(rng, n, p=0.4, names=None):
    """Random labelled DAG: random permutation as the order, each forward pair with probability p."""
    order = list(range(n))
    rng.shuffle(order)
    edges = []
    for a in range(n):
        for b in range(a + 1, n):
            if rng.random() < p:
                edges.append((order[a], order[b]))
    rng.shuffle(edges)
    return tuple(edges)


def ts_names(n, edges):
    """`tsv<i>` at a lag that grows with the depth of node i (longest path from a source): every edge goes forward in
    time, nodes of one depth (or of two adjacent depths) are contemporaneous.  A cyclic edge list gets lag 0 throughout."""
    level = [0] * n
    for _ in range(n):
        changed = False
        for a, b in edges:
            if level[b] < level[a] + 1:
                level[b] = level[a] + 1
                changed = True
        if not changed:
            break
    else:
        if n:
            level = [0] * n                       # a directed cycle: everything contemporaneous
    top = max(level) if n else 0
    halve = (n + len(list(edges))) % 2 == 1
    out = []
    for i in range(n):
        back = (top - level[i]) // 2 if halve else top - level[i]
        out.append(f'tsv{i}' if back == 0 else f'tsv{i} lag(n={back})')
    return out


def named(edges, names=NAMES):
    return [(names[i], names[j]) for i, j in edges]


def _directed():
    from cai_causal_graph.type_definitions import EdgeType
    return EdgeType.DIRECTED_EDGE


def build_dag(n, edges, names=NAMES, cls=None, order=None):
    """Real CausalGraph with nodes names[:n] and directed edges."""
    from cai_causal_graph import CausalGraph
    g = (cls or CausalGraph)()
    nodes = list(names[:n])
    if order is not None:
        nodes = [nodes[i] for i in order]
    edges = list(edges)
    # isolated nodes sometimes arrive LAST, by a direct add_node on warm caches with no mutation after it
    touched = {names[i] for e in edges for i in e}
    late = [x for x in nodes if x not in touched] if (n + 2 * len(edges)) % 3 == 0 and edges else []
    for x in nodes:
        if x not in late:
            g.add_node(x)
    retype = []
    for k, (i, j) in enumerate(edges):
        if k == len(edges) - 1 and len(edges) >= 2:
            # interactions BEFORE the last edge goes in: a later successful mutation must still reset every cache
            stress(g, ('dag-pre', n, tuple(edges)))
        if (n + k + len(edges)) % 3 == 0:
            # the edge type spelled as a plain string; every other time through the by-pair form
            if (n + k) % 2:
                g.add_edge_by_pair((names[i], names[j]), edge_type='->')
            else:
                g.add_edge(names[i], names[j], edge_type='->')
        elif (n + 3 * k + len(edges)) % 7 == 0:
            # the edge arrives with another type and is directed afterwards (at once, or after all edges are in)
            g.add_edge(names[i], names[j], edge_type=['o>', '--', '<>', 'oo', 'o-'][(n + k) % 5])
            if k % 2:
                g.change_edge_type(names[i], names[j], '->' if k % 4 == 1 else _directed())
            else:
                retype.append((names[i], names[j]))
        elif (n + 5 * k + len(edges)) % 4 == 1:
            g.add_edge(names[i], names[j], validate=False)         # (the graph is a DAG by construction: nothing to validate)
        else:
            g.add_edge(names[i], names[j])
    for a, b in retype:
        g.change_edge_type(a, b, _directed())
    stress(g, ('dag', n, tuple(edges)))
    g = reroute(g, ('dag', n, tuple(edges)))[0]
    if late:
        _warm(g)
        for x in late:
            g.add_node(x)
    query_noise(g, ('dag', n, tuple(edges)))
    return g


def build_mixed(nodes, typed_edges, cls=None, validate=True):
    """typed_edges: list of (src, dst, type_text)."""
    from cai_causal_graph import CausalGraph
    from cai_causal_graph.type_definitions import EdgeType
    g = (cls or CausalGraph)()
    for x in nodes:
        g.add_node(x)
    typed_edges = list(typed_edges)
    for k, (s, d, t) in enumerate(typed_edges):
        if validate and k == len(typed_edges) - 1 and len(typed_edges) >= 2:
            stress(g, ('mixed-pre', tuple(nodes), tuple(typed_edges)))
        g.add_edge(s, d, edge_type=EdgeType(t) if (k + len(nodes)) % 3 else t, validate=validate)
    if validate:
        stress(g, ('mixed', tuple(nodes), tuple(typed_edges)))
        g = reroute(g, ('mixed', tuple(nodes), tuple(typed_edges)))[0]
    return g


def all_mixed_graphs(n, types=EDGE_TYPES, both_orientations=True):
    """Every mixed graph on n labelled nodes: per unordered pair none or (orientation, type)."""
    pairs = [(i, j) for i in range(n) for j in range(i + 1, n)]
    opts = [None]
    for t in types:
        opts.append((0, t))
        if both_orientations:
            opts.append((1, t))
    for choice in itertools.product(opts, repeat=len(pairs)):
        edges = []
        for (i, j), c in zip(pairs, choice):
            if c is None:
                continue
            o, t = c
            edges.append((i, j, t) if o == 0 else (j, i, t))
        yield tuple(edges)


def brute_descendants(nodes, edges):
    """dict node -> set of strict descendants, by closure iteration (no networkx)."""
    succ = {x: set() for x in nodes}
    for a, b in edges:
        succ[a].add(b)
    desc = {x: set(succ[x]) for x in nodes}
    changed = True
    while changed:
        changed = False
        for x in nodes:
            new = set()
            for y in desc[x]:
                new |= succ[y]
            if not new <= desc[x]:
                desc[x] |= new
                changed = True
    return desc


# ----------------------------------------------------------------------------------------------------------------
# state-preserving stress: interactions that leave a correct graph exactly as it was, but expose write-then-undo and
# cache bugs to the query lanes (rejected cycle-closing edge, partially failing bulk adder, warm caches in between)
# ----------------------------------------------------------------------------------------------------------------

_FAILURES = []


def take_failures():
    """what the builders noticed while building (a detour that must be the identity changed the graph, a constructor fed a
    faithful encoding built another graph): the lane adds it to its oracle failures"""
    out = list(_FAILURES)
    del _FAILURES[:]
    return out


def full_shape(g):
    """names with variable type and metadata, typed edges in stored orientation with metadata, graph metadata"""
    import json

    def t(e):
        v = e.get_edge_type()
        return v.value if hasattr(v, 'value') else str(v)

    def j(m):
        return json.dumps(m, sort_keys=True, default=str)
    def rel(n):
        try:
            return sorted(g.get_parents(n)), sorted(g.get_children(n)), sorted(g.get_neighbors(n))
        except Exception as e:  # noqa: BLE001
            return '!' + type(e).__name__
    return ([(n.identifier, n.variable_type.value, j(n.meta)) for n in g.get_nodes()],
            sorted((e.source.identifier, e.destination.identifier, t(e), j(e.meta)) for e in g.get_edges()), j(g.meta),
            [rel(n) for n in g.get_node_names()])


def reroute(g, key):
    """deterministic in `key`: sometimes the lane gets the same graph after a trip through JSON text (edge types and
    variable types then arrive as plain strings, caches are cold, indexes are rebuilt in dictionary order) or through
    copy(); the result is used only when it has the nodes and typed edges of `g`.  Returns (graph, tags)."""
    import hashlib
    import json
    h = int(hashlib.sha1(repr(('reroute', key)).encode()).hexdigest(), 16)
    if h % 5 > 1:
        return g, []

    def shape(x):
        def t(e):
            v = e.get_edge_type()
            return v.value if hasattr(v, 'value') else str(v)
        return x.get_node_names(), sorted((e.source.identifier, e.destination.identifier, t(e)) for e in x.get_edges())
    route = 'json' if h % 5 == 0 else 'copy'
    try:
        if h % 5 == 0 and h // 5 % 3 == 1:
            # through an adjacency matrix of an unsigned dtype, names in reversed order (fully directed graphs only; attributes
            # are lost on this route, which the structural lanes using it do not read)
            import numpy
            es = shape(g)[1]
            bare = not g.meta and all(not e.meta for e in g.get_edges()) and all(
                n.variable_type.value == 'unspecified' and not [k for k in n.meta if k not in ('time_lag', 'variable_name')]
                for n in g.get_nodes())
            if es and bare and all(t == '->' for _, _, t in es):
                names = list(reversed(g.get_node_names()))
                idx = {x: i for i, x in enumerate(names)}
                a = numpy.zeros((len(names), len(names)), dtype=[numpy.uint8, numpy.uint16, numpy.uint64][h // 15 % 3])
                for s_, d_, _ in es:
                    a[idx[s_], idx[d_]] = 1
                h2 = type(g).from_adjacency_matrix(a, names)
                route = 'matrix-unsigned'
            else:
                h2 = g.copy()
        elif h % 5 == 0 and h // 5 % 3 == 2:
            # through a networkx graph whose labels are ints (when every name is a canonical decimal integer)
            import networkx
            names = g.get_node_names()
            es = shape(g)[1]
            bare = not g.meta and all(not e.meta for e in g.get_edges()) and all(
                n.variable_type.value == 'unspecified' and not [k for k in n.meta if k not in ('time_lag', 'variable_name')]
                for n in g.get_nodes())
            if names and bare and all(x.isdigit() and x == str(int(x)) for x in names) \
                    and es and all(t == '->' for _, _, t in es):
                x = networkx.DiGraph()
                x.add_nodes_from(int(n_) for n_ in names)
                x.add_edges_from((int(s_), int(d_)) for s_, d_, _ in es)
                h2 = type(g).from_networkx(x)
                route = 'networkx-int-labels'
            else:
                if names and len(names) <= 8 and es and all(t == '->' for _, _, t in es) and not hasattr(g, 'get_minimal_graph'):
                    # the same structure under integer labels whose numeric and text orders differ (2 < 9 < 10 < 100 as numbers,
                    # '10' < '100' < '2' < '9' as text), nodes entered in yet another order: the constructor must give each
                    # node the edges of ITS label
                    labels = [9, 10, 2, 100, 1, 33, 8, 11][:len(names)]
                    lab = dict(zip(names, labels))
                    x = networkx.DiGraph()
                    x.add_nodes_from(lab[n_] for n_ in (names[1:] + names[:1]))
                    x.add_edges_from((lab[s_], lab[d_]) for s_, d_, _ in es)
                    hx_ = type(g).from_networkx(x)
                    want = (sorted(str(v) for v in labels), sorted((str(lab[s_]), str(lab[d_]), '->') for s_, d_, _ in es))
                    if shape(hx_) != want:
                        _FAILURES.append(f'from_networkx on integer labels {sorted(labels)} with edges '
                                         f'{sorted((lab[s_], lab[d_]) for s_, d_, _ in es)[:6]} built the edges {shape(hx_)[1][:6]}')
                h2 = type(g).from_dict(json.loads(json.dumps(g.to_dict())))
        else:
            h2 = type(g).from_dict(json.loads(json.dumps(g.to_dict()))) if h % 5 == 0 else g.copy()
        if shape(h2) != shape(g):
            _FAILURES.append(f'construction route {route}: the graph built from a faithful encoding of {shape(g)[1][:6]} has '
                             f'edges {shape(h2)[1][:6]} and nodes {shape(h2)[0][:8]}')
            return g, ['route:changed-the-graph']
    except Exception:  # noqa: BLE001 - a graph the route cannot carry (entered with validate=False, odd metadata)
        return g, []
    stress(h2, ('after-reroute', key))
    return h2, ['route:' + route]


def _warm(g):
    for f in (g.is_dag, g.to_networkx, lambda: g.adjacency_matrix, lambda: g.identifier):
        try:
            f()
        except Exception:  # noqa: BLE001
            pass
    if hasattr(g, 'get_minimal_graph'):
        for f in (lambda: g.variables, g.is_minimal_graph, g.is_stationary_graph, g.get_minimal_graph,
                  lambda: g.adjacency_matrices, g.get_summary_graph):
            try:
                f()
            except Exception:  # noqa: BLE001
                pass
    # separation queries (a library may memoise or store their answers)
    try:
        ns = g.get_node_names()[:4]
        for i, a in enumerate(ns):
            for b in ns[i + 1:]:
                for f in (lambda: g.get_d_separation_set(a, b), lambda: g.is_minimally_d_separated(a, b),
                          lambda: g.is_d_separated(a, b), lambda: g.is_d_separated([a], [b], [x for x in ns if x not in (a, b)][:1])):
                    try:
                        f()
                    except Exception:  # noqa: BLE001
                        pass
    except Exception:  # noqa: BLE001
        pass


def stress(g, key):
    """deterministic in `key`; returns the list of interactions performed (for tags).  Every interaction is, by the
    reference semantics of the calls, the identity on the graph (refused calls, something that comes and goes, a rename there
    and back, a retype there and back): if the graph differs afterwards that is recorded (`take_failures`)."""
    try:
        before = full_shape(g)
    except Exception:  # noqa: BLE001
        before = None
    done = _stress(g, key)
    if done and before is not None:
        try:
            after = full_shape(g)
        except Exception as e:  # noqa: BLE001
            after = ('!' + type(e).__name__,)
        if after != before:
            what = 'nodes' if after[0] != before[0] else ('edges' if len(after) > 1 and after[1] != before[1] else
                                                       'graph metadata' if len(after) > 2 and after[2] != before[2] else 'parents / children / neighbours')
            _FAILURES.append(f'a sequence of calls that must leave the graph as it was ({", ".join(done)[:200]}) changed its '
                             f'{what}: before {str(before[1])[:160]} after {str(after[1] if len(after) > 1 else after)[:160]}')
    return done


def _stress(g, key):
    import hashlib
    h = int(hashlib.sha1(repr(key).encode()).hexdigest(), 16)
    if h % 2:
        return []
    done = []
    from cai_causal_graph.type_definitions import EdgeType
    directed = [(e.source.identifier, e.destination.identifier) for e in g.get_edges()
                if e.get_edge_type() == EdgeType.DIRECTED_EDGE]
    names = g.get_node_names()
    desc = brute_descendants(names, directed)
    joined = {(e.source.identifier, e.destination.identifier) for e in g.get_edges()}
    joined |= {(b, a) for a, b in joined}
    if h // 59 % 4 == 0 and directed:
        # cold variant: a rejected call arrives on COLD caches (the builder has just mutated the graph), then every memoised
        # answer is taken only while one edge is non-directed, then the edge is directed again
        try:
            g.add_node(names[h // 61 % len(names)])
            done.append('duplicate-node-accepted!')
        except Exception:  # noqa: BLE001
            done.append('rejected-duplicate-node')
        a, b = directed[h // 19 % len(directed)]
        try:
            g.change_edge_type(a, b, [EdgeType.UNDIRECTED_EDGE, EdgeType.UNKNOWN_DIRECTED_EDGE,
                                      EdgeType.BIDIRECTED_EDGE][h // 31 % 3])
            _warm(g)
            g.change_edge_type(a, b, EdgeType.DIRECTED_EDGE)
            done.append('cold-rejected-then-warm-while-mixed')
        except Exception:  # noqa: BLE001
            done.append('detour-raised')
        return done
    _warm(g)
    # 1. a rejected cycle-closing edge between non-adjacent nodes (the insert-check-rollback path)
    cands = [(s, d) for d in names for s in sorted(desc[d]) if (s, d) not in joined]
    if cands:
        s, d = cands[h // 7 % len(cands)]
        try:
            g.add_edge(s, d)
            done.append('cycle-accepted!')
        except Exception:  # noqa: BLE001
            done.append('rejected-cycle')
    # 2. delete an edge, warm the caches, re-add it through a bulk adder whose LAST element is rejected
    if directed:
        a, b = directed[h // 11 % len(directed)]
        meta = dict(g.get_edge(a, b).meta)
        try:
            g.delete_edge(a, b)
            _warm(g)
            try:
                if h // 3 % 2:
                    g.add_edges_from([(a, b), (b, a)])
                else:
                    g.add_edges_from_paths([[a, b], [b, a]])
                done.append('bulk-accepted!')
            except Exception:  # noqa: BLE001
                done.append('bulk-partial')
            if meta and g.edge_exists(a, b):
                g.get_edge(a, b).meta.update(meta)
        except Exception:  # noqa: BLE001
            done.append('stress-raised')
    # 3. detour through a mixed state: retype one directed edge to --, ask for exports that a mixed graph refuses,
    #    orient it again (a refused export may fill some caches but not others)
    if directed and h // 17 % 2:
        a, b = directed[h // 19 % len(directed)]
        try:
            other = [EdgeType.UNDIRECTED_EDGE, EdgeType.UNKNOWN_DIRECTED_EDGE, EdgeType.BIDIRECTED_EDGE,
                     EdgeType.UNDIRECTED_EDGE, EdgeType.UNKNOWN_EDGE, EdgeType.UNKNOWN_UNDIRECTED_EDGE][h // 31 % 6]
            g.change_edge_type(a, b, other)
            for f in (g.to_networkx, g.to_gml_string, lambda: g.adjacency_matrix, g.to_numpy, g.is_dag):
                try:
                    f()
                except Exception:  # noqa: BLE001
                    pass
                if h // 23 % 2:
                    break
            if h // 29 % 2:
                _warm(g)                       # every memoised answer is taken while the graph is mixed
            g.change_edge_type(a, b, EdgeType.DIRECTED_EDGE if h // 37 % 3 else '->')
            done.append('mixed-detour')
        except Exception:  # noqa: BLE001
            done.append('detour-raised')
    # 4. a node of a new variable comes and goes (with an edge into the graph), every memoised answer taken while it is
    #    there: removal must leave no trace in any index or cache
    if h // 41 % 2:
        ghost = 'zq detour lag(n=9)' if hasattr(g, 'get_minimal_graph') else 'zq detour'
        try:
            if not g.node_exists(ghost):
                if names and h // 43 % 2:
                    g.add_edge(ghost, names[h // 47 % len(names)])
                else:
                    g.add_node(ghost)
                # the newcomer must be visible to every memoised answer at once (the caches were warm when it arrived)
                try:
                    seen_nx = ghost in [str(x) for x in g.to_networkx().nodes]
                except Exception:  # noqa: BLE001  (a mixed graph refuses the export)
                    seen_nx = True
                try:
                    seen_adj = g.adjacency_matrix.shape[0] == len(g.get_node_names())
                except Exception:  # noqa: BLE001
                    seen_adj = True
                try:
                    seen_topo = (not g.is_dag()) or ghost in g.get_topological_order()
                    if g.is_dag():
                        g.get_descendants(ghost), g.get_ancestors(ghost)
                except Exception as e:  # noqa: BLE001
                    seen_topo = False
                if not (seen_nx and seen_adj and seen_topo):
                    _FAILURES.append(f'a node added on warm caches ({ghost!r}) is missing from '
                                     f'{"the networkx export" if not seen_nx else "the adjacency matrix" if not seen_adj else "the topological order / the ancestor queries"}')
                _warm(g)
                (g.delete_node if h // 53 % 2 else g.remove_node)(ghost)
                done.append('node-came-and-went')
        except Exception:  # noqa: BLE001
            done.append('ghost-raised')
    is_ts = hasattr(g, 'get_minimal_graph')
    # 5. a hub with two parents, two children and two non-directed edges into the graph comes and goes (ghost names
    #    include a lone quote and a comma-blank: legitimate identifiers that occur inside the TEXT of every edge pair)
    if h // 67 % 2 and names:
        hub, ghosts = 'zq hub', ['zq p1', "'", 'zq c1', ', ']
        try:
            if not any(g.node_exists(x) for x in [hub] + ghosts):
                g.add_edge(ghosts[0], hub)
                g.add_edge(ghosts[1], hub)
                g.add_edge(hub, ghosts[2])
                g.add_edge(hub, ghosts[3])
                g.add_edge(hub, names[h // 71 % len(names)], edge_type=EdgeType.UNDIRECTED_EDGE)
                other = names[h // 73 % len(names)]
                if other != names[h // 71 % len(names)]:
                    g.add_edge(other, hub, edge_type=EdgeType.BIDIRECTED_EDGE)
                _warm(g)
                g.delete_node(hub)
                for x in ghosts:
                    (g.delete_node if h // 79 % 2 else g.remove_node)(x)
                done.append('hub-came-and-went')
        except Exception:  # noqa: BLE001
            done.append('hub-raised')
    # 6. a node is renamed and renamed back (same variable type; the metadata and every edge travel with it)
    if h // 83 % 2 and names:
        n = names[h // 89 % len(names)]
        try:
            import re
            m = re.match(r'^(.*?)( (?:lag|future)\(n=\d+\))?$', n, re.S)
            tmp = 'zq tmp' + (m.group(2) or '') if is_ts and m else 'zq tmp'
            if not g.node_exists(tmp):
                vt = g.get_node(n).variable_type
                g.replace_node(n, tmp, variable_type=vt)
                _warm(g)
                g.replace_node(tmp, n, variable_type=vt)
                done.append('renamed-and-back')
        except Exception:  # noqa: BLE001
            done.append('rename-raised')
    # 6b. (time-series) a refused rename: a node with a parent and a child is moved far into the future; its inbound edges
    #     can be copied, the first outbound one points backwards in time -- the half-built new node must go again
    if is_ts and directed and h // 131 % 2:
        import re
        mids = [x for x in names if any(b == x for _, b in directed) and any(a == x for a, _ in directed)]
        if mids:
            n = mids[h // 137 % len(mids)]
            m = re.match(r'^(.*?)( (?:lag|future)\(n=\d+\))?$', n, re.S)
            new = (m.group(1) if m else n) + ' future(n=9)'
            try:
                if not g.node_exists(new):
                    g.replace_node(n, new, variable_type=g.get_node(n).variable_type)
                    done.append('rename-against-time-accepted!')
            except Exception:  # noqa: BLE001
                done.append('refused-rename-against-time')
    # 6c. a node is given, through an in-place replace_node, exactly the variable type and metadata it already has
    if h // 139 % 2 and names:
        n = names[h // 149 % len(names)]
        try:
            node = g.get_node(n)
            g.replace_node(n, variable_type=node.variable_type, meta=dict(node.meta))
            done.append('in-place-reassert')
        except Exception:  # noqa: BLE001
            done.append('reassert-raised')
    # 7. a refused replace_edge that asked for ANOTHER edge type (the new pair is the reverse of an existing edge): the
    #    original edge must come back as it was
    if len(directed) >= 2 and h // 97 % 2:
        (a, b), (c, d) = directed[h // 101 % len(directed)], directed[h // 103 % len(directed)]
        if (a, b) != (c, d) and g.edge_exists(a, b) and g.edge_exists(c, d):
            try:
                g.replace_edge(a, b, d, c, edge_type=EdgeType.BIDIRECTED_EDGE)
                done.append('replace-accepted!')
            except Exception:  # noqa: BLE001
                done.append('refused-replace')
    # 7b. (time-series) a refused replace_edge whose new pair points backwards in time (refused by the edge class, not by
    #     the graph's own checks)
    if is_ts and directed and h // 109 % 2:
        import re

        def lag_of(x):
            m = re.match(r'^.*? (lag|future)\(n=(\d+)\)$', x, re.S)
            return 0 if not m else (-int(m.group(2)) if m.group(1) == 'lag' else int(m.group(2)))
        a, b = directed[h // 113 % len(directed)]
        pairs = [(x, y) for x in names for y in names if lag_of(x) > lag_of(y) and (x, y) not in joined]
        if pairs and g.edge_exists(a, b):
            x, y = pairs[h // 127 % len(pairs)]
            try:
                g.replace_edge(a, b, x, y)
                done.append('replace-against-time-accepted!')
            except Exception:  # noqa: BLE001
                done.append('refused-replace-against-time')
    # 8. (time-series) a refused edge against time between two NEW nodes, entered with validate=False
    if is_ts and h // 107 % 2:
        try:
            g.add_edge('zq late future(n=9)', 'zq early lag(n=9)', validate=False)
            done.append('against-time-accepted!')
        except Exception:  # noqa: BLE001
            done.append('refused-against-time')
    # 9. refused removals: every spelling of "remove this edge" with an edge type the edge does NOT have must raise and
    #    leave the edge where it is (the type check belongs before the first write)
    all_edges = [(e.source.identifier, e.destination.identifier, e.get_edge_type()) for e in g.get_edges()]
    if all_edges and h // 151 % 2:
        a, b, t = all_edges[h // 157 % len(all_edges)]
        wrong = [x for x in EdgeType if x != t][h // 163 % 5]
        for nm, f in (('delete_edge', lambda: g.delete_edge(a, b, edge_type=wrong)),
                      ('remove_edge', lambda: g.remove_edge(a, b, edge_type=wrong)),
                      ('remove_edge_by_pair', lambda: g.remove_edge_by_pair((a, b), edge_type=wrong))):
            try:
                f()
                done.append(f'{nm}-with-wrong-type-accepted!')
                _FAILURES.append(f'{nm}({a!r}, {b!r}, edge_type={str(wrong)!r}) did not raise although the stored edge has '
                                 f'type {str(t)!r}')
            except Exception:  # noqa: BLE001
                done.append('refused-typed-removal')
    # 10. refused bulk adders whose (only) element already exists: nothing may be added, nothing may be lost
    if all_edges and h // 167 % 2:
        a, b, t = all_edges[h // 173 % len(all_edges)]
        try:
            g.add_edges_from([(a, b)])
            done.append('bulk-duplicate-accepted!')
            _FAILURES.append(f'add_edges_from([({a!r}, {b!r})]) did not raise although the pair is already joined')
        except Exception:  # noqa: BLE001
            done.append('refused-bulk-duplicate')
        try:
            g.add_edge(a, b, edge_type=t)
            done.append('duplicate-edge-accepted!')
        except Exception:  # noqa: BLE001
            done.append('refused-duplicate-edge')
    # 11. a refused replace_edge whose NEW pair is already joined by an edge (EdgeExistsError): both edges stay
    if len(all_edges) >= 2 and h // 179 % 2:
        (a, b, _), (c, d, _) = all_edges[h // 181 % len(all_edges)], all_edges[h // 191 % len(all_edges)]
        if (a, b) != (c, d):
            try:
                g.replace_edge(a, b, c, d)
                done.append('replace-onto-existing-accepted!')
                _FAILURES.append(f'replace_edge({a!r}, {b!r}, {c!r}, {d!r}) did not raise although the new pair is already joined')
            except Exception:  # noqa: BLE001
                done.append('refused-replace-onto-existing')
    # 12b. a directed edge named by its REVERSED pair is not there: every spelling of the removal must raise and leave it
    if directed and h // 229 % 2:
        a, b = directed[h // 233 % len(directed)]
        if g.edge_exists(a, b) and not g.edge_exists(b, a):
            for nm, f in (('delete_edge', lambda: g.delete_edge(b, a)), ('remove_edge', lambda: g.remove_edge(b, a)),
                          ('remove_edge_by_pair', lambda: g.remove_edge_by_pair((b, a)))):
                try:
                    f()
                    done.append('reversed-removal-accepted!')
                    _FAILURES.append(f'{nm}({b!r}, {a!r}) did not raise although only the edge {a!r} -> {b!r} exists')
                except Exception:  # noqa: BLE001
                    done.append('refused-reversed-removal')
    # 12. refused removals / look-ups of things that are not there
    if names and h // 193 % 2:
        a = names[h // 197 % len(names)]
        for f in (lambda: g.delete_edge(a, 'zq absent'), lambda: g.delete_node('zq absent'), lambda: g.get_edge('zq absent', a),
                  lambda: g.change_edge_type('zq absent', a, EdgeType.DIRECTED_EDGE), lambda: g.replace_node('zq absent', 'zq other'),
                  lambda: g.replace_edge('zq absent', a, a, 'zq absent')):
            try:
                f()
                done.append('absent-accepted!')
            except Exception:  # noqa: BLE001
                done.append('refused-absent')
    # 13. a refused re-typing: a non-directed edge (s, d) whose orientation s -> d would close a directed cycle (d already
    #     reaches s); the call must raise and the edge must keep its type AND its metadata
    if h // 199 % 2:
        cyc = [(a, b, t) for a, b, t in all_edges if t != EdgeType.DIRECTED_EDGE and a in desc.get(b, ())]
        if cyc:
            a, b, t = cyc[h // 211 % len(cyc)]
            try:
                g.change_edge_type(a, b, EdgeType.DIRECTED_EDGE)
                done.append('cyclic-retype-accepted!')
                _FAILURES.append(f'change_edge_type({a!r}, {b!r}, ->) was accepted although {b!r} already reaches {a!r}')
            except Exception:  # noqa: BLE001
                done.append('refused-cyclic-retype')
    # 13b. the same on a ghost triangle (always possible): g1 -- g2 carrying nested metadata, g2 -> g3 -> g1; orienting the
    #      undirected edge g1 -> g2 closes a cycle and must be refused, the edge keeps type and metadata; then all three go
    if h // 227 % 2:
        gs = ['zq t1', 'zq t2', 'zq t3']
        try:
            if not any(g.node_exists(x) for x in gs):
                g.add_edge(gs[0], gs[1], edge_type=EdgeType.UNDIRECTED_EDGE, meta={'k': [1, {'m': 2}], 'w': 'x'})
                g.add_edge(gs[1], gs[2])
                g.add_edge(gs[2], gs[0])
                _warm(g)
                try:
                    g.change_edge_type(gs[0], gs[1], EdgeType.DIRECTED_EDGE)
                    _FAILURES.append('change_edge_type to -> was accepted on an edge whose orientation closes a directed cycle')
                except Exception:  # noqa: BLE001
                    pass
                try:
                    e = g.get_edge(gs[0], gs[1])
                    if e.get_edge_type() != EdgeType.UNDIRECTED_EDGE or e.meta != {'k': [1, {'m': 2}], 'w': 'x'}:
                        _FAILURES.append(f'a refused change_edge_type left the edge as {str(e.get_edge_type())!r} with metadata '
                                         f'{e.meta!r} (it was -- with metadata {{"k": [1, {{"m": 2}}], "w": "x"}})')
                except Exception as e:  # noqa: BLE001
                    _FAILURES.append(f'after a refused change_edge_type the edge is gone ({type(e).__name__})')
                for x in gs:
                    g.delete_node(x)
                done.append('ghost-triangle-refused-retype')
        except Exception as e:  # noqa: BLE001
            done.append('ghost-triangle-raised')
    # 14. (time-series) a lagged ghost is renamed to lag 0 in the keyword form (variable_name=, time_lag=0) and goes: the
    #     new node must be the lag-0 node of the new variable
    if is_ts and h // 223 % 2:
        try:
            if not any(g.node_exists(x) for x in ('zq kw lag(n=2)', 'zq kv', 'zq kv lag(n=2)')):
                g.add_node('zq kw lag(n=2)')
                g.replace_node('zq kw lag(n=2)', variable_name='zq kv', time_lag=0)
                if not g.node_exists('zq kv') or g.node_exists('zq kv lag(n=2)') or g.node_exists('zq kw lag(n=2)'):
                    _FAILURES.append("replace_node('zq kw lag(n=2)', variable_name='zq kv', time_lag=0) did not produce the "
                                     "node 'zq kv': " + repr([x for x in g.get_node_names() if x.startswith('zq k')]))
                for x in [x for x in g.get_node_names() if x.startswith('zq k')]:
                    g.delete_node(x)
                done.append('keyword-rename-to-lag-0')
        except Exception as e:  # noqa: BLE001
            done.append('keyword-rename-raised')
            _FAILURES.append(f'add / keyword rename to lag 0 / delete of a fresh floating node raised {type(e).__name__}')
    if h // 13 % 2:
        done += export_abuse(g)
    return done


def export_abuse(g):
    """take every export the graph hands out - from COLD caches, i.e. right after a mutation - and mutate the returned
    object; exports are snapshots (property C06), so none of this may change what the graph answers afterwards"""
    done = []
    for name, f in (('nx', lambda: _abuse_nx(g.to_networkx())), ('adj', lambda: _abuse_arr(g.adjacency_matrix)),
                    ('numpy', lambda: _abuse_arr(g.to_numpy()[0])), ('names', lambda: g.get_node_names().clear()),
                    ('nodes', lambda: g.get_nodes().clear()), ('edges', lambda: g.get_edges().clear()),
                    ('skadj', lambda: _abuse_arr(g.skeleton.adjacency_matrix)),
                    ('dict', lambda: [d.clear() for d in (lambda x: (x['nodes'], x['edges']))(g.to_dict())]),
                    ('vars', lambda: g.variables.clear() if hasattr(g, 'variables') and g.variables is not None else None)):
        try:
            f()
            done.append('abuse:' + name)
        except Exception:  # noqa: BLE001 - the export does not apply to this graph (mixed edge types)
            pass
    return done


def _abuse_nx(n):
    nodes = list(n.nodes)
    n.add_edge('__ghost_a', '__ghost_b')
    if len(nodes) >= 2:
        n.add_edge(nodes[-1], nodes[-2])          # (in a DiGraph: a two-cycle in the caller's copy)
        n.add_edge(nodes[-2], nodes[-1])
    if nodes:
        n.remove_node(nodes[0])


def _abuse_arr(a):
    if a.size:
        a[:] = 1 - a


def node_forms(g, name):
    """the ways a caller can name a node: identifier, the graph's own node, a fresh equal node, the node of a copy"""
    from cai_causal_graph.graph_components import Node, TimeSeriesNode
    forms = [('id', name)]
    try:
        forms.append(('own', g.get_node(name)))
        cls = type(g.get_node(name))
        forms.append(('fresh', cls(name)))
        forms.append(('copy', g.copy().get_node(name)))
    except Exception:  # noqa: BLE001
        pass
    return forms


def nodeform_agree(g, names, fns, key=None):
    """each fn(x, y) must answer the same whether x, y are identifiers, the graph's own Nodes, fresh equal Nodes or
    Nodes of a copy of the graph; checked on one deterministic pair per graph.  Returns failure strings."""
    import hashlib
    if len(names) < 2:
        return []
    h = int(hashlib.sha1(repr(key if key is not None else names).encode()).hexdigest(), 16)
    a = names[h % len(names)]
    b = names[(h // 5 + 1 + h % len(names)) % len(names)] if len(names) > 1 else a
    if a == b:
        b = names[(names.index(a) + 1) % len(names)]

    def canon(x):
        if isinstance(x, (set, list, tuple)):
            try:
                return sorted(getattr(e, 'identifier', e) for e in x)
            except TypeError:
                return repr(x)
        return x
    fa, fb = node_forms(g, a), dict(node_forms(g, b))
    fails = []
    for label, f in fns:
        try:
            base = canon(f(a, b))
        except Exception as e:  # noqa: BLE001
            base = '!' + type(e).__name__
        for form, xa in fa[1:]:
            xb = fb.get(form, b)
            try:
                got = canon(f(xa, xb))
            except Exception as e:  # noqa: BLE001
                got = '!' + type(e).__name__
            if got != base:
                fails.append(f'{label}: naming the nodes by {form} Node objects gives {got!r}, by identifier {base!r} '
                             f'(nodes {a!r}, {b!r})')
                break
    return fails[:2]


def query_noise(g, key):
    """read-only queries in a deterministic pattern (existence checks on absent pairs, per-node edge queries on isolated
    nodes, neighbours, inputs/outputs, cached readers): none of them may change what the graph is or answers"""
    import hashlib
    h = int(hashlib.sha1(repr(key).encode()).hexdigest(), 16)
    if h % 3 == 0:
        return
    names = g.get_node_names() + ['__absent']
    for a in names:
        for f in (lambda: g.get_edges(source=a), lambda: g.get_edges(destination=a), lambda: g.get_neighbors(a),
                  lambda: g.get_parents(a), lambda: g.get_children(a), lambda: g.node_exists(a)):
            try:
                f()
            except Exception:  # noqa: BLE001
                pass
        for b in names:
            for f in (lambda: g.edge_exists(a, b), lambda: g.get_edges(a, b), lambda: g.skeleton.edge_exists(a, b)):
                try:
                    f()
                except Exception:  # noqa: BLE001
                    pass
    # structural queries (read-only, some memoise or walk the per-node edge lists): ancestors / descendants and their
    # sub-graphs, paths, d-separation, the identification helpers
    real = names[:-1]
    if h % 3 == 1 and len(real) <= 9:
        from cai_causal_graph import identify_utils as _iu
        picks = [real[(h // 7 + 2 * k) % len(real)] for k in range(min(3, len(real)))]
        for a in picks:
            for f in (lambda: g.get_ancestors(a), lambda: g.get_descendants(a), lambda: g.get_ancestral_graph(a),
                      lambda: g.get_descendant_graph(a), lambda: g.get_parents_graph(a), lambda: g.get_children_graph(a),
                      lambda: _iu.identify_markov_boundary(g, a)):
                try:
                    f()
                except Exception:  # noqa: BLE001
                    pass
        for i, a in enumerate(picks):
            for b in picks[i + 1:]:
                for f in (lambda: g.directed_path_exists(a, b), lambda: g.directed_path_exists(b, a),
                          lambda: g.get_all_causal_paths(a, b), lambda: g.get_nodes_between(a, b),
                          lambda: g.is_ancestor(a, b), lambda: g.get_common_ancestors(a, b),
                          lambda: g.get_common_descendants(a, b), lambda: g.is_d_separated(a, b, set()),
                          lambda: _iu.identify_confounders(g, a, b), lambda: _iu.identify_instruments(g, a, b),
                          lambda: _iu.identify_mediators(g, a, b)):
                    try:
                        f()
                    except Exception:  # noqa: BLE001
                        pass
        for f in (g.get_topological_order, lambda: _iu.identify_colliders(g)):
            try:
                f()
            except Exception:  # noqa: BLE001
                pass
    for f in (g.get_inputs, g.get_outputs, g.is_dag, g.to_networkx, lambda: g.adjacency_matrix, lambda: g.identifier,
              g.to_dict, lambda: hash(g), lambda: repr(g), g.get_edge_pairs,
              lambda: g.get_nodes_at_lag(-9) if hasattr(g, 'get_nodes_at_lag') else None,
              lambda: g.get_nodes_for_variable_name('__absent') if hasattr(g, 'get_nodes_for_variable_name') else None):
        try:
            f()
        except Exception:  # noqa: BLE001
            pass
