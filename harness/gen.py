"""Shared generators: labelled DAGs, mixed graphs, builders for real CausalGraph objects."""
from __future__ import annotations

import itertools

NAMES = ['a', 'b', 'c', 'd', 'e', 'f', 'g', 'h', 'i']
EDGE_TYPES = ['->', '--', '<>', 'oo', 'o>', 'o-']


def is_acyclic(n, edges):
    """edges: iterable of (i, j) over range(n)."""
    indeg = [0] * n
    out = [[] for _ in range(n)]
    for i, j in edges:
        out[i].append(j)
        indeg[j] += 1
    todo = [i for i in range(n) if indeg[i] == 0]
    seen = 0
    while todo:
        x = todo.pop()
        seen += 1
        for y in out[x]:
            indeg[y] -= 1
            if indeg[y] == 0:
                todo.append(y)
    return seen == n


def all_labelled_dags(n):
    """Every labelled DAG on exactly n nodes 0..n-1, as a sorted tuple of (i, j) edges.
    Counts: n=0:1, 1:1, 2:3, 3:25, 4:543, 5:29281."""
    pairs = [(i, j) for i in range(n) for j in range(i + 1, n)]
    # each unordered pair: none, i->j, j->i
    for choice in itertools.product((0, 1, 2), repeat=len(pairs)):
        edges = []
        for (i, j), c in zip(pairs, choice):
            if c == 1:
                edges.append((i, j))
            elif c == 2:
                edges.append((j, i))
        if is_acyclic(n, edges):
            yield tuple(edges)


def upper_triangular_dags(n):
    """One representative per topological shape: all sub-sets of the strict upper triangle."""
    pairs = [(i, j) for i in range(n) for j in range(i + 1, n)]
    for mask in range(1 << len(pairs)):
        yield tuple(p for k, p in enumerate(pairs) if mask >> k & 1)


def random_dag(rng, n, p=0.4, names=None):
    """Random labelled DAG: random permutation as the order, each forward pair with probability p."""
    order = list(range(n))
    rng.shuffle(order)
    edges = []
    for a in range(n):
        for b in range(a + 1, n):
            if rng.random() < p:
                edges.append((order[a], order[b]))
    rng.shuffle(edges)
    return tuple(edges)


def named(edges, names=NAMES):
    return [(names[i], names[j]) for i, j in edges]


def build_dag(n, edges, names=NAMES, cls=None, order=None):
    """Real CausalGraph with nodes names[:n] and directed edges."""
    from cai_causal_graph import CausalGraph
    g = (cls or CausalGraph)()
    nodes = list(names[:n])
    if order is not None:
        nodes = [nodes[i] for i in order]
    for x in nodes:
        g.add_node(x)
    for i, j in edges:
        g.add_edge(names[i], names[j])
    return g


def build_mixed(nodes, typed_edges, cls=None, validate=True):
    """typed_edges: list of (src, dst, type_text)."""
    from cai_causal_graph import CausalGraph
    from cai_causal_graph.type_definitions import EdgeType
    g = (cls or CausalGraph)()
    for x in nodes:
        g.add_node(x)
    for s, d, t in typed_edges:
        g.add_edge(s, d, edge_type=EdgeType(t), validate=validate)
    return g


def all_mixed_graphs(n, types=EDGE_TYPES, both_orientations=True):
    """Every mixed graph on n labelled nodes: per unordered pair none or (orientation, type)."""
    pairs = [(i, j) for i in range(n) for j in range(i + 1, n)]
    opts = [None]
    for t in types:
        opts.append((0, t))
        if both_orientations:
            opts.append((1, t))
    for choice in itertools.product(opts, repeat=len(pairs)):
        edges = []
        for (i, j), c in zip(pairs, choice):
            if c is None:
                continue
            o, t = c
            edges.append((i, j, t) if o == 0 else (j, i, t))
        yield tuple(edges)


def brute_descendants(nodes, edges):
    """dict node -> set of strict descendants, by closure iteration (no networkx)."""
    succ = {x: set() for x in nodes}
    for a, b in edges:
        succ[a].add(b)
    desc = {x: set(succ[x]) for x in nodes}
    changed = True
    while changed:
        changed = False
        for x in nodes:
            new = set()
            for y in desc[x]:
                new |= succ[y]
            if not new <= desc[x]:
                desc[x] |= new
                changed = True
    return desc
