"""
Shared layer of the lanes C14–C17 (time-series derived graphs): input generator, construction of the REAL graph,
protocol lines for the `ts` handler (lean/CG/Driver/HTs.lean), and the Spec of the four properties in plain Python over
`graph.get_edges()` / `graph.get_nodes()` only (templates, Unroll exactly as DESIGN.md C15 defines it, Stationary, the
summary spec).  The oracles never look at the Lean model and never call the function under test to compute an
expectation.

A case is JSON: {'kind': str, 'gmeta': dict, 'ops': [op, ...], ...lane specific keys...}; the ops are those of
harness/impl.py (`add_node`, `add_edge`) and are applied in order; an op the implementation rejects is skipped (the
graph is whatever the accepted ops built).
"""
from __future__ import annotations

import hashlib
import re

from harness import impl
from harness.core import hx, hxlist

EDGE_TYPES = ['->', '--', '<>', 'oo', 'o>', 'o-']
SYM = ('--', '<>', 'oo')
VTYPES = ['unspecified', 'continuous', 'binary', 'multiclass', 'ordinal']
VAR_POOL = ['X', 'Y', 'Z', 'W', 'x1', 'é', 'lag', 'a\nb', 'Q\n']
SPACE_VARS = ['my var', 'V 2', ' lead', 'a  b']
NODE_METAS = [{}, {}, {'k': 1}, {'color': 'red', 'w': [1, 2]}, {'a': {'b': [1, {'c': None}]}}, {'é': 'ü'},
              {'zz': True, 'aa': 'q"\\\n'}]
GRAPH_METAS = [None, None, {'name': 'g'}, {'k': [1, {'z': 2}], 'a': None}]
_MARKER = re.compile(r'(?:lag|future)\(n=\d+\)')


def fmt(v: str, k: int) -> str:
    """the canonical identifier of (variable, lag), written out (NOT via the repository's helper)"""
    if k == 0:
        return v
    return f'{v} future(n={k})' if k > 0 else f'{v} lag(n={-k})'


# ----------------------------------------------------------------------------------------------------------------
# generator
# ----------------------------------------------------------------------------------------------------------------

def pick_vars(rng, lo=1, hi=4):
    n = rng.randint(lo, hi)
    pool = list(VAR_POOL)
    rng.shuffle(pool)
    # plain letters most of the time
    base = ['X', 'Y', 'Z', 'W']
    vs = base[:n] if rng.random() < 0.5 else pool[:n]
    if rng.random() < 0.5:
        vs[rng.randrange(n)] = rng.choice(SPACE_VARS)      # a name with a space
    if n >= 2 and rng.random() < 0.2:
        # one variable's name is another's plus a word: their node names interleave in sorted order
        # ('X' < 'X a' < 'X a lag(n=1)' < 'X lag(n=1)')
        i, j = rng.sample(range(n), 2)
        vs[j] = vs[i] + rng.choice([' a', ' index', ' 2'])
    if n >= 4 and rng.random() < 0.35:
        # four names whose pairs collide when joined with a separator: (a, b+sep+c) and (a+sep+b, c) spell the same text
        # (keys like f'{u}_{v}', f'{u} {v}', f'{u}->{v}' are the classic way to lose one of two pairs)
        sep = rng.choice(['_', ' ', '-', ',', '->', '|', ':', '.', '__', ', '])
        a, b, c = rng.sample(['t', 'u', 'v', 'x', 'y', 'temp', 'out', 'flow', '1', 'k2'], 3)
        vs = [a, b + sep + c, a + sep + b, c] + vs[4:]
    out = []
    for v in vs:
        if v not in out:
            out.append(v)
    rng.shuffle(out)
    return out


def pick_delta(rng, max_delta=3):
    return min(max_delta, rng.choice([0, 0, 0, 1, 1, 1, 1, 2, 2, 3]))


def gen_templates(rng, vars_, dag_only=False, acyclic0=True, max_delta=3, n=None):
    """a CONSISTENT template set: {(s, d, delta): (type, meta)}; at most one template per unordered pair at delta 0 (and
    none from a variable to itself), at most one per (ordered pair, delta) otherwise"""
    order = list(vars_)
    rng.shuffle(order)
    T = {}
    used0 = set()
    n = rng.randint(0, 5) if n is None else n
    for _ in range(n * 3):
        if len(T) >= n:
            break
        s, d = rng.choice(vars_), rng.choice(vars_)
        delta = pick_delta(rng, max_delta)
        if delta == 0:
            if s == d or frozenset((s, d)) in used0:
                continue
            if acyclic0 and order.index(s) > order.index(d):
                s, d = d, s
            used0.add(frozenset((s, d)))
        if (s, d, delta) in T:
            continue
        ty = '->' if (dag_only or rng.random() < 0.7) else rng.choice(EDGE_TYPES[:1] + EDGE_TYPES[2:])
        meta = rng.choice([{}, {'m': [s, d, delta]}, {'m': [s, d, delta], 'w': {'n': [1, None]}}])
        T[(s, d, delta)] = (ty, meta)
    return T


def var_info(rng, vars_):
    return {v: (rng.choice(VTYPES), dict(rng.choice(NODE_METAS), **({'u': v} if rng.random() < 0.6 else {})))
            for v in vars_}


def instances(rng, T, lo, hi, complete=False):
    """[(s, slag, d, dlag, type, meta)]: each template at 1 … all destination positions of the window [lo, hi]"""
    out = []
    for (s, d, delta), (ty, meta) in T.items():
        pos = list(range(lo + delta, hi + 1)) or [hi]
        k = len(pos) if complete else rng.randint(1, len(pos))
        for x in rng.sample(pos, k):
            out.append((s, x - delta, d, x, ty, meta))
    return out


def build_ops(rng, insts, vinfo, floating=(), explicit_nodes=True, validate=True, per_node_attrs=False,
              per_inst_meta=False):
    """shuffled construction sequence.  Nodes are created explicitly (with the attributes of their variable) either
    all up front or just before their first edge; floating nodes are sprinkled in."""
    insts = list(insts)
    rng.shuffle(insts)
    ops = []
    seen = set()

    def node_op(v, lag):
        key = (v, lag)
        if key in seen:
            return None
        seen.add(key)
        if per_node_attrs:
            vt, md = rng.choice(VTYPES), dict(rng.choice(NODE_METAS))
        else:
            vt, md = vinfo[v][0], dict(vinfo[v][1])
        return ['add_node', fmt(v, lag), vt, md]

    upfront = rng.random() < 0.4
    if explicit_nodes and upfront:
        allnodes = [(s, sl) for s, sl, _, _, _, _ in insts] + [(d, dl) for _, _, d, dl, _, _ in insts] + list(floating)
        rng.shuffle(allnodes)
        for v, lag in allnodes:
            o = node_op(v, lag)
            if o:
                ops.append(o)
    for s, sl, d, dl, ty, meta in insts:
        if explicit_nodes:
            for v, lag in ((s, sl), (d, dl)) if rng.random() < 0.5 else ((d, dl), (s, sl)):
                o = node_op(v, lag)
                if o:
                    ops.append(o)
        a, b = fmt(s, sl), fmt(d, dl)
        if ty != '->' and sl != dl and rng.random() < 0.5:
            a, b = b, a                                  # the edge class stores a non-directed edge earlier node first
        md = dict(meta)
        if per_inst_meta:
            md = dict(rng.choice([{}, {'i': rng.randint(0, 9)}, meta]))
        ops.append(['add_edge', a, b, ty, md, validate])
    single = {v for v, _ in floating if sum(1 for w, _ in floating if w == v) == 1
              and not any(v in (s, d) for s, _, d, _, _, _ in insts)}
    for v, lag in floating:
        o = node_op(v, lag)
        if o:
            if rng.random() < 0.3:
                o = ['add_node_obj', o[1], o[2], o[3]]          # the node arrives as a Node object
            at = rng.randint(0, len(ops))
            ops.insert(at, o)
            if v in single and rng.random() < 0.3:
                # ... and its attributes are changed later, in place (the variable has this one node)
                vt2, md2 = rng.choice(VTYPES), dict(rng.choice(NODE_METAS), late=v)
                ops.insert(rng.randint(at + 1, len(ops)), ['replace_node', o[1], None, None, None, vt2, md2])
    return ops


def gen_floating(rng, vars_, lo, hi, vinfo, p=0.35, extra=True):
    fl = []
    for v in vars_:
        if rng.random() < p:
            fl.append((v, rng.randint(lo - 1, hi + 1)))
    if extra and rng.random() < 0.35:
        v = rng.choice(['F', 'float v'])
        if v not in vinfo:
            vinfo[v] = (rng.choice(VTYPES), dict(rng.choice(NODE_METAS)))
            k = rng.choice([-3, -2, -1, 1, 2, 0])
            fl.append((v, k))
            if rng.random() < 0.4:
                fl.append((v, k - 1))
    return fl


def gen_consistent(rng, end0=False, dag_only=False, complete=None, acyclic0=True, max_vars=4):
    """a template-consistent, canonically named input (the domain of C14–C16)"""
    vars_ = pick_vars(rng, 1, max_vars)
    vinfo = var_info(rng, vars_)
    T = gen_templates(rng, vars_, dag_only=dag_only, acyclic0=acyclic0)
    lo = -rng.randint(0, 3)
    hi = 0 if end0 else rng.choice([0, 0, 1, 2])
    if complete is None:
        complete = rng.random() < 0.3
    insts = instances(rng, T, lo, hi, complete=complete)
    floating = gen_floating(rng, vars_, lo, hi, vinfo)
    if end0:
        floating = [(v, min(l, 0)) for v, l in floating]
    mode = rng.random()
    per_node = mode < 0.12
    implicit = 0.12 <= mode < 0.2
    ops = build_ops(rng, insts, vinfo, floating, explicit_nodes=not implicit, per_node_attrs=per_node,
                    per_inst_meta=rng.random() < 0.1)
    return {'kind': 'consistent', 'gmeta': rng.choice(GRAPH_METAS), 'ops': ops}


NONCANON = [lambda v, k: f'{v} lag(n=0)' if k == 0 else f'{v} lag(n=0{-k})' if k < 0 else f'{v} future(n=0{k})',
            lambda v, k: fmt(v, k) + '\n' if k != 0 else v,
            lambda v, k: (f'{v} lag(n={_arabic(-k)})' if k < 0 else f'{v} future(n={_arabic(k)})') if k else f'{v} future(n=0)']


def _arabic(n):
    return ''.join(chr(0x660 + int(c)) for c in str(n))


def gen_inconsistent(rng, end0=False):
    """inputs outside the domain of the theorems: only correspondence (including the raised error class) is checked"""
    base = gen_consistent(rng, end0=end0, max_vars=3)
    ops = base['ops']
    kind = rng.choice(['two-types', 'reverse0', 'flip0', 'noncanon', 'noncanon', 'oddvar', 'samepair', 'future-only'])
    vars_ = ['X', 'Y', 'Z']
    a, b = rng.sample(vars_, 2)
    val = True
    if kind == 'two-types':
        d = rng.randint(0, 2)
        t1, t2 = rng.sample(EDGE_TYPES, 2)
        extra = [['add_edge', fmt(a, -d), fmt(b, 0), t1, {'i': 1}, val], ['add_edge', fmt(a, -d - 1), fmt(b, -1), t2, {'i': 2}, val]]
    elif kind == 'reverse0':
        k = rng.randint(1, 2)
        t = rng.choice(['->', '->', 'o>', '--'])
        extra = [['add_edge', fmt(a, -k), fmt(b, -k), t, {}, val], ['add_edge', b, a, rng.choice(['->', t]), {}, val]]
    elif kind == 'flip0':
        t = rng.choice(['--', '<>', 'oo', 'o-', 'o>'])
        extra = [['add_edge', a, b, t, {}, val], ['add_edge', fmt(b, -1), fmt(a, -1), t, {}, val]]
    elif kind == 'noncanon':
        f = rng.choice(NONCANON)
        k1, k2 = rng.randint(-2, 1), rng.randint(-2, 1)
        lo_, hi_ = min(k1, k2), max(k1, k2)
        extra = [['add_edge', f(a, lo_), f(b, hi_), rng.choice(['->', '->', '--']), {}, val],
                 ['add_node', f(rng.choice(vars_), rng.randint(-2, 2)), rng.choice(VTYPES), {}]]
        if rng.random() < 0.4:
            extra.append(['add_edge', a, f(a, 0), '->', {}, val])           # same (variable, lag), two identifiers
    elif kind == 'oddvar':
        odd = rng.choice(['a lag(n=1)x', 'lag(n=2)', 'q future(n=1) z', 'a lag(n=1)\n\n'])
        other = fmt(b, rng.choice([0, 1, 1, -1]))
        extra = [['add_edge', odd, other, '->', {}, val]] if rng.random() < 0.7 else [['add_edge', other, odd, '->', {}, val]]
        if rng.random() < 0.5:
            extra.append(['add_node', 'solo lag(n=1)y', 'binary', {'k': 1}])
    elif kind == 'samepair':
        # one variable pair, several differences and both orientations: consistent by the definition, but dense
        extra = [['add_edge', fmt(a, -1), b, '->', {}, val], ['add_edge', fmt(b, -1), a, '->', {}, val],
                 ['add_edge', fmt(a, -2), fmt(a, -1), '->', {}, val], ['add_edge', fmt(b, -2), fmt(a, 0), '--', {}, val]]
    else:   # future-only / past-only graphs: latest lag != 0
        sign = rng.choice([1, -1])

        def lg(k):
            return k + 1 if sign > 0 else k - 3          # k in 0..2  ->  1..3  or  -3..-1

        ops = []
        extra = [['add_edge', fmt(a, lg(0)), fmt(b, lg(1)), '->', {}, val]]
        if rng.random() < 0.6:
            extra.append(['add_edge', fmt(b, lg(1)), fmt(a, lg(1)), '->', {}, val])
        if rng.random() < 0.5:
            extra.append(['add_node', fmt(rng.choice(vars_), lg(2)), 'binary', {}])
    ops = list(ops)
    for e in extra:
        ops.insert(rng.randint(0, len(ops)), e)
    return {'kind': 'inc-' + kind, 'gmeta': base['gmeta'], 'ops': ops}


# ----------------------------------------------------------------------------------------------------------------
# the real graph
# ----------------------------------------------------------------------------------------------------------------

def build(case):
    g = impl.new_graph('ts', case.get('gmeta') or None)
    rejected = 0
    hk = int(hashlib.sha1(repr(case['ops'])[:2000].encode()).hexdigest(), 16)
    for i, op in enumerate(case['ops']):
        if (hk >> (i % 60)) & 3 == 0:
            probe_before_create(g, op)
        if (hk >> ((i + 7) % 60)) & 7 == 0 and op[0] in ('add_node', 'add_node_obj') and isinstance(op[1], str):
            # a refused edge against time between two nodes of the variable this call is about to create: both end points
            # are created and must be rolled back, in every index
            v = own_parse(op[1])[0]
            try:
                g.add_edge(fmt(v, 7), fmt(v, -7), validate=bool((hk >> i) & 1))
            except Exception:  # noqa: BLE001
                pass
        if impl.apply_op(g, op) != 'ok':
            rejected += 1
    # state-preserving interactions (see harness/gen.py): rejected edges, partially failing bulk adders, detours through
    # a mixed state, abused exports, look-ups of absent things - the derived graphs must not notice any of them
    from harness import gen as _gen
    key = ('ts', repr(case['ops'])[:2000])
    inplace_touch(g, key)
    if all(len(op) < 6 or op[5] for op in case['ops'] if op[0] == 'add_edge'):      # validated builds only
        _gen.stress(g, key)
        g = _gen.reroute(g, key)[0]
    _gen.query_noise(g, key)
    return g, rejected


def probe_before_create(g, op):
    """read-only look-ups that mention what the next call is about to create (its node names, its variable, its lag),
    with the memoised answers taken right after: asking about something absent must not change what happens once it exists"""
    names = [x if isinstance(x, str) else x.get('id') for x in op[1:3] if isinstance(x, (str, dict))]
    for nm in names:
        if not isinstance(nm, str):
            continue
        v, k = own_parse(nm)
        for f in (lambda: g.get_nodes_for_variable_name(v), lambda: g.get_nodes_at_lag(k), lambda: g.node_exists(nm),
                  lambda: g.get_edges(source=nm), lambda: g.get_edges(destination=nm),
                  lambda: g.edge_exists(nm, names[0]), lambda: g.edge_exists(names[-1], nm), lambda: g.variables,
                  g.is_minimal_graph, g.is_dag, lambda: g.get_contemporaneous_nodes(nm)):
            try:
                f()
            except Exception:  # noqa: BLE001
                pass


def inplace_touch(g, key):
    """deterministic in `key`: one or two nodes get, through an in-place `replace_node`, exactly the variable type and
    user metadata they already have -- handed in as a dictionary whose reserved entries (`time_lag`, `variable_name`) were
    copied from ANOTHER node, as happens when a caller clones a sibling's metadata.  The node keeps its own variable and
    lag (they follow the identifier), so on the unchanged code this is the identity."""
    h = int(hashlib.sha1(repr(('touch', key)).encode()).hexdigest(), 16)
    if h % 3:
        return
    try:
        nodes = g.get_nodes()
        if len(nodes) < 2:
            return
        for k in range(1 + h // 3 % 2):
            n = nodes[(h // 5 + k) % len(nodes)]
            other = nodes[(h // 7 + 3 * k + 1) % len(nodes)]
            if other.identifier == n.identifier:
                other = nodes[(h // 7 + 3 * k + 2) % len(nodes)]
            meta = dict(n.meta)
            meta['time_lag'] = other.meta.get('time_lag')
            meta['variable_name'] = other.meta.get('variable_name')
            g.replace_node(n.identifier, variable_type=n.variable_type, meta=meta)
    except Exception:  # noqa: BLE001 - a broken implementation shows in what the lanes observe afterwards
        pass


def index_order(g):
    """node identifiers in the order of the implementation's variable index (the model's extra input)"""
    out = []
    for v in (g.variables or []):
        out.extend(n.identifier for n in g.get_nodes_for_variable_name(v))
    return out


def reply_graph(f):
    try:
        r = f()
        if not getattr(reply_graph, 'no_vandal', False):
            # derived graphs are snapshots: vandalise the first result, ask again, and observe the SECOND answer
            try:
                vandalise(r)
            except Exception:  # noqa: BLE001
                pass
            r = f()
        shared = shared_cells(r)
        if shared:
            from harness import gen as _gen
            _gen._FAILURES.append(f'a derived graph ({getattr(f, "__name__", "call")}) came back with two of its parts sharing a '
                                  f'metadata container: {shared}')
    except RecursionError:
        raise
    except Exception as e:  # noqa: BLE001 - the class of ANY exception is the observation
        return None, 'err ' + type(e).__name__
    return r, 'ok ' + impl.enc_graph(r)


def shared_cells(x):
    """distinct nodes and edges of a derived graph never share a metadata container (top-level or nested): the first pair of
    parts that do, or None"""
    def containers(o, acc):
        if isinstance(o, (dict, list)):
            if id(o) in acc:
                return
            acc[id(o)] = o
            for v in (o.values() if isinstance(o, dict) else o):
                containers(v, acc)
    try:
        owner = {}
        cells = [('graph metadata', x.meta)] + [('node ' + repr(n.identifier), n.meta) for n in x.get_nodes()] + \
                [('edge ' + repr(e.get_edge_pair()), e.meta) for e in x.get_edges()]
        for name, m in cells:
            acc = {}
            containers(m, acc)
            for i in acc:
                if i in owner and owner[i] != name:
                    return f'{owner[i]} and {name}'
                owner[i] = name
    except Exception:  # noqa: BLE001
        return None
    return None


def vandalise(x):
    """edit a derived graph in every way a caller could: drop a node and an edge, add junk, touch metadata"""
    es = x.get_edges()
    if es:
        e = es[0]
        e.meta['__vandal'] = 1
        x.delete_edge(e.source.identifier, e.destination.identifier)
    ns = x.get_nodes()
    if ns:
        ns[-1].meta['__vandal'] = [1]
        if len(ns) > 1:
            x.delete_node(ns[0].identifier)
    x.add_node('__vandal')
    x.meta['__vandal'] = True


def reply_bool(f):
    try:
        r = f()
    except RecursionError:
        raise
    except Exception as e:  # noqa: BLE001
        return None, 'err ' + type(e).__name__
    return r, '1' if r else '0'


def optint(x):
    return '~' if x is None else str(x)


# ----------------------------------------------------------------------------------------------------------------
# Spec layer in plain Python (pairs = (variable, lag))
# ----------------------------------------------------------------------------------------------------------------

def pair_nodes(g):
    return {(n.variable_name, n.time_lag) for n in g.get_nodes()}


def pair_edges(g):
    return {((e.source.variable_name, e.source.time_lag), (e.destination.variable_name, e.destination.time_lag)):
            impl.ety(e) for e in g.get_edges()}


def shape(g):
    return pair_nodes(g), pair_edges(g)


def variables_of(g):
    return sorted({n.variable_name for n in g.get_nodes()})


def canonical_names(g):
    """every identifier is fmt(v, k) for a non-empty marker-free v, and the node reports (v, k)"""
    for n in g.get_nodes():
        v, k = n.variable_name, n.time_lag
        if not v or _MARKER.search(v) or n.identifier != fmt(v, k):
            return False
    return True


def templates(g):
    """{(s, d, delta): set of types}"""
    T = {}
    for (a, b), ty in pair_edges(g).items():
        T.setdefault((a[0], b[0], b[1] - a[1]), set()).add(ty)
    return T


def template_consistent(g):
    T = templates(g)
    for (s, d, delta), tys in T.items():
        if len(tys) != 1 or delta < 0:
            return False
        if delta == 0 and (s == d or (d, s, 0) in T):
            return False
    return True


def var_consistent(g):
    """all nodes of a variable carry the same variable type and user metadata; all instances of a template the same
    edge metadata.  Returns (ok, {var: (vtype, meta)}, {(s, d, delta): meta})."""
    va, ta = {}, {}
    ok = True
    for n in g.get_nodes():
        a = (n.variable_type.value, impl.cj({k: v for k, v in n.meta.items() if k not in impl.TS_KEYS}))
        if va.setdefault(n.variable_name, a) != a:
            ok = False
    for e in g.get_edges():
        k = (e.source.variable_name, e.destination.variable_name, e.destination.time_lag - e.source.time_lag)
        if ta.setdefault(k, impl.cj(e.meta)) != impl.cj(e.meta):
            ok = False
    return ok, va, ta


def spec_minimal(g):
    """C14 Spec: one edge per template with destination at lag 0, every variable kept (once at lag 0 when it has no
    template endpoint), nothing else"""
    T = templates(g)
    nodes, edges = set(), {}
    for (s, d, delta), tys in T.items():
        nodes.add((s, -delta))
        nodes.add((d, 0))
        edges[((s, -delta), (d, 0))] = next(iter(tys))
    have = {v for v, _ in nodes}
    for v in variables_of(g):
        if v not in have:
            nodes.add((v, 0))
    return nodes, edges


def spec_unroll(g, b, f, iap):
    """C15 Spec `Unroll` exactly as DESIGN.md defines it"""
    nodes, edges = spec_minimal(g)
    nodes, edges = set(nodes), dict(edges)
    if not nodes:
        return nodes, edges
    T = templates(g)
    vars_ = {v for v, _ in nodes}
    window = set()
    if b is not None:
        window |= set(range(-b, 1))
    if f is not None:
        window |= set(range(0, f + 1))
    for v in vars_:
        for l in window:
            nodes.add((v, l))
    ends = set()
    if b is not None:
        ends |= set(range(-b, 0))
    if f is not None:
        ends |= set(range(1, f + 1))
    for (s, d, delta), tys in T.items():
        for t in ends:
            if (not iap) and t < 0 and t - delta < -b:
                continue
            nodes.add((s, t - delta))
            nodes.add((d, t))
            edges[((s, t - delta), (d, t))] = next(iter(tys))
    return nodes, edges


def spec_stationary_of(g):
    """C16: the least stationary super-graph over the lag range of g: every variable at every lag, every template copy
    that fits"""
    lags = [n.time_lag for n in g.get_nodes()]
    lo, hi = min(lags), max(lags)
    nodes = {(v, l) for v in variables_of(g) for l in range(lo, hi + 1)}
    edges = {}
    for (s, d, delta), tys in templates(g).items():
        for t in range(lo, hi + 1):
            if t - delta >= lo:
                edges[((s, t - delta), (d, t))] = next(iter(tys))
    return nodes, edges


def is_stationary_shape(nodes, edges):
    """C16 `Stationary` (semantic; no acyclicity in it) on a pair-level shape"""
    if not nodes:
        return True
    lags = [l for _, l in nodes]
    lo, hi = min(lags), max(lags)
    vars_ = {v for v, _ in nodes}
    if any((v, l) not in nodes for v in vars_ for l in range(lo, hi + 1)):
        return False
    for ((s, sl), (d, dl)), ty in edges.items():
        delta = dl - sl
        for t in range(lo + delta, hi + 1):
            if edges.get(((s, t - delta), (d, t))) != ty:
                return False
    return True


def directed_acyclic(nodes, dir_edges):
    """no directed cycle (Kahn; brute force, no networkx)"""
    indeg = {n: 0 for n in nodes}
    out = {n: [] for n in nodes}
    for a, b in dir_edges:
        out[a].append(b)
        indeg[b] += 1
    todo = [n for n in nodes if indeg[n] == 0]
    seen = 0
    while todo:
        x = todo.pop()
        seen += 1
        for y in out[x]:
            indeg[y] -= 1
            if indeg[y] == 0:
                todo.append(y)
    return seen == len(nodes)


def is_dag_spec(g):
    es = [(e.source.identifier, e.destination.identifier, impl.ety(e)) for e in g.get_edges()]
    if any(t != '->' for _, _, t in es):
        return False
    return directed_acyclic([n.identifier for n in g.get_nodes()], [(a, b) for a, b, _ in es])


def graphs_equal_spec(g, h):
    """shallow graph equality as C07 characterises it, over identifiers"""
    if {n.identifier for n in g.get_nodes()} != {n.identifier for n in h.get_nodes()}:
        return False

    def norm(x):
        out = {}
        for e in x.get_edges():
            a, b, t = e.source.identifier, e.destination.identifier, impl.ety(e)
            out[frozenset((a, b))] = (t, None if t in SYM else (a, b))
        return out
    return norm(g) == norm(h)


def names_canonical_failures(what, x):
    bad = []
    for n in x.get_nodes():
        if n.identifier != fmt(n.variable_name, n.time_lag):
            bad.append(f'{what}: node {n.identifier!r} reports ({n.variable_name!r}, {n.time_lag})')
            break
    return bad


def attr_failures(what, x, va, ta):
    """every node / edge of x carries the variable type and user metadata of its variable / template"""
    bad = []
    for n in x.get_nodes():
        a = (n.variable_type.value, impl.cj({k: v for k, v in n.meta.items() if k not in impl.TS_KEYS}))
        if n.variable_name in va and va[n.variable_name] != a:
            bad.append(f'{what}: attributes of node {n.identifier!r} are {a}, its variable has {va[n.variable_name]}')
            break
    for e in x.get_edges():
        k = (e.source.variable_name, e.destination.variable_name, e.destination.time_lag - e.source.time_lag)
        if k in ta and ta[k] != impl.cj(e.meta):
            bad.append(f'{what}: metadata of edge {e.source.identifier!r}->{e.destination.identifier!r} is '
                       f'{impl.cj(e.meta)}, its template has {ta[k]}')
            break
    return bad


def shape_diff(what, got, want):
    gn, ge = got
    wn, we = want
    if gn == wn and ge == we:
        return []
    return [f'{what}: extra nodes {sorted(gn - wn)[:4]} missing nodes {sorted(wn - gn)[:4]} '
            f'extra edges {sorted(set(ge.items()) - set(we.items()))[:3]} '
            f'missing edges {sorted(set(we.items()) - set(ge.items()))[:3]}']


_OWN = re.compile(r'^(.*) (lag|future)\(n=(\d+)\)$', re.S)


def own_parse(name):
    """(variable, lag) as the identifier spells it -- the lane's own reading, for canonical names only"""
    m = _OWN.match(name)
    if not m:
        return name, 0
    return m.group(1), (-1 if m.group(2) == 'lag' else 1) * int(m.group(3))


def coherence_failures(g):
    """a node whose identifier is canonical (identifier == fmt(v, k) for a marker-free v, by the lane's own reading)
    must report exactly that variable and lag: every construction sequence the lanes use leaves it so on the unchanged
    code, and an input whose nodes misreport themselves would otherwise be waved through as 'out of domain'"""
    try:
        for n in g.get_nodes():
            v, k = own_parse(n.identifier)
            if v and not _MARKER.search(v) and fmt(v, k) == n.identifier:
                if (n.variable_name, n.time_lag) != (v, k):
                    return [f'coherence: after construction node {n.identifier!r} reports ({n.variable_name!r}, '
                            f'{n.time_lag}), its identifier spells ({v!r}, {k})']
    except Exception as e:  # noqa: BLE001
        return [f'coherence: reading the nodes after construction raised {type(e).__name__}']
    return []


def in_domain(g):
    """the hypotheses of the C14–C16 theorems, decided on the implementation's graph by the oracle itself"""
    return canonical_names(g) and template_consistent(g)


def digest(*parts):
    return hashlib.sha1('\n'.join(parts).encode()).hexdigest()


def graph_args(g):
    return impl.enc_graph(g), hxlist(index_order(g))


REQUEST_BUDGET = 48000


def fit_budget(lines, out, budget=REQUEST_BUDGET):
    """`ModelClient.ask` writes every request line of a case before it reads the first reply; with both pipes full
    (64 KiB each) the driver and the harness would wait for each other.  Keep the requests of one case well below one
    pipe buffer: returns the longest prefix that fits (and whether something was cut)."""
    total = 0
    for i, ln in enumerate(lines):
        total += len(ln.encode('utf-8')) + 1
        if total > budget:
            return lines[:i], out[:i], True
    return lines, out, False


def describe(case):
    return {'kind': case.get('kind'), 'ops': [[o[0]] + [x for x in o[1:4] if isinstance(x, str)] for o in case['ops']][:12]}
