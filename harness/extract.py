"""
Source -> Lean: facts that are re-extracted from /repo's working tree on every run (Python `ast` only) and
written to lean/CG/Generated/*.lean.  Proof obligations over these tables are part of `lake build CG`.
"""
import ast
import os

from harness.core import LEAN_DIR, REPO

GEN_DIR = os.path.join(LEAN_DIR, 'CG', 'Generated')


def _write_if_changed(path, text):
    os.makedirs(os.path.dirname(path), exist_ok=True)
    old = open(path).read() if os.path.exists(path) else None
    if old != text:
        tmp = path + '.tmp'
        with open(tmp, 'w') as f:
            f.write(text)
        os.replace(tmp, path)
        return True
    return False


GENERATORS = []   # list of callables returning (relative file name, text)


def _register():
    from harness.srcgen import c04_table, c05_enums, c07_dontcare, c12_digits
    GENERATORS.append(c12_digits.generate)
    GENERATORS.append(c05_enums.generate)
    GENERATORS.append(c07_dontcare.generate)
    GENERATORS.append(c04_table.generate)



def regenerate():
    if not GENERATORS:
        _register()
    changed = []
    for g in GENERATORS:
        name, text = g()
        if _write_if_changed(os.path.join(GEN_DIR, name), text):
            changed.append(name)
    return changed
