"""
Source -> Lean: facts that are re-extracted from /repo's working tree on every run (Python `ast` only) and
written to lean/CG/Generated/*.lean.  Proof obligations over these tables are part of `lake build CG`.
"""
import ast
import os

from harness.core import LEAN_DIR, REPO

GEN_DIR = os.path.join(LEAN_DIR, 'CG', 'Generated')


def _write_if_changed(path, text):
    os.makedirs(os.path.dirname(path), exist_ok=True)
    old = open(path).read() if os.path.exists(path) else None
    if old != text:
        tmp = path + '.tmp'
        with open(tmp, 'w') as f:
            f.write(text)
        os.replace(tmp, path)
        return True
    return False


GENERATORS = []   # list of callables returning (relative file name, text)
FILENAMES = {'harness.srcgen.c12_digits': 'Digits.lean', 'harness.srcgen.c05_enums': 'Enums.lean',
             'harness.srcgen.c07_dontcare': 'DontCare.lean', 'harness.srcgen.c04_table': 'CacheTable.lean'}


def _register():
    from harness.srcgen import c04_table, c05_enums, c07_dontcare, c12_digits
    GENERATORS.append(c12_digits.generate)
    GENERATORS.append(c05_enums.generate)
    GENERATORS.append(c07_dontcare.generate)
    GENERATORS.append(c04_table.generate)



def regenerate():
    if not GENERATORS:
        _register()
    changed = []
    for g in GENERATORS:
        try:
            name, text = g()
        except Exception as e:  # noqa: BLE001
            # the source no longer has the shape the extractor understands (a refactoring, or a breaking change): the
            # generated module is replaced by a stub, so the proof obligations over it stop compiling and the check
            # goes on to search for a failing input with the driver it already has
            name = getattr(g, 'FILENAME', None) or FILENAMES.get(g.__module__)
            if name is None:
                raise
            # (a stub still DEFINES the symbols modules of the driver read, with values no obligation accepts: the
            #  driver goes on building, only the obligations of the property the table belongs to stop compiling)
            import importlib
            stub = getattr(importlib.import_module(g.__module__), 'STUB', '')
            text = ('/- extraction failed: ' + str(e).replace('-/', '- /')[:300] + ' -/\n' + stub)
        if _write_if_changed(os.path.join(GEN_DIR, name), text):
            changed.append(name)
    return changed
