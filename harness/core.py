"""
Harness core: runs a *lane* (the correspondence check + oracle for one property), talks to the Lean
model driver over the line protocol, decides the verdict and writes evidence / replay files.

A lane is a Python module `harness/lanes/cXX.py` exposing a class `Lane(LaneBase)`:

    PROP      = 'C07'
    THEOREMS  = ['CG.C07.graphEq_iff', ...]      # audited with `#print axioms` on every run
    AUDIT     = 'CG/Audit/C07.lean'              # file that prints the axioms of those theorems
    def cases(self, tier, rng):                  # deterministic generator of JSON-serialisable cases
    def run_case(self, case) -> dict             # executes the REAL implementation on the case:
        {'lines':  [protocol line, ...],         #   what is sent to the Lean model driver
         'impl':   [expected reply, ...],        #   canonical reply computed from the implementation
         'oracle': [str, ...],                   #   property failures seen on the implementation alone
         'nontrivial': bool, 'key': str,         #   coverage accounting
         'tags': [str, ...]}                     #   input-distribution histogram keys
    def signature(self, case, failure) -> str    # canonical identity of a failure (known-findings match)
    def shrink(self, case, still_fails)          # optional: return a smaller failing case

Everything random comes from one random.Random(VERIF_SEED).
"""
from __future__ import annotations

import collections
import hashlib
import importlib
import json
import multiprocessing as mp
import os
import random
import subprocess
import sys
import time
import traceback

VERIF = os.path.dirname(os.path.dirname(os.path.abspath(__file__)))
REPO = os.environ.get('REPO', '/repo')
LEAN_DIR = os.path.join(VERIF, 'lean')
DRIVER = os.path.join(LEAN_DIR, '.lake', 'build', 'bin', 'cgdriver')
ALLOWED_AXIOMS = {'propext', 'Classical.choice', 'Quot.sound'}


def setup_repo_path():
    """Put /repo's working tree first on sys.path so the code under test is what runs."""
    if REPO not in sys.path:
        sys.path.insert(0, REPO)
    os.environ.setdefault('CAI_CAUSAL_GRAPH_VERIF', '1')


# ----------------------------------------------------------------------------------------------
# codec (mirror of lean/CG/Driver/Codec.lean)
# ----------------------------------------------------------------------------------------------

def hx(s: str) -> str:
    if s == '':
        return '-'
    return s.encode('utf-8').hex()


def unhx(t: str) -> str:
    if t == '-':
        return ''
    return bytes.fromhex(t).decode('utf-8')


def hxlist(xs) -> str:
    xs = list(xs)
    if not xs:
        return '.'
    return ','.join(hx(x) for x in xs)


def unhxlist(t: str):
    if t == '.':
        return []
    return [unhx(x) for x in t.split(',')]


def hxedges(es) -> str:
    es = list(es)
    if not es:
        return '.'
    return ','.join(hx(a) + '>' + hx(b) for a, b in es)


def hxlistlist(xss) -> str:
    xss = list(xss)
    if not xss:
        return '.'
    return ';'.join('_' if not xs else ','.join(hx(x) for x in xs) for xs in xss)


def optarg(s) -> str:
    return '~' if s is None else hx(s)


# ----------------------------------------------------------------------------------------------
# model client
# ----------------------------------------------------------------------------------------------

class ModelClient:
    """One compiled Lean driver process; lines in, lines out (strictly one reply per request line)."""

    def __init__(self):
        if not os.path.exists(DRIVER):
            raise MachineryError(f'driver binary missing: {DRIVER} (run setup / lake build)')
        self.p = subprocess.Popen([DRIVER], stdin=subprocess.PIPE, stdout=subprocess.PIPE, text=True,
                                  encoding='utf-8', bufsize=1 << 20)

    def ask(self, lines):
        """send request lines, read one reply per line; chunked by BYTES (requests and replies can be several KB each)
        so that neither pipe buffer (64 KiB) can fill up while the other side is blocked"""
        out = []
        chunk, size = [], 0
        for ln in lines:
            n = len(ln.encode('utf-8')) + 1
            if chunk and (size + n > 16000 or len(chunk) >= 16):
                out.extend(self._ask(chunk))
                chunk, size = [], 0
            chunk.append(ln)
            size += n
        if chunk:
            out.extend(self._ask(chunk))
        return out

    def _ask(self, lines):
        if not lines:
            return []
        for ln in lines:
            if '\n' in ln:
                raise MachineryError(f'protocol line contains a newline: {ln!r}')
        self.p.stdin.write('\n'.join(lines) + '\n')
        self.p.stdin.flush()
        out = []
        for _ in lines:
            r = self.p.stdout.readline()
            if r == '':
                raise MachineryError('driver closed its output (crash?) after lines: ' + repr(lines[:3]))
            out.append(r.rstrip('\n'))
        return out

    def close(self):
        try:
            self.p.stdin.close()
            self.p.wait(timeout=5)
        except Exception:
            self.p.kill()


class MachineryError(Exception):
    pass


# ----------------------------------------------------------------------------------------------
# lane base
# ----------------------------------------------------------------------------------------------

class LaneBase:
    PROP = 'C00'
    THEOREMS: list = []
    AUDIT = None
    LEVEL_NOTE = ''
    TRUSTED = []
    RULE = ''
    PARTIAL = []          # named gaps (partial theorems), copied into the evidence

    def cases(self, tier, rng):
        raise NotImplementedError

    def run_case(self, case):
        raise NotImplementedError

    def signature(self, case, failure):
        return hashlib.sha1(json.dumps([case, failure], sort_keys=True).encode()).hexdigest()[:16]

    def shrink(self, case, still_fails):
        return case

    def describe(self, case):
        return case

    # lanes that need source-derived facts override this; returns list of (name, ok, detail)
    def source_obligations(self):
        return []


def theorems_of_audit(audit):
    """the property theorems of a lane = the `#print axioms` lines of its audit file"""
    path = os.path.join(LEAN_DIR, audit)
    if not os.path.exists(path):
        return []
    out = []
    for ln in strip_comments(open(path, encoding='utf-8').read()).split('\n'):
        ln = ln.strip()
        if ln.startswith('#print axioms '):
            out.append(ln.split()[2])
    return out


def load_lane(prop: str) -> LaneBase:
    setup_repo_path()
    sys.path.insert(0, VERIF)
    mod = importlib.import_module(f'harness.lanes.{prop.lower()}')
    lane = mod.Lane()
    if lane.THEOREMS == 'auto':
        lane.THEOREMS = theorems_of_audit(lane.AUDIT)
    return lane


# ----------------------------------------------------------------------------------------------
# worker
# ----------------------------------------------------------------------------------------------

_W = {}


def _worker_init(prop):
    setup_repo_path()
    import warnings
    warnings.simplefilter('ignore')
    import logging
    logging.disable(logging.CRITICAL)
    _W['lane'] = load_lane(prop)
    _W['client'] = ModelClient()


def eval_case(lane, client, case):
    """Run one case on the implementation and on the model; return a result record."""
    from harness import gen as _gen
    _gen.take_failures()
    import signal
    limit = int(os.environ.get('VERIF_CASE_SECONDS', '120'))

    def _too_long(signum, frame):
        raise CaseTimeout()
    armed = False
    try:
        signal.signal(signal.SIGALRM, _too_long)
        signal.alarm(limit)
        armed = True
    except (ValueError, AttributeError):      # not in the main thread of the worker
        pass
    try:
        try:
            r = lane.run_case(case)
        finally:
            if armed:
                signal.alarm(0)
    except CaseTimeout:
        # one case that normally takes milliseconds did not finish: the implementation hangs or blows up on this input
        # (a corrupted graph with a cycle among its parent links, a path enumeration that no longer terminates, ...)
        _gen.take_failures()
        return {'case': case, 'diffs': [], 'ndiffs': 0, 'nontrivial': False, 'key': '', 'tags': ['case-timeout'], 'nlines': 0,
                'oracle': [f'case-timeout | the implementation did not finish this case within {limit} s (on the unchanged '
                           f'tree a case of this lane takes well under a second)']}
    except MachineryError:
        raise
    except Exception as e:  # a harness crash on a case is reported as machinery trouble, with the case
        built = _gen.take_failures()
        if built:
            # the shared builders saw the graph go wrong while it was being built (see harness/gen.py): that, not the crash
            # it caused further on, is the observation
            return {'case': case, 'diffs': [], 'ndiffs': 0, 'oracle': ['while building the graph: ' + built[0]],
                    'nontrivial': False, 'key': '', 'tags': ['build-failure'], 'nlines': 0}
        return {'case': case, 'crash': ''.join(traceback.format_exception(type(e), e, e.__traceback__))[-2000:]}
    built = _gen.take_failures()
    if built:
        r = dict(r, oracle=list(r.get('oracle', [])) + ['while building the graph: ' + built[0]])
    lines = r.get('lines', [])
    impl = r.get('impl', [])
    model = client.ask(lines) if lines else []
    diffs = []
    soft = []
    soft_prefixes = tuple(getattr(lane, 'WHITE_BOX_PREFIXES', ()))
    for i, (a, b) in enumerate(zip(impl, model)):
        if a is None:
            continue          # line sent only for its effect on the model state
        if a != b:
            if soft_prefixes and lines[i].startswith(soft_prefixes):
                # a white-box line (the code's PRIVATE containers against the model's): the layout of private state is not
                # behaviour, so a difference here is recorded and shown, never a verdict by itself
                soft.append({'index': i, 'line': lines[i][:200], 'impl': a[:300], 'model': b[:300]})
                continue
            diffs.append({'index': i, 'line': lines[i], 'impl': a, 'model': b})
    oracle = list(r.get('oracle', []))
    if getattr(lane, 'DIFF_IS_FAILURE', False) and diffs:
        # the model's reply IS the property's reference behaviour for this lane: a deviation is a failing input
        d = diffs[0]
        oracle.append(lane.diff_failure(case, d) if hasattr(lane, 'diff_failure') else
                      f"implementation deviates from the reference model at `{d['line'][:80]}`: "
                      f"impl={d['impl'][:160]!r} reference={d['model'][:160]!r}")
    return {'case': case, 'diffs': diffs[:5], 'ndiffs': len(diffs), 'oracle': oracle[:5],
            'nontrivial': bool(r.get('nontrivial', False)), 'key': r.get('key', ''), 'tags': r.get('tags', []),
            'nlines': len(lines), 'soft': soft[:2], 'nsoft': len(soft)}


def _worker_run(chunk):
    lane, client = _W['lane'], _W['client']
    return [eval_case(lane, client, c) for c in chunk]


# ----------------------------------------------------------------------------------------------
# build + audit
# ----------------------------------------------------------------------------------------------

def sh(cmd, cwd=None, timeout=3600):
    p = subprocess.run(cmd, cwd=cwd, shell=isinstance(cmd, str), stdout=subprocess.PIPE, stderr=subprocess.STDOUT,
                       text=True, timeout=timeout)
    return p.returncode, p.stdout


class CaseTimeout(BaseException):
    """raised by the per-case alarm (BaseException: the lanes' `except Exception` clauses must not swallow it)"""


def sig_of(lane, case, failure):
    """identity of an oracle failure: the lane's own classification, or a generic one for failures the shared builders
    report (and for texts a lane's classifier cannot read)"""
    import hashlib
    if failure.startswith('case-timeout |'):
        return lane.PROP + ':case-timeout'
    if failure.startswith('while building the graph:'):
        return lane.PROP + ':build:' + hashlib.sha1(failure.split(' changed ')[0][:120].encode()).hexdigest()[:10]
    try:
        return lane.signature(case, failure)
    except Exception:  # noqa: BLE001
        return lane.PROP + ':' + hashlib.sha1(failure[:80].encode()).hexdigest()[:12]


def lane_targets(lane):
    """what a check has to build: the proof modules its audit file imports, and the driver -- NOT the whole library, so
    that a proof obligation of another property that a source change breaks (a regenerated table) does not take this
    property's check down with it"""
    mods = []
    try:
        if lane.AUDIT:
            import re
            for ln in open(os.path.join(LEAN_DIR, lane.AUDIT), encoding='utf-8'):
                m = re.match(r'^import\s+(\S+)', ln)
                if m:
                    mods.append(m.group(1))
    except OSError:
        pass
    return (mods or ['CG']) + ['cgdriver']


def build(targets, lane=None):
    """regenerate the source-derived tables and lake build, as ONE step serialised with a lock so that checks may
    run concurrently (also against different REPO trees during self-tests)."""
    import fcntl
    from harness import extract
    os.makedirs(os.path.join(LEAN_DIR, '.lake'), exist_ok=True)
    with open(os.path.join(LEAN_DIR, '.lake', 'verif.lock'), 'w') as lk:
        fcntl.flock(lk, fcntl.LOCK_EX)
        changed = extract.regenerate()
        rc, out = sh(['lake', 'build'] + list(targets), cwd=LEAN_DIR)
        aud = audit(lane) if (rc == 0 and lane is not None) else None
    return rc, out, changed, aud


FORBIDDEN = ['sorry', 'admit', 'native_decide', 'bv_decide', 'implemented_by', 'unsafe ', 'maxHeartbeats 0']


def strip_comments(text):
    out, i, depth = [], 0, 0
    n = len(text)
    while i < n:
        if text.startswith('/-', i):
            depth += 1
            i += 2
        elif depth and text.startswith('-/', i):
            depth -= 1
            i += 2
        elif depth:
            i += 1
        elif text.startswith('--', i):
            while i < n and text[i] != '\n':
                i += 1
        else:
            out.append(text[i])
            i += 1
    return ''.join(out)


def grep_forbidden():
    hits = []
    for root, _, files in os.walk(os.path.join(LEAN_DIR, 'CG')):
        for f in files:
            if f.endswith('.lean'):
                p = os.path.join(root, f)
                code = strip_comments(open(p, encoding='utf-8').read())
                for ln in code.split('\n'):
                    for w in FORBIDDEN:
                        if w in ln:
                            hits.append(f'{os.path.relpath(p, LEAN_DIR)}: {ln.strip()[:120]}')
                    if ln.startswith('axiom '):
                        hits.append(f'{os.path.relpath(p, LEAN_DIR)}: {ln.strip()[:120]}')
    return hits


def audit(lane):
    """`#print axioms` for every property theorem; returns (obligations, discharged, details, bad)."""
    if not lane.AUDIT:
        return 0, 0, [], ['lane has no audit file']
    rc, out = sh(['lake', 'env', 'lean', lane.AUDIT], cwd=LEAN_DIR)
    details, bad = [], []
    seen = {}
    cur = None
    # output format: "'name' depends on axioms: [a, b]" or "'name' does not depend on any axioms"
    text = out.replace('\n ', ' ')
    import re
    for ln in text.split('\n'):
        ln = ln.strip()
        m = re.match(r"^'(.+)' depends on axioms: \[(.*)\]$", ln)
        if m:
            seen[m.group(1)] = {a.strip() for a in m.group(2).split(',') if a.strip()}
            continue
        m = re.match(r"^'(.+)' does not depend on any axioms$", ln)
        if m:
            seen[m.group(1)] = set()
    if rc != 0:
        bad.append('audit file failed to elaborate: ' + out[-800:])
    for t in lane.THEOREMS:
        if t not in seen:
            bad.append(f'theorem {t} not found by the audit')
        else:
            extra = seen[t] - ALLOWED_AXIOMS
            details.append({'theorem': t, 'axioms': sorted(seen[t])})
            if extra:
                bad.append(f'theorem {t} depends on non-standard axioms {sorted(extra)}')
    discharged = sum(1 for t in lane.THEOREMS if t in seen and not (seen[t] - ALLOWED_AXIOMS))
    return len(lane.THEOREMS), discharged, details, bad


# ----------------------------------------------------------------------------------------------
# known findings
# ----------------------------------------------------------------------------------------------

def load_known():
    p = os.path.join(VERIF, 'known_findings.json')
    if not os.path.exists(p):
        return []
    return json.load(open(p))['findings']


# ----------------------------------------------------------------------------------------------
# main entry
# ----------------------------------------------------------------------------------------------

def write_json(path, obj):
    os.makedirs(os.path.dirname(path), exist_ok=True)
    tmp = path + '.tmp'
    with open(tmp, 'w') as f:
        json.dump(obj, f, indent=1, sort_keys=True, default=str)
    os.replace(tmp, path)


def run_check(prop, tier, seed, replay=None, jobs=None):
    t0 = time.time()
    import logging
    import warnings
    warnings.simplefilter('ignore')
    logging.disable(logging.CRITICAL)
    lane = load_lane(prop)
    rng = random.Random(seed)
    jobs = jobs or int(os.environ.get('VERIF_JOBS', '14'))
    violations = []       # (replay_path, suffix)
    known_lines = []
    machinery = []

    # 1-2. regenerate + build
    rc, out, gen_changed, aud = build(lane_targets(lane), lane)
    build_ok = rc == 0
    build_log = out[-3000:]

    # 3. audit
    forb = grep_forbidden()
    if forb:
        machinery.append('forbidden constructs in the Lean tree: ' + '; '.join(forb[:5]))
    if build_ok:
        obligations, discharged, axiom_details, bad = aud
        if bad:
            machinery.extend(bad)
    else:
        obligations, discharged, axiom_details = len(lane.THEOREMS), 0, []

    # thorough tier: independent re-check of the compiled proof modules of this property
    leanchecker = None
    if build_ok and tier == 'thorough' and lane.AUDIT and not replay:
        mods = []
        for ln in open(os.path.join(LEAN_DIR, lane.AUDIT), encoding='utf-8'):
            ln = ln.strip()
            if ln.startswith('import CG.'):
                mods.append(ln.split()[1])
        if mods:
            rc2, out2 = sh(['lake', 'env', 'leanchecker'] + mods, cwd=LEAN_DIR, timeout=1800)
            leanchecker = {'modules': mods, 'ok': rc2 == 0}
            if rc2 != 0:
                machinery.append('leanchecker rejected the compiled modules: ' + out2[-500:])

    src_obl = lane.source_obligations()

    from harness import fingerprints
    try:
        moved_files = fingerprints.changed_files()
    except Exception:  # noqa: BLE001
        moved_files = []
    results = []
    counters = collections.Counter()
    keys = set()
    samples = []
    corr_breaks, oracle_fails, crashes = [], [], []
    soft_samples = []

    if build_ok and not os.path.exists(DRIVER):
        machinery.append('driver binary missing after build')
    # a broken proof obligation does not stop the search for a failing input: the driver target is built separately
    if os.path.exists(DRIVER):
        if replay:
            cases = [json.load(open(replay))['case']]
        else:
            corpus_dir = os.path.join(VERIF, 'corpus', prop)
            corpus = []
            if os.path.isdir(corpus_dir):
                for f in sorted(os.listdir(corpus_dir)):
                    if f.endswith('.json'):
                        corpus.append(json.load(open(os.path.join(corpus_dir, f)))['case'])
            cases = corpus + list(lane.cases(tier, rng))
            # effort escalation: where the source moved away from the recorded fingerprints, the quick tier spends
            # three more generator runs (other derived seeds, duplicates dropped); verdict rules are unchanged
            moved = moved_files
            counters['escalated'] = 0
            if moved and tier == 'quick' and os.environ.get('VERIF_NO_ESCALATION') != '1':
                seen_cases = {json.dumps(c, sort_keys=True, default=str) for c in cases}
                cap = int(os.environ.get('VERIF_ESCALATION_CAP', '20000'))     # keeps the quick tier quick on the big lanes
                for k in (1, 2, 3):
                    if counters['escalated'] >= cap:
                        break
                    for c in lane.cases(tier, random.Random(seed * 31 + k * 7919 + 1)):
                        key = json.dumps(c, sort_keys=True, default=str)
                        if key not in seen_cases:
                            seen_cases.add(key)
                            cases.append(c)
                            counters['escalated'] += 1
                            if counters['escalated'] >= cap:
                                break
        n = len(cases)
        chunk = max(1, min(50, n // (jobs * 4) + 1))
        chunks = [cases[i:i + chunk] for i in range(0, n, chunk)]
        if n <= 4 or jobs == 1:
            _worker_init(prop)
            res_iter = (_worker_run(c) for c in chunks)
            pool = None
        else:
            pool = mp.get_context('fork').Pool(jobs, initializer=_worker_init, initargs=(prop,))
            res_iter = pool.imap(_worker_run, chunks)
        try:
            for rs in res_iter:
                for r in rs:
                    counters['evaluations'] += 1
                    if 'crash' in r:
                        crashes.append(r)
                        continue
                    counters['lines'] += r['nlines']
                    if r.get('nsoft'):
                        counters['white_box_differences'] += r['nsoft']
                        if len(soft_samples) < 3:
                            soft_samples.extend(r['soft'][:1])
                    for t in r['tags']:
                        counters['tag:' + t] += 1
                    if r['nontrivial']:
                        keys.add(r['key'])
                    if len(samples) < 3 and r['nontrivial']:
                        samples.append(lane.describe(r['case']))
                    if r['ndiffs']:
                        corr_breaks.append(r)
                    if r['oracle']:
                        oracle_fails.append(r)
        finally:
            if pool:
                pool.terminate()
                pool.join()
        if not samples and cases:
            samples.append(lane.describe(cases[0]))

    # ---- verdict --------------------------------------------------------------------------
    os.makedirs(os.path.join(VERIF, 'replays'), exist_ok=True)
    if not replay:
        for f in os.listdir(os.path.join(VERIF, 'replays')):
            if f.startswith(f'{prop}-{seed}-'):
                os.remove(os.path.join(VERIF, 'replays', f))
    known = [k for k in load_known() if k['property'] == prop]
    open_sigs = {k['signature']: k for k in known if k.get('status') == 'open'}
    seen_known = {}
    nrep = [0]

    def emit(case, kind, detail, suffix=''):
        nrep[0] += 1
        path = os.path.join('replays', f'{prop}-{seed}-{nrep[0]}.json')
        write_json(os.path.join(VERIF, path), {
            'property': prop, 'seed': seed, 'tier': tier, 'kind': kind, 'case': case, 'detail': detail,
            'replay_cmd': f'./check {prop} --replay {path}'})
        violations.append((path, suffix))

    # every oracle failure is classified by its signature; unknown signatures are violations (shrunk first)
    reported_sigs = set()
    unknown = []
    for r in oracle_fails:
        for failure in r['oracle'][:3]:
            sig = sig_of(lane, r['case'], failure)
            if sig in open_sigs:
                seen_known[sig] = open_sigs[sig]
            elif sig not in reported_sigs:
                reported_sigs.add(sig)
                unknown.append((r, failure, sig))
    for r, failure, sig in unknown[:5]:
        case = r['case']
        if not replay:
            try:
                _W.setdefault('lane', lane)
                if 'client' not in _W:
                    _W['client'] = ModelClient()

                def still(c, _sig=sig):
                    rr = eval_case(lane, _W['client'], c)
                    return any(sig_of(lane, c, f) == _sig for f in rr.get('oracle', []))
                small = lane.shrink(case, still)
                r2 = eval_case(lane, _W['client'], small)
                keep = [f for f in r2.get('oracle', []) if sig_of(lane, small, f) == sig]
                if keep:
                    case, failure, r = small, keep[0], r2
            except Exception:  # noqa: BLE001 - shrinking is best effort
                pass
        emit(case, 'property-fails-on-implementation', {'failure': failure, 'signature': sig, 'diffs': r.get('diffs', [])})
    if corr_breaks and not violations and hasattr(lane, 'widen') and not replay:
        # widened search seeded from the disagreeing cases: look for an input on which the property itself fails
        try:
            _W.setdefault('lane', lane)
            if 'client' not in _W:
                _W['client'] = ModelClient()
            found = None
            for r in corr_breaks[:6]:
                for c2 in lane.widen(r['case']):
                    r2 = eval_case(lane, _W['client'], c2)
                    fs = [f for f in r2.get('oracle', []) if sig_of(lane, c2, f) not in open_sigs]
                    if fs:
                        found = (c2, fs[0], r2)
                        break
                if found:
                    break
            if found:
                c2, failure, r2 = found
                sig = sig_of(lane, c2, failure)

                def still2(c, _sig=sig):
                    rr = eval_case(lane, _W['client'], c)
                    return any(sig_of(lane, c, f) == _sig for f in rr.get('oracle', []))
                try:
                    small = lane.shrink(c2, still2)
                    r3 = eval_case(lane, _W['client'], small)
                    keep = [f for f in r3.get('oracle', []) if sig_of(lane, small, f) == sig]
                    if keep:
                        c2, failure, r2 = small, keep[0], r3
                except Exception:  # noqa: BLE001
                    pass
                emit(c2, 'property-fails-on-implementation',
                     {'failure': failure, 'signature': sig, 'found_by': 'widened search from a correspondence disagreement',
                      'diffs': r2.get('diffs', [])})
        except MachineryError:
            raise
        except Exception:  # noqa: BLE001 - the widened search is best effort
            pass
    if crashes and not violations:
        # a crash of the harness on a generated case: the implementation did something the lane cannot even
        # canonicalise (e.g. an exception from a reader that never raises on the unchanged tree).  Reported only when
        # no failing input was found: otherwise the failing inputs above are the report.
        c = crashes[0]
        emit(c['case'], 'lane-crash', {'traceback': c['crash']}, suffix=' no-failing-input-found')
    if corr_breaks and not violations:
        # correspondence broken on cases where the oracle saw nothing (or only listed findings)
        rest = [r for r in corr_breaks
                if not r['oracle'] or not all(sig_of(lane, r['case'], f) in open_sigs for f in r['oracle'])]
        if rest:
            r = rest[0]
            emit(r['case'], 'correspondence-broken',
                 {'what_no_longer_checks': f'correspondence lane {prop}: model and implementation disagree',
                  'first_disagreements': r['diffs'], 'disagreeing_cases': len(corr_breaks)},
                 suffix=' no-failing-input-found')
    if not build_ok:
        emit(None, 'proof-obligation-broken',
             {'what_no_longer_checks': 'lake build CG (generated source facts no longer satisfy a proof obligation, or '
                                       'the Lean tree is broken)', 'log': build_log}, suffix=' no-failing-input-found')
    for name, ok, detail in src_obl:
        if not ok and not violations:
            emit(None, 'source-obligation-broken', {'what_no_longer_checks': name, 'detail': detail},
                 suffix=' no-failing-input-found')

    for sig, k in seen_known.items():
        known_lines.append(f"KNOWN-FINDING: property={prop} {k['what']}")

    # ---- evidence -------------------------------------------------------------------------
    tags = {k[4:]: v for k, v in counters.items() if k.startswith('tag:')}
    evidence = {
        'property_id': prop, 'tier': tier, 'seed': seed, 'level': 'proof',
        'coverage': {
            'obligations': max(obligations, 1) if lane.THEOREMS else 0, 'discharged': discharged,
            'checker_cmd': f'cd lean && lake build CG && lake env lean {lane.AUDIT}  (kernel check + #print axioms)',
            'trusted_base': ['Lean 4.33.0 kernel', 'axioms: propext, Classical.choice, Quot.sound only',
                             'hand-written model lean/CG/Model tied to /repo by the correspondence lane '
                             '(measured on the inputs below, not proved)'] + list(lane.TRUSTED),
            'theorems': axiom_details,
            'partial': list(lane.PARTIAL),
            'source_obligations': [{'name': n, 'ok': ok} for n, ok, _ in src_obl],
            'evaluations': counters['evaluations'], 'distinct_nontrivial': len(keys),
            'rule': lane.RULE, 'samples': samples, 'protocol_lines_compared': counters['lines'],
            'traces_validated_against_impl': counters['evaluations'] - len(corr_breaks) - len(crashes),
            'correspondence_disagreements': len(corr_breaks), 'oracle_failures': len(oracle_fails),
            'white_box_differences': {'count': counters['white_box_differences'], 'samples': soft_samples,
                                      'meaning': 'private containers of the implementation differ from the index-level model of '
                                                 'the same state; private layout is not behaviour, so this is recorded, not judged'},
            'input_distribution': tags, 'exhaustive': bool(getattr(lane, 'EXHAUSTIVE', {}).get(tier, False)),
            'known_findings_seen': sorted(k['id'] for k in seen_known.values()),
            'generated_files_changed': gen_changed,
            'source_files_changed_since_fingerprint': moved_files,
            'escalated_extra_cases': counters.get('escalated', 0),
            'leanchecker': leanchecker,
        },
        'assumptions': [lane.LEVEL_NOTE] if lane.LEVEL_NOTE else [],
        'wall_s': round(time.time() - t0, 2), 'violations': len(violations),
    }
    if not lane.THEOREMS:
        # no property theorem audited (lane under construction): only the exploration-style keys apply
        for k in ('obligations', 'discharged', 'checker_cmd'):
            evidence['coverage'].pop(k, None)
        evidence['level'] = 'exploration'
    if not replay:
        write_json(os.path.join(os.environ.get('VERIF_EVIDENCE_DIR') or os.path.join(VERIF, 'evidence'), f'{prop}.json'), evidence)

    for ln in known_lines:
        print(ln)
    if machinery and not violations:
        for m in machinery:
            print('MACHINERY: ' + m, file=sys.stderr)
        return 2
    if counters['white_box_differences']:
        print(f'NOTE {prop}: {counters["white_box_differences"]} white-box line(s) differ (private containers of the '
              f'implementation vs. the index-level model; recorded in the evidence, not a verdict)')
    for path, suffix in violations:
        print(f'VIOLATION property={prop} replay={path}{suffix}')
    if violations:
        return 1
    print(f'OK {prop} tier={tier} seed={seed} cases={counters["evaluations"]} nontrivial={len(keys)} '
          f'theorems={discharged}/{obligations} wall={evidence["wall_s"]}s')
    return 0
