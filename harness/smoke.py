"""Smoke run after setup: the compiled driver answers, and the repo imports."""
import sys

from harness import core

core.setup_repo_path()
c = core.ModelClient()
r = c.ask(['echo ' + core.hx('ok'), 'name parse ' + core.hx('X lag(n=2)'), 'g new s plain _', 'g obs s'])
c.close()
assert r[0] == core.hx('ok'), r
assert r[1].startswith('ok '), r
import cai_causal_graph  # noqa: E402,F401
print('smoke ok:', r[1])
