"""
Implementation adapter: executes protocol-level operations on the REAL cai_causal_graph objects (in-process) and
produces the same canonical reply / observation lines as the Lean driver (lean/CG/Driver/HGraph.lean).

An operation is a JSON-able list, e.g. ['add_edge', src, dst, '->', {'k': 1}, True]; endpoints of add_edge are a
string or {'id':…, 'vt':…, 'meta':…} for a Node object.
"""
from __future__ import annotations

import hashlib

import json

from harness.core import hx, hxedges, hxlist, hxlistlist, setup_repo_path

setup_repo_path()

from cai_causal_graph import CausalGraph, TimeSeriesCausalGraph  # noqa: E402
from cai_causal_graph.graph_components import Node, TimeSeriesNode  # noqa: E402
from cai_causal_graph.type_definitions import EdgeType, NodeVariableType  # noqa: E402

ET_ORDER = ['--', '->', '<>', 'oo', 'o>', 'o-']
TS_KEYS = ('time_lag', 'variable_name')


def cj(v) -> str:
    return json.dumps(v, sort_keys=True, separators=(',', ':'), ensure_ascii=False)


def enc_meta(meta, strip_ts=False) -> str:
    if meta is None:
        meta = {}
    items = [(k, v) for k, v in meta.items() if not (strip_ts and k in TS_KEYS)]
    if not items:
        return '_'
    return '&'.join(hx(k) + '=' + hx(cj(v)) for k, v in sorted(items))


def opt_meta(meta, strip_ts=False) -> str:
    return '~' if meta is None else enc_meta(meta, strip_ts)


def opt(x, f=hx) -> str:
    return '~' if x is None else f(x)


BAD_VT = {'BAD_STR': 'not-a-variable-type', 'BAD_OBJ': 123}


def vt_arg(x):
    """the variable_type argument handed to the API: a member, or one of the two invalid forms"""
    if x in BAD_VT:
        return BAD_VT[x]
    return NodeVariableType(x)


def et_arg(x, op):
    """the edge_type argument handed to the API: the enum member or, for a deterministic half of the calls, the equal
    plain string (what a JSON round trip or a caller typing '->' passes; EdgeType is a str-enum, so both are legal)"""
    import zlib
    if zlib.crc32(repr(op).encode()) % 2:
        return str(x)
    return EdgeType(x)


def vt_token(x) -> str:
    return {'BAD_STR': '?s', 'BAD_OBJ': '?o'}.get(x, x)


def ety(e) -> str:
    """edge type text; after a JSON round trip the code keeps the plain string instead of the enum member"""
    t = e.get_edge_type()
    return t.value if hasattr(t, 'value') else str(t)


def err_name(e: BaseException) -> str:
    return type(e).__name__


def new_graph(cls: str, meta=None):
    return (TimeSeriesCausalGraph if cls == 'ts' else CausalGraph)(meta=meta)


def is_ts(g) -> bool:
    return isinstance(g, TimeSeriesCausalGraph)


# ----------------------------------------------------------------------------------------------------------
# operations
# ----------------------------------------------------------------------------------------------------------

def _endpoint(g, e):
    if isinstance(e, str):
        return e
    if e.get('plain'):
        # a node object of the BASE class handed to whichever graph class: the graph converts it, attributes included
        return Node(e['id'], meta=e.get('meta') if e.get('meta') else None, variable_type=NodeVariableType(e.get('vt', 'unspecified')))
    return _mk_node(g, e['id'], e.get('meta'), e.get('vt', 'unspecified'))


def _mk_node(g, ident, meta, vt):
    """a node object of the graph's node class; a name the time-series class cannot even construct is passed as a
    plain Node (a legitimate argument: the graph converts it, and that conversion is what raises)"""
    if is_ts(g):
        try:
            return TimeSeriesNode(ident, meta=meta if meta else None, variable_type=NodeVariableType(vt))
        except ValueError:
            pass
    return Node(ident, meta=meta if meta else None, variable_type=NodeVariableType(vt))


def _ep_line(e) -> str:
    if isinstance(e, str):
        return hx(e)
    return '@' + hx(e['id']) + ':' + e.get('vt', 'unspecified') + ':' + enc_meta(e.get('meta'))


def op_line(slot: str, op) -> str:
    k = op[0]
    if k == 'add_node':
        return f'g op {slot} add_node {hx(op[1])} {vt_token(op[2])} {enc_meta(op[3])}'
    if k == 'add_node_obj':
        return f'g op {slot} add_node_obj {hx(op[1])} {op[2]} {enc_meta(op[3])}'
    if k == 'ts_add_node':
        return f'g op {slot} ts_add_node {opt(op[1])} {opt(op[2])} {opt(op[3], str)} {op[4]} {enc_meta(op[5])}'
    if k == 'add_edge':
        return f'g op {slot} add_edge {_ep_line(op[1])} {_ep_line(op[2])} {op[3]} {enc_meta(op[4])} {int(op[5])}'
    if k in ('delete_edge', 'remove_edge', 'remove_edge_by_pair'):
        return f'g op {slot} delete_edge {hx(op[1])} {hx(op[2])} {opt(op[3], str)}'
    if k in ('delete_node', 'remove_node'):
        return f'g op {slot} delete_node {hx(op[1])}'
    if k == 'change_edge_type':
        return f'g op {slot} change_edge_type {hx(op[1])} {hx(op[2])} {op[3]}'
    if k == 'replace_edge':
        return (f'g op {slot} replace_edge {hx(op[1])} {hx(op[2])} {hx(op[3])} {hx(op[4])} {opt(op[5], str)} '
                f'{opt_meta(op[6])}')
    if k == 'replace_node':
        # ['replace_node', id, new|None, lag|None, var|None, vt|None|'default', meta|None]
        vt = 'unspecified' if op[5] == 'default' else opt(op[5], vt_token)
        return f'g op {slot} replace_node {hx(op[1])} {opt(op[2])} {opt(op[3], str)} {opt(op[4])} {vt} {opt_meta(op[6])}'
    if k == 'add_time_edge':
        return f'g op {slot} add_time_edge {hx(op[1])} {op[2]} {hx(op[3])} {op[4]} {enc_meta(op[5])} {int(op[6])}'
    if k == 'add_nodes_from':
        return f'g op {slot} add_nodes_from {hxlist(op[1])}'
    if k == 'add_edges_from':
        return f'g op {slot} add_edges_from {hxedges(op[1])} {int(op[2])}'
    if k == 'add_path':
        return f'g op {slot} add_path {hxlist(op[1])} {int(op[2])}'
    if k == 'add_paths':
        return f'g op {slot} add_paths {hxlistlist(op[1])}'
    if k == 'add_fully_connected':
        return f'g op {slot} add_fully_connected {hxlist(op[1])} {hxlist(op[2])}'
    if k == 'add_edge_by_pair':
        return f'g op {slot} add_edge {hx(op[1])} {hx(op[2])} {op[3]} {enc_meta(op[4])} {int(op[5])}'
    if k == 'add_edge_obj':
        # add_edge(edge=Edge(Node(s), Node(d), type, meta)) : endpoints are Node objects with default attributes
        return (f'g op {slot} add_edge @{hx(op[1])}:unspecified:_ @{hx(op[2])}:unspecified:_ {op[3]} '
                f'{enc_meta(op[4])} {int(op[5])}')
    raise ValueError(f'unknown op {op!r}')


def _stale_nodes(g):
    """first-seen Node object per identifier (kept across deletion / replacement: such an object is STALE later on)"""
    d = getattr(g, '_verif_stale_nodes', None)
    if d is None:
        d = {}
        try:
            g._verif_stale_nodes = d
        except Exception:  # noqa: BLE001
            pass
    return d


def node_arg(g, name, op, pos):
    """how the caller names an existing node: mostly by identifier, sometimes by the graph's own Node object or by a Node
    object obtained earlier (possibly invalidated since).  Deterministic in the call; the model sees the identifier."""
    if not isinstance(name, str):
        return name
    h = int(hashlib.sha1(repr((op, pos)).encode()).hexdigest(), 16) % 7
    try:
        if h == 0 and g.node_exists(name):
            return g.get_node(name)
        if h == 1 and name in _stale_nodes(g):
            return _stale_nodes(g)[name]
    except Exception:  # noqa: BLE001
        pass
    return name


def apply_op(g, op) -> str:
    """Run the operation on the real graph; reply 'ok' or 'err <ExceptionClass>'."""
    r = _apply_op(g, op)
    try:
        st = _stale_nodes(g)
        for n in g.get_nodes():
            st.setdefault(n.identifier, n)
    except Exception:  # noqa: BLE001
        pass
    return r


def _apply_op(g, op) -> str:
    k = op[0]
    try:
        if k == 'add_node':
            g.add_node(op[1], variable_type=vt_arg(op[2]), meta=op[3] if op[3] else None)
        elif k == 'add_node_obj':
            g.add_node(node=_mk_node(g, op[1], op[3], op[2]))
        elif k == 'ts_add_node':
            g.add_node(op[1], op[2], op[3], variable_type=NodeVariableType(op[4]), meta=op[5] if op[5] else None)
        elif k == 'add_edge':
            g.add_edge(_endpoint(g, op[1]), _endpoint(g, op[2]), edge_type=et_arg(op[3], op),
                       meta=op[4] if op[4] else None, validate=op[5])
        elif k == 'add_edge_by_pair':
            g.add_edge_by_pair((op[1], op[2]), edge_type=et_arg(op[3], op), meta=op[4] if op[4] else None,
                               validate=op[5])
        elif k == 'add_edge_obj':
            from cai_causal_graph.graph_components import Edge
            a, b = _mk_node(g, op[1], None, 'unspecified'), _mk_node(g, op[2], None, 'unspecified')
            try:
                e = g._EdgeCls(a, b, edge_type=EdgeType(op[3]), meta=op[4] if op[4] else None)
            except ValueError:
                # the time-series edge class refuses to build this object; hand over a plain Edge instead
                e = Edge(a, b, edge_type=EdgeType(op[3]), meta=op[4] if op[4] else None)
            g.add_edge(edge=e, validate=op[5])
        elif k == 'delete_edge':
            g.delete_edge(node_arg(g, op[1], op, 1), node_arg(g, op[2], op, 2),
                          edge_type=None if op[3] is None else EdgeType(op[3]))
        elif k == 'remove_edge':
            g.remove_edge(node_arg(g, op[1], op, 1), node_arg(g, op[2], op, 2),
                          edge_type=None if op[3] is None else EdgeType(op[3]))
        elif k == 'remove_edge_by_pair':
            g.remove_edge_by_pair((op[1], op[2]), edge_type=None if op[3] is None else EdgeType(op[3]))
        elif k == 'delete_node':
            g.delete_node(node_arg(g, op[1], op, 1))
        elif k == 'remove_node':
            g.remove_node(node_arg(g, op[1], op, 1))
        elif k == 'change_edge_type':
            g.change_edge_type(node_arg(g, op[1], op, 1), node_arg(g, op[2], op, 2), et_arg(op[3], op))
        elif k == 'replace_edge':
            g.replace_edge(op[1], op[2], op[3], op[4], edge_type=None if op[5] is None else et_arg(op[5], op),
                           meta=op[6])
        elif k == 'replace_node':
            kw = {}
            if op[5] != 'default':
                kw['variable_type'] = None if op[5] is None else vt_arg(op[5])
            if op[6] is not None:
                kw['meta'] = op[6]
            if is_ts(g):
                g.replace_node(op[1], op[2], op[3], op[4], **kw)
            else:
                g.replace_node(op[1], op[2], **kw)
        elif k == 'add_time_edge':
            g.add_time_edge(op[1], op[2], op[3], op[4], meta=op[5] if op[5] else None, validate=op[6])
        elif k == 'add_nodes_from':
            g.add_nodes_from(list(op[1]))
        elif k == 'add_edges_from':
            g.add_edges_from([tuple(p) for p in op[1]], validate=op[2])
        elif k == 'add_path':
            g.add_edges_from_paths(list(op[1]), validate=op[2])
        elif k == 'add_paths':
            g.add_edges_from_paths([list(p) for p in op[1]])
        elif k == 'add_fully_connected':
            g.add_fully_connected_nodes(list(op[1]), list(op[2]))
        else:
            raise ValueError(f'unknown op {op!r}')
        return 'ok'
    except RecursionError:
        raise
    except Exception as e:  # noqa: BLE001 - the class of ANY exception is the observation
        return 'err ' + err_name(e)


# ----------------------------------------------------------------------------------------------------------
# observations
# ----------------------------------------------------------------------------------------------------------

def _join(xs):
    xs = list(xs)
    return ','.join(xs) if xs else '.'


def _pairs(edges):
    return _join(hx(e.source.identifier) + '>' + hx(e.destination.identifier) for e in edges)


def _safe(f):
    try:
        return f()
    except Exception as e:  # noqa: BLE001
        return '!' + err_name(e)


def enc_node(g, n) -> str:
    if is_ts(g):
        var = _safe(lambda: hx(n.variable_name))
        lag = _safe(lambda: str(n.time_lag))
        return f'{hx(n.identifier)}|{n.variable_type.value}|{enc_meta(n.meta, True)}|{var}|{lag}'
    return f'{hx(n.identifier)}|{n.variable_type.value}|{enc_meta(n.meta)}'


def enc_edge(e) -> str:
    return f'{hx(e.source.identifier)}>{hx(e.destination.identifier)}|{ety(e)}|{enc_meta(e.meta)}'


def obs(g) -> str:
    """Every C01 read view through the public API; a reader that raises is part of the observation."""
    try:
        return _obs(g)
    except Exception as e:  # noqa: BLE001
        return '!obs-raised-' + err_name(e)


def _obs(g) -> str:
    names = g.get_node_names()
    parts = ['N:' + _join(enc_node(g, n) for n in g.get_nodes()),
             'E:' + _join(enc_edge(e) for e in g.get_edges()),
             'M:' + enc_meta(g.meta)]
    for n in names:
        parts.append('V' + hx(n) + ':F=' + _pairs(g.get_edges(source=n)) + ';T=' + _pairs(g.get_edges(destination=n))
                     + ';P=' + _safe(lambda: _join(hx(x) for x in sorted(g.get_parents(n))))
                     + ';C=' + _safe(lambda: _join(hx(x) for x in sorted(g.get_children(n))))
                     + ';B=' + _safe(lambda: _join(hx(x) for x in sorted(g.get_neighbors(n)))))
    parts.append('I:' + _join(hx(n.identifier) for n in g.get_inputs()) + ' O:'
                 + _join(hx(n.identifier) for n in g.get_outputs()))
    getters = [g.get_undirected_edges, g.get_directed_edges, g.get_bidirected_edges, g.get_unknown_edges,
               g.get_unknown_directed_edges, g.get_unknown_undirected_edges]
    for t, f in zip(ET_ORDER, getters):
        parts.append('T' + t + ':' + _pairs(f()))
    parts.append('ND:' + _pairs(g.get_nondirected_edges()))
    parts.append('P:' + _join(hx(a) + '>' + hx(b) for a, b in g.get_edge_pairs()))
    x = []
    for a in names:
        for b in names:
            try:
                x.append(ety(g.get_edge(a, b)))
            except Exception:  # noqa: BLE001
                x.append('..')
    parts.append('X:' + ''.join(x))
    # typed forms of the queries and the list-argument form of get_nodes
    q = []
    for a in names:
        for b in names:
            q.append('d' if g.edge_exists(a, b, edge_type=EdgeType.DIRECTED_EDGE)
                     else ('u' if g.edge_exists(a, b, edge_type=EdgeType.UNDIRECTED_EDGE) else '.'))
    parts.append('Q:' + ''.join(q))
    for n in names:
        parts.append('Y' + hx(n) + '=' + _pairs(g.get_edges(destination=n, edge_type=EdgeType.DIRECTED_EDGE)) + '/'
                     + _pairs(g.get_edges(source=n, edge_type=EdgeType.BIDIRECTED_EDGE)))
    parts.append('L:' + _safe(lambda: _join(hx(x.identifier) for x in g.get_nodes(list(reversed(names))))))
    return ' '.join(parts)


def enc_graph(g) -> str:
    """the whole graph as one protocol token (see lean/CG/Driver/GraphCodec.lean)"""
    return (('ts' if is_ts(g) else 'plain') + '/' + _join(enc_node(g, n) for n in g.get_nodes()) + '/'
            + _join(enc_edge(e) for e in g.get_edges()) + '/' + enc_meta(g.meta))


def ts_obs(g) -> str:
    nodes = g.get_nodes()
    lags = sorted({n.time_lag for n in nodes})
    vars_ = g.variables or []
    parts = ['VARS:' + _join(hx(v) for v in vars_)]
    for l in lags:
        parts.append(f'L{l}=' + _join(hx(n.identifier) for n in sorted(g.get_nodes_at_lag(l), key=lambda n: n.identifier)))
    for v in vars_:
        parts.append('W' + hx(v) + '=' + _join(
            hx(n.identifier) for n in sorted(g.get_nodes_for_variable_name(v), key=lambda n: n.identifier)))
    parts.append('MF:' + opt(g.max_forward_lag, str))
    parts.append('MB:' + opt(g.max_backward_lag, str))
    return ' '.join(parts)


# ----------------------------------------------------------------------------------------------------------
# independent reference views (oracle support): recompute every view from the two base lists only
# ----------------------------------------------------------------------------------------------------------

def snapshot(g):
    try:
        return _snapshot(g)
    except Exception as e:  # noqa: BLE001
        return {'nodes': '!' + err_name(e), 'edges': [], 'pc': {}, 'meta': '', 'extra': {}}


def _snapshot(g):
    """Plain-Python value of the whole observable state, for before/after comparisons."""
    nodes = []
    for n in g.get_nodes():
        rec = [n.identifier, n.variable_type.value, cj(n.meta)]
        nodes.append(rec)
    edges = [[e.source.identifier, e.destination.identifier, ety(e), cj(e.meta)] for e in g.get_edges()]
    pc = {n: [sorted(g.get_parents(n)), sorted(g.get_children(n)), sorted(g.get_neighbors(n))] for n in g.get_node_names()}
    extra = {}
    if is_ts(g):
        extra['vars'] = list(g.variables or [])
        extra['lagidx'] = {str(n.identifier): [_safe(lambda: n.time_lag), _safe(lambda: n.variable_name)] for n in g.get_nodes()}
        lags = set()
        for n in g.get_nodes():
            try:
                lags.add(n.time_lag)
            except Exception:  # noqa: BLE001
                pass
        extra['at_lag'] = {str(l): sorted(x.identifier for x in g.get_nodes_at_lag(l)) for l in sorted(lags)}
        extra['for_var'] = {v: sorted(x.identifier for x in g.get_nodes_for_variable_name(v)) for v in extra['vars']}
    extra['empty'] = _safe(g.is_empty)
    return {'nodes': nodes, 'edges': edges, 'pc': pc, 'meta': cj(g.meta), 'extra': extra}


def views_consistent(g):
    try:
        return _views_consistent(g)
    except Exception as e:  # noqa: BLE001
        return [f'a read view raised {err_name(e)}: {e}']


def _views_consistent(g):
    """C01 oracle on the implementation alone: every read view agrees with `g.edges` / `g.nodes`, the documented
    sort orders hold, no unordered pair carries two edges, no self-loop, every endpoint is a node."""
    bad = []
    nodes = g.get_nodes()
    names = [n.identifier for n in nodes]
    if names != sorted(names) or len(set(names)) != len(names):
        bad.append('get_nodes() not strictly sorted by identifier')
    if g.get_node_names() != sorted(names):
        bad.append('get_node_names() differs from sorted node identifiers')
    edges = g.get_edges()
    keys = [(e.source.identifier, e.destination.identifier) for e in edges]
    if keys != sorted(keys) or len(set(keys)) != len(keys):
        bad.append('get_edges() not strictly sorted by (source, destination)')
    unordered = set()
    for s, d in keys:
        if s == d:
            bad.append(f'self-loop stored: {s!r}')
        if frozenset((s, d)) in unordered:
            bad.append(f'two edges between {s!r} and {d!r}')
        unordered.add(frozenset((s, d)))
        if s not in names or d not in names:
            bad.append(f'edge endpoint is not a node: ({s!r}, {d!r})')
    ty = {(e.source.identifier, e.destination.identifier): ety(e) for e in edges}
    for n in names:
        f = [(e.source.identifier, e.destination.identifier) for e in g.get_edges(source=n)]
        if f != [k for k in keys if k[0] == n]:
            bad.append(f'get_edges(source={n!r}) disagrees with get_edges()')
        t = [(e.source.identifier, e.destination.identifier) for e in g.get_edges(destination=n)]
        if t != sorted(k for k in keys if k[1] == n):
            bad.append(f'get_edges(destination={n!r}) disagrees with get_edges() or is not sorted')
        try:
            if sorted(g.get_parents(n)) != sorted(k[0] for k in keys if k[1] == n and ty[k] == '->'):
                bad.append(f'get_parents({n!r}) disagrees with the directed edges into it')
            if sorted(g.get_children(n)) != sorted(k[1] for k in keys if k[0] == n and ty[k] == '->'):
                bad.append(f'get_children({n!r}) disagrees with the directed edges out of it')
            nb = {k[1] for k in keys if k[0] == n} | {k[0] for k in keys if k[1] == n}
            if sorted(g.get_neighbors(n)) != sorted(nb - {n}):
                bad.append(f'get_neighbors({n!r}) disagrees with the edges touching it')
        except Exception as e:  # noqa: BLE001
            bad.append(f'parents/children/neighbors of {n!r} raised {err_name(e)}')
    if [n.identifier for n in g.get_inputs()] != [n for n in names if not any(k[1] == n for k in keys)]:
        bad.append('get_inputs() disagrees with get_edges()')
    if [n.identifier for n in g.get_outputs()] != [n for n in names if not any(k[0] == n for k in keys)]:
        bad.append('get_outputs() disagrees with get_edges()')
    for a in names:
        for b in names:
            ex = g.edge_exists(a, b)
            if ex != ((a, b) in ty):
                bad.append(f'edge_exists({a!r},{b!r}) disagrees with get_edges()')
    bad += _alias_views(g, names, keys, ty)
    return bad


def _alias_views(g, names, keys, ty):
    """the other public spellings of the same views: node-object variants, by-pair forms, indexing, emptiness, and the
    per-node handles (inbound / outbound directed edges, source / sink tests)"""
    bad = []
    if g.is_empty() != (not names and not keys):
        bad.append('is_empty() disagrees with nodes / edges')
    if [n.identifier for n in g.nodes] != names or \
            [(e.source.identifier, e.destination.identifier) for e in g.edges] != keys:
        bad.append('the nodes / edges properties disagree with get_nodes() / get_edges()')
    for n in names:
        try:
            node = g.get_node(n)
            if node.identifier != n or node.get_identifier() != n or g[n] is not node:
                bad.append(f'get_node({n!r}) / graph[{n!r}] do not return the node named {n!r}')
            if sorted(x.identifier for x in g.get_parent_nodes(n)) != sorted(g.get_parents(n)):
                bad.append(f'get_parent_nodes({n!r}) disagrees with get_parents')
            if sorted(x.identifier for x in g.get_children_nodes(n)) != sorted(g.get_children(n)):
                bad.append(f'get_children_nodes({n!r}) disagrees with get_children')
            if sorted(x.identifier for x in g.get_neighbor_nodes(n)) != sorted(g.get_neighbors(n)):
                bad.append(f'get_neighbor_nodes({n!r}) disagrees with get_neighbors')
            inb = sorted((e.source.identifier, e.destination.identifier) for e in node.get_inbound_edges())
            outb = sorted((e.source.identifier, e.destination.identifier) for e in node.get_outbound_edges())
            if inb != sorted(k for k in keys if k[1] == n and ty[k] == '->'):
                bad.append(f'node {n!r}: get_inbound_edges() are not the directed edges into it')
            if outb != sorted(k for k in keys if k[0] == n and ty[k] == '->'):
                bad.append(f'node {n!r}: get_outbound_edges() are not the directed edges out of it')
            if node.count_inbound_edges() != len(inb) or node.count_outbound_edges() != len(outb) or \
                    node.is_source_node() != (not inb) or node.is_sink_node() != (not outb):
                bad.append(f'node {n!r}: edge counts / source / sink tests disagree with its directed edges')
        except Exception as e:  # noqa: BLE001
            bad.append(f'a node-level view of {n!r} raised {err_name(e)}')
    for a in names[:6]:
        for b in names[:6]:
            try:
                byp = g.is_edge_by_pair((a, b))
                if byp != ((a, b) in ty):
                    bad.append(f'is_edge_by_pair(({a!r},{b!r})) disagrees with get_edges()')
                if byp:
                    e = g.get_edge_by_pair((a, b))
                    if e is not g.get_edge(a, b) or g[a, b] is not e or e.get_edge_pair() != (a, b) or \
                            ety(e) != ty[(a, b)]:
                        bad.append(f'get_edge_by_pair / graph[a, b] / get_edge disagree for ({a!r},{b!r})')
            except Exception as e:  # noqa: BLE001
                bad.append(f'a by-pair view of ({a!r},{b!r}) raised {err_name(e)}')
    # typed look-ups: get_edge(a, b, edge_type=t) hands out the edge exactly for its own type and raises
    # EdgeDoesNotExistError for every other type; edge_exists / get_edges filter by type the same way
    from cai_causal_graph.exceptions import CausalGraphErrors as _E
    for (a, b) in keys[:8]:
        for t in ('->', '--', '<>', 'oo', 'o>', 'o-'):
            try:
                for form in (EdgeType(t), t):
                    try:
                        e = g.get_edge(a, b, edge_type=form)
                        got = True
                    except _E.EdgeDoesNotExistError:
                        got = False
                    if got != (ty[(a, b)] == t) or (got and e is not g.get_edge(a, b)):
                        bad.append(f'get_edge({a!r},{b!r}, edge_type={form!r}) on a stored {ty[(a, b)]} edge: '
                                   f'{"returned an edge" if got else "EdgeDoesNotExistError"}')
                    if g.edge_exists(a, b, edge_type=form) != (ty[(a, b)] == t):
                        bad.append(f'edge_exists({a!r},{b!r}, edge_type={form!r}) wrong on a stored {ty[(a, b)]} edge')
            except Exception as e:  # noqa: BLE001
                bad.append(f'a typed look-up of ({a!r},{b!r}) raised {err_name(e)}')
    for t in ('->', '--', '<>', 'oo', 'o>', 'o-'):
        try:
            sel = [(e.source.identifier, e.destination.identifier) for e in g.get_edges(edge_type=EdgeType(t))]
            if sel != [k for k in keys if ty[k] == t]:
                bad.append(f'get_edges(edge_type={t!r}) disagrees with get_edges()')
        except Exception as e:  # noqa: BLE001
            bad.append(f'get_edges(edge_type={t!r}) raised {err_name(e)}')
    return bad
