import argparse
import os
import sys

from harness import core


def main():
    ap = argparse.ArgumentParser()
    ap.add_argument('prop')
    ap.add_argument('--tier', default=os.environ.get('VERIF_TIER', 'quick'), choices=['quick', 'thorough'])
    ap.add_argument('--replay', default=None)
    ap.add_argument('--jobs', type=int, default=None)
    a = ap.parse_args()
    seed = int(os.environ.get('VERIF_SEED', '0') or 0)
    try:
        rc = core.run_check(a.prop.upper(), a.tier, seed, replay=a.replay, jobs=a.jobs)
    except core.MachineryError as e:
        print('MACHINERY: ' + str(e), file=sys.stderr)
        rc = 2
    except Exception:  # noqa: BLE001 - an unexpected crash of the machinery is never reported as a violation
        import traceback
        traceback.print_exc()
        print('MACHINERY: unexpected exception in the harness', file=sys.stderr)
        rc = 2
    sys.exit(rc)


if __name__ == '__main__':
    main()
