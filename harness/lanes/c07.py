"""
C07 lane: equality of graphs / skeletons / nodes / edges.

Correspondence: every comparison the implementation answers (`__eq__` shallow and deep in both argument orders,
`==`, `!=`, the same on the two skeletons, on nodes and on edges) is sent to the Lean transcription
(`lean/CG/Model/Eq.lean`, handler token `eq`) and must get the same answer (`1`, `0` or `err <Class>`).

Oracle (implementation alone, independent of the model): the right-hand sides of `CG.C07.graphEq_iff` /
`CG.C07.deep_iff` computed from `g.nodes` / `g.edges` by a few lines of Python, plus reflexivity, symmetry,
transitivity (triples), `!=` is the negation of `==`, nothing raises, deep implies shallow.
"""
import hashlib
import itertools
import json

from harness import impl
from harness.core import LaneBase, hx

from cai_causal_graph.graph_components import TimeSeriesNode  # noqa: E402  (path set up by harness.impl)
from cai_causal_graph.type_definitions import EdgeType, NodeVariableType  # noqa: E402

SYM = ('--', '<>', 'oo')
ASYM = ('->', 'o>', 'o-')
TYPES = ['->', '--', '<>', 'oo', 'o>', 'o-']
VTYPES = ['unspecified', 'continuous', 'binary', 'multiclass', 'ordinal']
# metadata values: distinct values have distinct canonical JSON and are unequal in Python (no 1 / 1.0 / True mix)
METAS = [{}, {}, {}, {'k': 1}, {'k': 2}, {'color': 'red', 'w': [1, 2]}, {'a': {'b': [1, {'c': None}]}}, {'é': 'ü'},
         {'time_lag': 5}, {'variable_name': 'Q', 'z': 'y'}]


def ts_name(var, lag):
    if lag == 0:
        return var
    return f'{var} future(n={lag})' if lag > 0 else f'{var} lag(n={-lag})'


# names valid in both classes, with their (variable, lag); several contemporaneous ones so that both orientations
# of an edge exist in the time-series class
TS_POOL = [(v, l) for v in ('X', 'Y', 'Z') for l in (0, -1)] + [('a b', 0), ('X', 1), ('W', 0), ('Y', -2),
                                                                   ('é"q', 0), ('a\\b', -1)]
LAG = {ts_name(v, l): l for v, l in TS_POOL}
TSN = list(LAG)
PLAIN_ONLY = ['a', 'b', 'c', 'x y', 'é', 'a\nb', '', 'lag']


# ----------------------------------------------------------------------------------------------------------
# specs -> real graphs
# ----------------------------------------------------------------------------------------------------------

def build(spec):
    """spec = {'cls', 'nodes': [[id, vtype, meta]…] (construction order), 'edges': [[s, d, type, meta]…]}"""
    g = impl.new_graph(spec['cls'])
    attrs = {n: (vt, meta) for n, vt, meta in spec['nodes']}
    if not spec.get('implicit'):
        for n, vt, meta in spec['nodes']:
            g.add_node(n, variable_type=NodeVariableType(vt), meta=dict(meta) if meta else None)
    for s, d, ty, meta in spec['edges']:
        if spec.get('implicit'):
            # end points that do not exist yet arrive as Node objects carrying their attributes (the graph stores its own
            # node; the caller's object is not part of the graph)
            s, d = [x if g.node_exists(x) else impl._mk_node(g, x, dict(attrs[x][1]) or None, attrs[x][0]) for x in (s, d)]
        g.add_edge(s, d, edge_type=EdgeType(ty), meta=dict(meta) if meta else None, validate=False)
    if spec.get('implicit'):
        for n, vt, meta in spec['nodes']:
            if not g.node_exists(n):
                g.add_node(n, variable_type=NodeVariableType(vt), meta=dict(meta) if meta else None)
    # "the answer never depends on construction order": half of the acyclic operands reach the comparison after a sequence
    # of calls that is the identity by the reference semantics (refused calls, things that come and go, a rename there and
    # back, a retype there and back -- harness.gen.stress, proved to be the identity for the model in CG.C01 detour laws);
    # the builder compares the full shape before and after, what it notices reaches this lane's oracle
    if _acyclic_spec(spec):
        from harness import gen as _gen
        _gen.stress(g, ('c07-build', spec['cls'], len(spec['nodes']), repr(spec['edges'])[:200]))
    return g


def _acyclic_spec(spec):
    succ = {}
    for s, d, ty, _ in spec['edges']:
        if ty == '->':
            succ.setdefault(s, []).append(d)
    state = {}

    def visit(x):
        if state.get(x) == 1:
            return False
        if state.get(x) == 2:
            return True
        state[x] = 1
        ok = all(visit(y) for y in succ.get(x, []))
        state[x] = 2
        return ok
    return all(visit(x) for x in list(succ))


def apply_late(g, spec):
    """edits made through handles / in-place replace AFTER the graph has been built and queried (its skeleton views
    read, its caches warm): equality must see the current attributes"""
    if not spec.get('late'):
        return
    for f in (lambda: g.skeleton.nodes, lambda: g.skeleton.edges, lambda: g.skeleton == g.skeleton,
              lambda: g.skeleton.__eq__(g.skeleton, deep=True), lambda: g == g, lambda: g.__eq__(g, deep=True)):
        try:
            f()
        except Exception:  # noqa: BLE001
            pass
    for op in spec['late']:
        if op[0] != 'emeta' and not g.node_exists(op[1]):
            continue                    # (a later edit of the spec dropped the target)
        if op[0] == 'emeta':
            ends = [(a, b) for a, b in ((op[1], op[2]), (op[2], op[1])) if g.node_exists(a) and g.node_exists(b)
                    and g.edge_exists(a, b)]
            if ends:
                g.get_edge(*ends[0]).meta[op[3]] = op[4]
            continue
        if op[0] == 'vt':
            g.get_node(op[1]).variable_type = NodeVariableType(op[2])
        elif op[0] == 'nmeta':
            g.get_node(op[1]).meta[op[2]] = op[3]
        elif op[0] == 'replace_inplace':
            if op[3] is None:
                g.replace_node(op[1], meta=dict(op[2]))
            else:
                g.replace_node(op[1], meta=dict(op[2]), variable_type=NodeVariableType(op[3]))


def ok_edge(cls, s, d, ty):
    """can `add_edge(s, d, ty)` be executed in this class (a directed time-series edge must respect time)"""
    return not (cls == 'ts' and ty == '->' and LAG[s] > LAG[d])


def rand_spec(rng, cls, n=None, p=0.55, names=None, metas=True):
    if names is None:
        pool = TSN if (cls == 'ts' or rng.random() < 0.6) else PLAIN_ONLY + TSN[:3]
        n = rng.choice([0, 1, 2, 2, 3, 3, 4, 4, 5]) if n is None else n
        names = rng.sample(pool, min(n, len(pool)))
    m = (lambda: dict(rng.choice(METAS))) if metas else (lambda: {})
    nodes = [[x, rng.choice(VTYPES) if metas else 'unspecified', m()] for x in names]
    edges = []
    for a, b in itertools.combinations(names, 2):
        if rng.random() < p:
            ty = rng.choice(TYPES)
            s, d = (a, b) if rng.random() < 0.5 else (b, a)
            if not ok_edge(cls, s, d, ty):
                s, d = d, s
            edges.append([s, d, ty, m()])
    rng.shuffle(edges)
    spec = {'cls': cls, 'nodes': nodes, 'edges': edges}
    if rng.random() < 0.25:
        spec['implicit'] = True
    return spec


EDITS = ['identity', 'permute', 'flip_sym', 'flip_asym', 'change_type', 'drop_node', 'add_node', 'drop_edge',
         'add_edge', 'move_edge', 'change_vtype', 'node_meta', 'edge_meta', 'change_class', 'change_class_reserved',
         'late_vt', 'late_node_meta', 'late_edge_meta', 'late_replace']


def _copy(spec):
    return json.loads(json.dumps(spec))


def apply_edit(rng, spec, edit):
    """returns (new spec, tag) — the tag says whether the edit could be applied"""
    s = _copy(spec)
    cls = s['cls']
    names = [n[0] for n in s['nodes']]
    if edit == 'identity':
        return s, edit
    if edit == 'permute':
        rng.shuffle(s['nodes'])
        rng.shuffle(s['edges'])
        return s, edit
    if edit in ('flip_sym', 'flip_asym'):
        want = SYM if edit == 'flip_sym' else ASYM
        c = [e for e in s['edges'] if e[2] in want and ok_edge(cls, e[1], e[0], e[2])]
        # in the time-series class prefer contemporaneous edges (the constructor undoes any other flip)
        c2 = [e for e in c if cls != 'ts' or LAG[e[0]] == LAG[e[1]]] or c
        if not c2:
            return s, edit + ':none'
        e = rng.choice(c2)
        e[0], e[1] = e[1], e[0]
        return s, edit
    if edit == 'change_type':
        if not s['edges']:
            return s, edit + ':none'
        e = rng.choice(s['edges'])
        c = [t for t in TYPES if t != e[2] and ok_edge(cls, e[0], e[1], t)]
        e[2] = rng.choice(c)
        return s, edit
    if edit == 'drop_node':
        if not names:
            return s, edit + ':none'
        x = rng.choice(names)
        s['nodes'] = [n for n in s['nodes'] if n[0] != x]
        s['edges'] = [e for e in s['edges'] if x not in (e[0], e[1])]
        return s, edit
    if edit == 'add_node':
        pool = [x for x in (TSN if cls == 'ts' else TSN + PLAIN_ONLY) if x not in names]
        s['nodes'].append([rng.choice(pool), rng.choice(VTYPES), dict(rng.choice(METAS))])
        return s, edit
    if edit == 'drop_edge':
        if not s['edges']:
            return s, edit + ':none'
        s['edges'].remove(rng.choice(s['edges']))
        return s, edit
    if edit in ('add_edge', 'move_edge'):
        used = {frozenset((e[0], e[1])) for e in s['edges']}
        free = [(a, b) for a, b in itertools.permutations(names, 2) if frozenset((a, b)) not in used]
        if not free or (edit == 'move_edge' and not s['edges']):
            return s, edit + ':none'
        a, b = rng.choice(free)
        if edit == 'move_edge':
            old = rng.choice(s['edges'])
            s['edges'].remove(old)
            ty, m = old[2], old[3]
        else:
            ty, m = rng.choice(TYPES), dict(rng.choice(METAS))
        if not ok_edge(cls, a, b, ty):
            a, b = b, a
        s['edges'].append([a, b, ty, m])
        return s, edit
    if edit == 'change_vtype':
        if not names:
            return s, edit + ':none'
        n = rng.choice(s['nodes'])
        n[1] = rng.choice([v for v in VTYPES if v != n[1]])
        return s, edit
    if edit == 'node_meta':
        if not names:
            return s, edit + ':none'
        n = rng.choice(s['nodes'])
        n[2] = dict(n[2], k=3) if n[2].get('k') != 3 else {}
        return s, edit
    if edit == 'edge_meta':
        if not s['edges']:
            return s, edit + ':none'
        e = rng.choice(s['edges'])
        e[3] = dict(e[3], k=3) if e[3].get('k') != 3 else {}
        return s, edit
    if edit in ('late_vt', 'late_node_meta', 'late_replace'):
        if not names:
            return s, edit + ':none'
        n = rng.choice(s['nodes'])
        late = s.setdefault('late', [])
        if edit == 'late_vt':
            late.append(['vt', n[0], rng.choice(VTYPES)])
        elif edit == 'late_node_meta':
            late.append(['nmeta', n[0], rng.choice(['k', 'late']), rng.choice([1, 3, [1, 2]])])
        else:
            # in-place replace: the caller's metadata wholesale (it may carry the reserved time-series entries of another
            # node), sometimes exactly the metadata the node already has
            m = dict(n[2]) if rng.random() < 0.3 else dict(rng.choice(METAS))
            late.append(['replace_inplace', n[0], m, rng.choice(VTYPES + [None, None])])
        return s, edit
    if edit == 'late_edge_meta':
        if not s['edges']:
            return s, edit + ':none'
        e = rng.choice(s['edges'])
        s.setdefault('late', []).append(['emeta', e[0], e[1], 'k', rng.choice([1, 3, 'x'])])
        return s, edit
    if edit in ('change_class', 'change_class_reserved'):
        if cls == 'ts':
            s['cls'] = 'plain'
        elif all(x in LAG for x in names) and all(ok_edge('ts', e[0], e[1], e[2]) for e in s['edges']):
            s['cls'] = 'ts'
        else:
            return s, edit + ':none'
        if edit == 'change_class_reserved':
            # the plain graph's nodes carry exactly the reserved entries a time-series node holds
            t = s if s['cls'] == 'plain' else None
            if t is None:
                return s, edit + ':to-ts'
            for n in t['nodes']:
                v = [v for v, l in TS_POOL if ts_name(v, l) == n[0]][0]
                n[2] = dict({k: w for k, w in n[2].items() if k not in impl.TS_KEYS}, variable_name=v,
                            time_lag=LAG[n[0]])
        return s, edit
    raise ValueError(edit)


# ----------------------------------------------------------------------------------------------------------
# exhaustive families (thorough tier)
# ----------------------------------------------------------------------------------------------------------

SLOT_OPTS = [None] + [(o, t) for t in TYPES for o in (0, 1)]      # 13 options per unordered pair


def slots_spec(cls, names, choice):
    pairs = list(itertools.combinations(range(len(names)), 2))
    edges = []
    for (i, j), c in zip(pairs, choice):
        if c is None:
            continue
        o, t = c
        s, d = (names[i], names[j]) if o == 0 else (names[j], names[i])
        if not ok_edge(cls, s, d, t):
            return None
        edges.append([s, d, t, {}])
    return {'cls': cls, 'nodes': [[x, 'unspecified', {}] for x in names], 'edges': edges}


# ----------------------------------------------------------------------------------------------------------
# encoders for node / edge objects
# ----------------------------------------------------------------------------------------------------------

def node_cls_item(n):
    if isinstance(n, TimeSeriesNode):
        return 'ts', (f'{hx(n.identifier)}|{n.variable_type.value}|{impl.enc_meta(n.meta, True)}|'
                      f'{hx(n.variable_name)}|{n.time_lag}')
    return 'plain', f'{hx(n.identifier)}|{n.variable_type.value}|{impl.enc_meta(n.meta)}'


def edge_item(e):
    c, s = node_cls_item(e.source)
    c2, d = node_cls_item(e.destination)
    assert c == c2
    return f'{c};{s};{d};{impl.ety(e)};{impl.enc_meta(e.meta)}'


def ans(f):
    """canonical reply of a comparison: 1 / 0 / err <Class>"""
    try:
        r = f()
    except RecursionError:
        raise
    except Exception as e:  # noqa: BLE001
        return 'err ' + type(e).__name__
    if r is True:
        return '1'
    if r is False:
        return '0'
    return 'notbool ' + repr(r)[:40]


# ----------------------------------------------------------------------------------------------------------
# the oracle: right-hand sides of graphEq_iff / deep_iff over g.nodes / g.edges
# ----------------------------------------------------------------------------------------------------------

def abstract(g):
    nodes = {n.identifier: (n.variable_type.value, impl.cj(n.meta)) for n in g.nodes}
    edges = {}
    for e in g.edges:
        s, d = e.source.identifier, e.destination.identifier
        edges[frozenset((s, d))] = (s, d, impl.ety(e), impl.cj(e.meta))
    return nodes, edges


def expect_graph(A, B, deep, skeleton=False):
    (na, ea), (nb, eb) = A, B
    if set(na) != set(nb) or set(ea) != set(eb):
        return False
    for k in ea:
        s, d, t, m = ea[k]
        s2, d2, t2, m2 = eb[k]
        if not skeleton:
            if t != t2:
                return False
            if t not in SYM and (s, d) != (s2, d2):
                return False
        if deep and m != m2:
            return False
    if deep and any(na[k] != nb[k] for k in na):
        return False
    return True


def expect_node(a, b, deep):
    """same node class"""
    if a.identifier != b.identifier:
        return False
    return (not deep) or (a.variable_type == b.variable_type and impl.cj(a.meta) == impl.cj(b.meta))


def expect_edge(a, b, deep):
    """same node class, no self-loops"""
    pa = (a.source.identifier, a.destination.identifier)
    pb = (b.source.identifier, b.destination.identifier)
    ta, tb = impl.ety(a), impl.ety(b)
    if ta != tb:
        return False
    if pa == pb:
        ends = [(a.source, b.source), (a.destination, b.destination)]
    elif pa == pb[::-1] and ta in SYM:
        ends = [(a.source, b.destination), (a.destination, b.source)]
    else:
        return False
    if deep:
        return impl.cj(a.meta) == impl.cj(b.meta) and all(expect_node(x, y, True) for x, y in ends)
    return True


class Lane(LaneBase):
    PROP = 'C07'
    THEOREMS = 'auto'
    AUDIT = 'CG/Audit/C07.lean'
    DIFF_IS_FAILURE = False
    EXHAUSTIVE = {'quick': False, 'thorough': False}
    RULE = ('pairs (g, edit(g)) and triples over both classes, edit in {identity, permuted construction order, flip '
            'one symmetric edge, flip one asymmetric edge, change one type, drop/add one node, drop/add/move one '
            'edge, change one variable type, change one node / edge metadata value, change the graph class (with '
            'and without the reserved metadata entries), edits made late through node / edge handles or an in-place '
            'replace_node after the skeleton views and caches have been read}; thorough adds all 13x13 pairs of mixed graphs on 2 nodes '
            '(both classes; contemporaneous and lagged time-series pair) and all 3-node graphs (13^3) each against '
            '16 (plain) / 8 (time-series) sampled edit-distance <= 2 neighbours. Every comparison (==, !=, __eq__ '
            'shallow/deep both ways; the same on the skeletons, on nodes and on edges) is compared with the model. A case is non-trivial when one of its graphs has an '
            'edge; distinct by the hash of the graph tokens.')
    TRUSTED = ['metadata values are compared as canonical JSON text (json.dumps sort_keys); the pool has no two '
               'values that Python holds equal but prints differently (1 / 1.0 / True)',
               'the graphs compared are the states the public mutators produce (WF); graphs are sent to the model as '
               'whole-state tokens (harness.impl.enc_graph)',
               'Python operator dispatch (`==` runs the reflected method of a subclass instance first) is modelled in '
               'graphEqOp / nodeEqOp, measured on the cross-class pairs']
    PARTIAL = []

    # ------------------------------------------------------------------------------------------------
    def source_obligations(self):
        from harness.srcgen import c07_dontcare
        try:
            try:
                texts = c07_dontcare.dont_care_texts()
            except Exception:  # noqa: BLE001 -- not in the text any more: the table computed by execution (see the extractor)
                texts = c07_dontcare.dont_care_by_execution()[1]
        except Exception as e:  # noqa: BLE001
            return [('the direction-agnostic edge types of Edge.__eq__ can be extracted', False, repr(e))]
        return [('the direction-agnostic edge types of Edge.__eq__ are {--, <>, oo} (pinned by CG.C07.dontCare_eq)',
                 sorted(texts) == sorted(['--', '<>', 'oo']), repr(texts))]

    # ------------------------------------------------------------------------------------------------
    def cases(self, tier, rng):
        n_pairs = 4000 if tier == 'quick' else 30000
        n_triples = 800 if tier == 'quick' else 6000
        for i in range(n_pairs):
            cls = 'ts' if rng.random() < 0.45 else 'plain'
            base = rand_spec(rng, cls)
            edit = EDITS[i % len(EDITS)]
            other, tag = apply_edit(rng, base, edit)
            if rng.random() < 0.25:      # a second edit on top
                e2 = rng.choice(EDITS[:13])
                other, tag2 = apply_edit(rng, other, e2)
                tag = tag + '+' + tag2
            yield {'kind': 'pair', 'graphs': [base, other], 'edit': tag, 'sub': rng.randint(0, 10 ** 9)}
        for i in range(n_triples):
            cls = 'ts' if rng.random() < 0.45 else 'plain'
            a = rand_spec(rng, cls, metas=rng.random() < 0.5)
            # edits that tend to keep equality, so that the hypothesis of transitivity is often met
            keep = ['identity', 'permute', 'flip_sym', 'node_meta', 'edge_meta', 'change_vtype', 'late_replace', 'late_vt']
            b, t1 = apply_edit(rng, a, rng.choice(keep if rng.random() < 0.8 else EDITS[:13]))
            c, t2 = apply_edit(rng, b, rng.choice(keep if rng.random() < 0.8 else EDITS[:13]))
            yield {'kind': 'triple', 'graphs': [a, b, c], 'edit': t1 + '/' + t2, 'sub': rng.randint(0, 10 ** 9)}
        if tier == 'thorough':
            # all pairs of mixed graphs on 2 nodes, both classes (time-series: contemporaneous and lagged pair)
            for cls, names in (('plain', ['a', 'b']), ('ts', ['X', 'Y']), ('ts', ['X lag(n=1)', 'Y'])):
                gs = [s for s in (slots_spec(cls, names, (c,)) for c in SLOT_OPTS) if s is not None]
                for a in gs:
                    for b in gs:
                        yield {'kind': 'pair', 'graphs': [a, b], 'edit': 'all-2-node', 'sub': 0}
            # 3 nodes: every graph against a sample of its neighbours at edit distance <= 2 (slot changes)
            for cls, names in (('plain', ['a', 'b', 'c']), ('ts', ['X', 'Y', 'Z'])):
                for choice in itertools.product(SLOT_OPTS, repeat=3):
                    a = slots_spec(cls, names, choice)
                    for _ in range(16 if cls == 'plain' else 8):
                        ch = list(choice)
                        for k in rng.sample(range(3), rng.choice([1, 2, 2])):
                            ch[k] = rng.choice(SLOT_OPTS)
                        b = slots_spec(cls, names, ch)
                        yield {'kind': 'pair', 'graphs': [a, b], 'edit': 'ed2-3-node', 'sub': rng.randint(0, 10 ** 9)}

    # ------------------------------------------------------------------------------------------------
    def run_case(self, case):
        import random
        rng = random.Random(case.get('sub', 0))
        gs = [build(s) for s in case['graphs']]
        from harness import gen as _gen
        for k, g in enumerate(gs):
            if k != 1:          # one operand is queried heavily first, the other stays fresh: equality must not care
                _gen.query_noise(g, ('c07', k, case.get('sub', 0), len(case['graphs'][k]['nodes'])))
        for g, sp in zip(gs, case['graphs']):
            apply_late(g, sp)
        toks = [impl.enc_graph(g) for g in gs]
        abss = [abstract(g) for g in gs]
        lines, out, oracle = [], [], []

        def both(line, reply):
            lines.append(line)
            out.append(reply)
            return reply

        idx = list(range(len(gs)))
        res = {}
        for i in idx:
            for j in idx:
                if len(gs) == 3 and (i, j) not in ((0, 1), (1, 0), (1, 2), (2, 1), (0, 2), (2, 0), (0, 0)):
                    continue
                G, H = gs[i], gs[j]
                r = {}
                r['s'] = both(f'eq graph {toks[i]} {toks[j]} 0', ans(lambda: G.__eq__(H)))
                r['d'] = both(f'eq graph {toks[i]} {toks[j]} 1', ans(lambda: G.__eq__(H, deep=True)))
                r['op'] = both(f'eq op {toks[i]} {toks[j]}', ans(lambda: G == H))
                r['ne'] = both(f'eq ne {toks[i]} {toks[j]}', ans(lambda: G != H))
                r['ks'] = both(f'eq sk {toks[i]} {toks[j]} 0', ans(lambda: G.skeleton.__eq__(H.skeleton)))
                r['kd'] = both(f'eq sk {toks[i]} {toks[j]} 1', ans(lambda: G.skeleton.__eq__(H.skeleton, deep=True)))
                r['kop'] = ans(lambda: G.skeleton == H.skeleton)
                r['kne'] = both(f'eq skne {toks[i]} {toks[j]}', ans(lambda: G.skeleton != H.skeleton))
                res[(i, j)] = r
                same_cls = case['graphs'][i]['cls'] == case['graphs'][j]['cls']
                what = f'graphs {i},{j} ({case["edit"]})'
                for k, v in r.items():
                    if v not in ('0', '1'):
                        oracle.append(f'{what}: comparison {k} did not answer a bool: {v}')
                if r['ne'] in ('0', '1') and r['op'] in ('0', '1') and r['ne'] == r['op']:
                    oracle.append(f'{what}: != is not the negation of == (== {r["op"]}, != {r["ne"]})')
                if r['kne'] in ('0', '1') and r['kop'] in ('0', '1') and r['kne'] == r['kop']:
                    oracle.append(f'{what}: skeleton != is not the negation of skeleton ==')
                if same_cls:
                    for key, deep, sk in (('s', False, False), ('d', True, False), ('ks', False, True),
                                          ('kd', True, True)):
                        exp = '1' if expect_graph(abss[i], abss[j], deep, sk) else '0'
                        if r[key] != exp:
                            oracle.append(f'{what}: {"skeleton " if sk else ""}__eq__(deep={deep}) answered {r[key]}, '
                                          f'the structural characterisation says {exp}')
                    if r['op'] != r['s']:
                        oracle.append(f'{what}: == ({r["op"]}) differs from __eq__ ({r["s"]})')
                    if r['kop'] != r['ks']:
                        oracle.append(f'{what}: skeleton == ({r["kop"]}) differs from __eq__ ({r["ks"]})')
                    if r['d'] == '1' and r['s'] != '1':
                        oracle.append(f'{what}: deep equality without shallow equality')
                    if r['kd'] == '1' and r['ks'] != '1':
                        oracle.append(f'{what}: skeleton deep equality without shallow equality')
                else:
                    if r['op'] != '0' or r['ne'] != '1':
                        oracle.append(f'{what}: graphs of different classes compare == {r["op"]}, != {r["ne"]}')
        # derived graphs are graphs: the ancestral / descendant sub-graph of a node is deeply equal to the same sub-graph
        # built by hand (same nodes WITH their variable types and metadata, same edges with their metadata), copies too
        sp0 = case['graphs'][0]
        if not sp0.get('late') and sp0['edges'] and _acyclic_spec(sp0) and all(t == '->' for _, _, t, _ in sp0['edges']):
            G = gs[0]
            names0 = [n for n, _, _ in sp0['nodes']]
            piv = names0[case.get('sub', 0) % len(names0)]
            for kind in ('anc', 'desc'):
                keep = {piv}
                grew = True
                while grew:
                    grew = False
                    for s_, d_, _, _ in sp0['edges']:
                        a_, b_ = (s_, d_) if kind == 'anc' else (d_, s_)
                        if b_ in keep and a_ not in keep:
                            keep.add(a_)
                            grew = True
                sub_spec = {'cls': sp0['cls'], 'nodes': [x for x in sp0['nodes'] if x[0] in keep],
                            'edges': [e for e in sp0['edges'] if e[0] in keep and e[1] in keep]}
                try:
                    H = build(dict(sub_spec, edges=[]))      # (no detours on the reference operand)
                    for s_, d_, ty_, m_ in sub_spec['edges']:
                        H.add_edge(s_, d_, edge_type=EdgeType(ty_), meta=dict(m_) if m_ else None, validate=False)
                    D = G.get_ancestral_graph(piv) if kind == 'anc' else G.get_descendant_graph(piv)
                    tD, tH = impl.enc_graph(D), impl.enc_graph(H)
                    for deep in (0, 1):
                        v = both(f'eq graph {tD} {tH} {deep}', ans(lambda: D.__eq__(H, deep=bool(deep))))
                        if v != '1':
                            oracle.append(f'the {"ancestral" if kind == "anc" else "descendant"} sub-graph of {piv!r} is not '
                                          f'{"deeply " if deep else ""}equal to the same sub-graph built by hand ({v})')
                    C = G.copy()
                    if ans(lambda: C.__eq__(G, deep=True)) != '1' or ans(lambda: G.__eq__(C, deep=True)) != '1':
                        oracle.append('copy() is not deeply equal to the graph')
                except Exception as e:  # noqa: BLE001
                    oracle.append(f'derived-graph comparison raised {type(e).__name__}: {e}')
        # reflexivity, symmetry, transitivity (same class)
        for i in idx:
            G = gs[i]
            for name, f in (('==', lambda: G == G), ('deep', lambda: G.__eq__(G, deep=True)),
                            ('skeleton ==', lambda: G.skeleton == G.skeleton),
                            ('skeleton deep', lambda: G.skeleton.__eq__(G.skeleton, deep=True))):
                v = ans(f)
                if v != '1':
                    oracle.append(f'graph {i}: {name} is not reflexive ({v})')
        for (i, j), r in res.items():
            if (j, i) in res and case['graphs'][i]['cls'] == case['graphs'][j]['cls']:
                for k in ('s', 'd', 'op', 'ks', 'kd'):
                    if r[k] != res[(j, i)][k]:
                        oracle.append(f'graphs {i},{j}: comparison {k} is not symmetric ({r[k]} vs {res[(j, i)][k]})')
        if len(gs) == 3 and len({s['cls'] for s in case['graphs']}) == 1:
            for k in ('s', 'd', 'ks', 'kd'):
                if res[(0, 1)][k] == '1' and res[(1, 2)][k] == '1' and res[(0, 2)][k] != '1':
                    oracle.append(f'comparison {k} is not transitive: 0~1, 1~2 but 0~2 answered {res[(0, 2)][k]}')

        # ---- node and edge objects (first two graphs) ------------------------------------------------
        G, H = gs[0], gs[1]
        hn = {n.identifier: n for n in H.nodes}
        npairs = []
        for n in G.nodes:
            if n.identifier in hn:
                npairs.append((n, hn[n.identifier]))
        allh = list(H.nodes)
        for n in G.nodes[:3]:
            if allh:
                npairs.append((n, rng.choice(allh)))
        for a, b in npairs[:8]:
            for x, y in ((a, b), (b, a)):
                cx, ix = node_cls_item(x)
                cy, iy = node_cls_item(y)
                rs = both(f'eq node {cx} {ix} {cy} {iy} 0', ans(lambda: x.__eq__(y)))
                rd = both(f'eq node {cx} {ix} {cy} {iy} 1', ans(lambda: x.__eq__(y, deep=True)))
                ro = both(f'eq nodeop {cx} {ix} {cy} {iy}', ans(lambda: x == y))
                rn = both(f'eq nodene {cx} {ix} {cy} {iy}', ans(lambda: x != y))
                what = f'nodes {x.identifier!r},{y.identifier!r}'
                if {rs, rd, ro, rn} - {'0', '1'}:
                    oracle.append(f'{what}: a node comparison did not answer a bool')
                elif ro == rn:
                    oracle.append(f'{what}: node != is not the negation of ==')
                elif cx == cy:
                    if rs != ('1' if expect_node(x, y, False) else '0') or ro != rs:
                        oracle.append(f'{what}: node __eq__ answered {rs} / == {ro}')
                    if rd != ('1' if expect_node(x, y, True) else '0'):
                        oracle.append(f'{what}: node __eq__(deep=True) answered {rd}')
            if node_cls_item(a)[0] == node_cls_item(b)[0]:
                if ans(lambda: a.__eq__(b)) != ans(lambda: b.__eq__(a)) or \
                        ans(lambda: a.__eq__(b, deep=True)) != ans(lambda: b.__eq__(a, deep=True)):
                    oracle.append(f'nodes {a.identifier!r},{b.identifier!r}: comparison is not symmetric')
        he = {frozenset((e.source.identifier, e.destination.identifier)): e for e in H.edges}
        epairs = []
        ge_all = list(G.edges) + list(G.skeleton.edges)[:2]
        he_all = list(H.edges) + list(H.skeleton.edges)[:2]
        for e in G.edges:
            k = frozenset((e.source.identifier, e.destination.identifier))
            if k in he:
                epairs.append((e, he[k]))
        for e in ge_all[:4]:
            if he_all:
                epairs.append((e, rng.choice(he_all)))
        for a, b in epairs[:8]:
            for x, y in ((a, b), (b, a)):
                ix, iy = edge_item(x), edge_item(y)
                rs = both(f'eq edge {ix} {iy} 0', ans(lambda: x.__eq__(y)))
                rd = both(f'eq edge {ix} {iy} 1', ans(lambda: x.__eq__(y, deep=True)))
                rn = both(f'eq edgene {ix} {iy}', ans(lambda: x != y))
                ro = ans(lambda: x == y)
                what = f'edges {x.identifier!r},{y.identifier!r}'
                if {rs, rd, ro, rn} - {'0', '1'}:
                    oracle.append(f'{what}: an edge comparison did not answer a bool')
                elif ro == rn:
                    oracle.append(f'{what}: edge != is not the negation of ==')
                elif ix.split(';')[0] == iy.split(';')[0]:
                    if rs != ('1' if expect_edge(x, y, False) else '0') or ro != rs:
                        oracle.append(f'{what}: edge __eq__ answered {rs} / == {ro}')
                    if rd != ('1' if expect_edge(x, y, True) else '0'):
                        oracle.append(f'{what}: edge __eq__(deep=True) answered {rd}')
            if edge_item(a).split(';')[0] == edge_item(b).split(';')[0]:
                if ans(lambda: a.__eq__(b)) != ans(lambda: b.__eq__(a)) or \
                        ans(lambda: a.__eq__(b, deep=True)) != ans(lambda: b.__eq__(a, deep=True)):
                    oracle.append(f'edges {a.identifier!r},{b.identifier!r}: comparison is not symmetric')

        key = hashlib.sha1('\n'.join(toks).encode()).hexdigest()
        tags = {'edit:' + t for t in case['edit'].replace('/', '+').split('+')}
        tags.add('cls:' + '/'.join(s['cls'] for s in case['graphs']))
        tags.add(case['kind'])
        r01 = res.get((0, 1), {})
        tags.add('shallow=' + r01.get('s', '?') + ',deep=' + r01.get('d', '?'))
        return {'lines': lines, 'impl': out, 'oracle': oracle[:5],
                'nontrivial': any(len(g.edges) > 0 for g in gs), 'key': key, 'tags': sorted(tags)}

    def signature(self, case, failure):
        # identity of a failure = its text without the case-specific prefix (`graphs i,j (edit): …`)
        return 'C07:' + hashlib.sha1(failure.split(': ', 1)[-1].encode()).hexdigest()[:12]

    def describe(self, case):
        return {'kind': case['kind'], 'edit': case['edit'],
                'graphs': [{'cls': s['cls'], 'nodes': [n[0] for n in s['nodes']],
                            'edges': [f'{e[0]} {e[2]} {e[1]}' for e in s['edges']]} for s in case['graphs']]}
