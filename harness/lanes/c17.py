"""C17 lane: the summary graph has one node per variable and an edge per causal link.

Model side: `ts summary <graph>` (CG.TS.summaryGraph — the code after the repair of D11: skip self-links; opposite
orientation present => that edge becomes bidirected (remove + add with validate=False); otherwise add with
validate=False when absent; floating variables from the parsed node names).

Known finding D11 (until the `fix:` commit): on the unrepaired tree `get_summary_graph` raises on feedback
(`ReverseEdgeExistsError`, signature 'C17-D11-summary-feedback') and on longer variable-level cycles
(`CyclicConnectionError`, 'C17-D11-summary-cycle'); the repair first trialled in notes/candidate_repairs.patch still
raised `CyclicConnectionError` for feedback at a variable already on a directed summary cycle
('C17-D11-summary-feedback-on-cycle').  On the repaired tree none of the three may fire.
"""
from harness import histories, impl, tsgen           # impl puts the repository on sys.path
from harness.core import LaneBase
from harness.tsgen import fmt

from cai_causal_graph import CausalGraph  # noqa: E402


def random_lagged_dag(rng, vars_, lo, hi, n_edges):
    """directed edges forward in time or contemporaneous along a per-lag random order: always acyclic"""
    orders = {}
    edges = set()
    for _ in range(n_edges * 3):
        if len(edges) >= n_edges:
            break
        s, d = rng.choice(vars_), rng.choice(vars_)
        dl = rng.randint(lo, hi)
        delta = min(tsgen.pick_delta(rng), dl - lo + rng.choice([0, 0, 1]))
        sl = dl - delta
        if delta == 0:
            if s == d:
                continue
            o = orders.setdefault(dl, rng.sample(vars_, len(vars_)))
            if o.index(s) > o.index(d):
                s, d = d, s
        edges.add((s, sl, d, dl))
    return sorted(edges)


def gen_c17(rng):
    x = rng.random()
    vars_ = tsgen.pick_vars(rng, 2, 4)
    if len(vars_) < 2:
        vars_ = ['X', 'Y']
    vinfo = tsgen.var_info(rng, vars_)
    lo, hi = -rng.randint(1, 3), rng.choice([0, 0, 1])
    kind = 'random-dag'
    edges = random_lagged_dag(rng, vars_, lo, hi, rng.randint(0, 6))
    if x < 0.25:
        kind = 'feedback'
        a, b = rng.sample(vars_, 2)
        k1, k2 = rng.randint(1, 2), rng.randint(1, 2)
        edges += [(a, -k1, b, 0), (b, -k2, a, 0)]
        if rng.random() < 0.4:                      # X(t-1)->Y(t-1) with Y->X: feedback without any lagged edge
            edges = [(a, -1, b, -1), (b, 0, a, 0)] + edges[: rng.randint(0, 3)]
    elif x < 0.42:
        kind = 'cycle'
        cyc = rng.sample(vars_, len(vars_)) if len(vars_) >= 3 else (vars_ + ['C3'])
        if 'C3' in cyc:
            vinfo['C3'] = ('binary', {})
        k = rng.randint(3, len(cyc))
        edges += [(cyc[i], -rng.randint(1, 2), cyc[(i + 1) % k], 0) for i in range(k)]
    elif x < 0.62:
        # feedback at a variable that already lies on a directed variable-level cycle, in every processing order
        kind = 'feedback-on-cycle'
        names = rng.sample(['P', 'Q', 'X', 'Y', 'A', 'my var', 'B 2'], 4)
        for v in names:
            vinfo.setdefault(v, (rng.choice(tsgen.VTYPES), {}))
        y, p, q, xx = names
        edges = [(y, -1, p, 0), (p, -1, q, 0), (q, -rng.randint(1, 2), y, 0), (xx, -1, y, 0), (y, -rng.randint(1, 2), xx, 0)]
        if rng.random() < 0.5:
            edges.append((xx, -2, q, 0))
        vars_ = sorted(set(vars_) | set(names))
    edges = sorted(set(edges))
    insts = [(s, sl, d, dl, '->', rng.choice([{}, {'m': [s, d, dl - sl]}])) for s, sl, d, dl in edges]
    floating = []
    if rng.random() < 0.6:
        # floating variables present only at non-zero lags
        fv = rng.choice(['F', 'float v', 'G'])
        vinfo[fv] = (rng.choice(tsgen.VTYPES), dict(rng.choice(tsgen.NODE_METAS)))
        k = rng.choice([-3, -2, -1, 1, 2])
        floating.append((fv, k))
        if rng.random() < 0.3:
            floating.append((fv, k - 1))
    if rng.random() < 0.3:
        floating.append((rng.choice(vars_), rng.randint(lo - 1, hi + 1)))
    mode = rng.random()
    ops = tsgen.build_ops(rng, insts, vinfo, floating, explicit_nodes=mode >= 0.1, per_node_attrs=mode > 0.85)
    case = {'kind': kind, 'gmeta': rng.choice(tsgen.GRAPH_METAS), 'ops': ops}
    y = rng.random()
    if y < 0.06:
        # not a DAG: a non-directed edge, or a cycle entered without validation (AssertionError; correspondence only)
        a, b = rng.sample(vars_, 2)
        if rng.random() < 0.5:
            ops.append(['add_edge', fmt(a, lo - 1), fmt(b, lo - 1), rng.choice(tsgen.EDGE_TYPES[:1] + tsgen.EDGE_TYPES[2:]), {}, True])
        else:
            ops += [['add_edge', fmt(a, lo - 1), fmt(b, lo - 1), '->', {}, False], ['add_edge', fmt(b, lo - 1), fmt(a, lo - 1), '->', {}, False]]
        case['kind'] += '+nondag'
    elif y < 0.12:
        f = rng.choice(tsgen.NONCANON)
        a, b = rng.sample(vars_, 2)
        ops.insert(rng.randint(0, len(ops)), ['add_edge', f(a, -2), f(b, rng.choice([-2, -1, 0])), '->', {}, True])
        if rng.random() < 0.5:
            ops.append(['add_edge', rng.choice(['a lag(n=1)x', 'q future(n=1) z']), fmt(b, 1), '->', {}, True])
        case['kind'] += '+noncanon'
    return case


class Lane(LaneBase):
    PROP = 'C17'
    THEOREMS = 'auto'          # = the `#print axioms` lines of the audit file
    AUDIT = 'CG/Audit/C17.lean'
    DIFF_IS_FAILURE = False
    RULE = ('random lagged DAGs over 2-4 variables (not necessarily template-consistent), lags -4..2, with forced shares '
            'of mutual lagged influence X(t-1)->Y, Y(t-1)->X (25 %, incl. X(t-1)->Y(t-1) with Y->X), of longer '
            'variable-level cycles (17 %), and of feedback at a variable already on a directed variable-level cycle '
            '(20 %); floating variables present only at non-zero lags (60 %); per-variable types / metadata; 6 % '
            'non-DAG inputs (AssertionError) and 6 % non-canonical names (correspondence only).  Compared: the full '
            'graph token of get_summary_graph() (class, nodes with variable type and metadata incl. the time_lag / '
            'variable_name keys a plain node inherits, edges, types, edge metadata, graph metadata).  Non-trivial: '
            'canonical DAG input with >= 1 edge between distinct variables; distinct by the graph token.')
    TRUSTED = []
    PARTIAL = []

    def cases(self, tier, rng):
        n = 10000 if tier == 'quick' else 100000
        for _ in range(n):
            yield gen_c17(rng)

    def run_case(self, case):
        g, rejected = tsgen.build(case)
        tok, _ = tsgen.graph_args(g)
        lines = [f'ts summary {tok}']
        s, r = tsgen.reply_graph(g.get_summary_graph)
        out = [r]
        tags = [case['kind'], 'sum:' + (r.split(' ')[0] if r.startswith('ok') else r.replace(' ', ':'))]
        oracle = []
        dag = tsgen.is_dag_spec(g)
        dom = dag and tsgen.canonical_names(g)
        links = self.links(g)
        if dom:
            tags.append('in-domain')
            if any(len(v) == 2 for v in links.values()):
                tags.append('has-feedback')
            oracle = self.oracle(g, s, r, links)
        elif dag:
            # non-canonical names: the Spec comparison is not applied, but the call must still succeed on a DAG
            tags.append('dag-noncanonical-names')
            if s is None:
                oracle = self.oracle(g, s, r, links)
        else:
            tags.append('not-a-dag')          # outside the property's quantifier: correspondence only
        if not dom and not oracle:
            oracle = tsgen.coherence_failures(g)
        return {'lines': lines, 'impl': out, 'oracle': oracle, 'nontrivial': dom and len(links) > 0,
                'key': tsgen.digest(tok), 'tags': tags}

    @staticmethod
    def links(g):
        """{unordered variable pair: set of ordered (source variable, destination variable)} over all edges"""
        out = {}
        for e in g.get_edges():
            a, b = e.source.variable_name, e.destination.variable_name
            if a != b:
                out.setdefault(frozenset((a, b)), set()).add((a, b))
        return out

    def oracle(self, g, s, r, links):
        if s is None:
            fb = any(len(v) == 2 for v in links.values())
            err = r[4:]
            if err == 'ReverseEdgeExistsError':
                return [f'summary-feedback: get_summary_graph raised {err} on a DAG with mutual influence between two variables']
            if err == 'CyclicConnectionError' and not fb:
                return [f'summary-cycle: get_summary_graph raised {err} on a DAG whose variable-level graph is cyclic']
            if err == 'CyclicConnectionError':
                return [f'summary-feedback-on-cycle: get_summary_graph raised {err} on a DAG with feedback and a '
                        f'variable-level cycle']
            return [f'summary-raised: get_summary_graph raised {err} on a DAG']
        bad = []
        if type(s) is not CausalGraph:
            bad.append(f'summary-class: the summary graph is a {type(s).__name__}')
        vars_ = tsgen.variables_of(g)
        names = sorted(n.identifier for n in s.get_nodes())
        if names != vars_:
            bad.append(f'summary-nodes: nodes {names} differ from the variables {vars_}')
        exp = {}
        for k, dirs in links.items():
            exp[k] = ('<>', None) if len(dirs) == 2 else ('->', next(iter(dirs)))
        got = {}
        for e in s.get_edges():
            a, b, t = e.source.identifier, e.destination.identifier, impl.ety(e)
            if frozenset((a, b)) in got or a == b:
                bad.append(f'summary-edges: duplicate pair or self-link {(a, b)}')
            got[frozenset((a, b))] = (t, None if t == '<>' else (a, b))
        if got != exp:
            bad.append(f'summary-edges: edges {sorted(map(str, got.values()))} differ from the spec '
                       f'{sorted(map(str, exp.values()))}')
        if impl.enc_meta(s.meta) != impl.enc_meta(g.meta):
            bad.append('summary-gmeta: graph metadata not carried over')
        return bad

    def signature(self, case, failure):
        head = failure.split(':')[0]
        if head in ('summary-feedback', 'summary-cycle', 'summary-feedback-on-cycle'):
            return 'C17-D11-' + head
        return 'C17:' + head

    def shrink(self, case, still_fails):
        return histories.shrink_ops(case, still_fails)

    def describe(self, case):
        return tsgen.describe(case)
