"""
C11, third-party half: `networkx.d_separated` (3.2.1) against its Lean transcription (`CG.NxDSep`, handler token `nx`).

NOT a full lane: the C11 lane imports

    nx_lines(names, edges, X, Y, Z)  -> (line, expected_reply)

and appends `line` to its `lines` and `expected_reply` to its `impl` for every query it makes.  `expected_reply` is what
the REAL `networkx.d_separated` answers on a fresh `DiGraph` holding `names` (in that order) and `edges` (in that order):
`1` / `0`, or `err <ExceptionClassName>` (`NetworkXError` for a cyclic graph, `NodeNotFound` for an unknown node -- the
checks `d_separated` makes itself, in that order).

Model side (lean/CG/Driver/HNx.lean):

    nx dsep   <nodes> <edges> <X> <Y> <Z>   -> 1 | 0 | err NetworkXError | err NodeNotFound
    nx dsepuf <nodes> <edges> <X> <Y> <Z>   -> same, union-find step transcribed instead of its closed form
    nx prune  <nodes> <edges> <U>           -> sorted node list left after the leaf-removal loop
    nx final  <nodes> <edges> <X> <Y> <Z>   -> sorted edge list on which connectivity is tested

What is proved about the model (CG/Proofs/C11Nx.lean): for every DAG whose edges and query nodes lie within `nodes`,
`nx dsep` answers `1` exactly when every x in X is d-separated from every y in Y by Z in the path-blocking sense
(`CG.DSepDec.DSep`; with the endpoint rule `DSepX` when Z meets X or Y), i.e. it equals `dsep is` on those inputs.

Extra helpers for a stronger tie (optional):

    nx_prune_lines(names, edges, U)        -> (line, expected)   expected from an instrumented re-run of the leaf loop
    nx_final_lines(names, edges, X, Y, Z)  -> (line, expected)   ditto, the edge set handed to the connectivity test
    nx_uf_lines(names, edges, X, Y, Z)     -> (line, expected)   `nx dsepuf`, same expected reply as `nx dsep`
"""
from __future__ import annotations

from collections import deque

from harness.core import hxedges, hxlist


def _graph(names, edges):
    import networkx as nx
    G = nx.DiGraph()
    G.add_nodes_from(names)
    G.add_edges_from(edges)
    return G


def nx_expected(names, edges, X, Y, Z):
    """canonical reply of the real networkx.d_separated"""
    import networkx as nx
    G = _graph(names, edges)
    try:
        r = nx.d_separated(G, set(X), set(Y), set(Z))
    except Exception as e:  # noqa: BLE001 - the class name is the observation
        return 'err ' + type(e).__name__
    if r is True:
        return '1'
    if r is False:
        return '0'
    return str(r)


def _line(op, names, edges, X, Y, Z):
    return f'nx {op} {hxlist(names)} {hxedges(edges)} {hxlist(X)} {hxlist(Y)} {hxlist(Z)}'


def nx_lines(names, edges, X, Y, Z):
    """(request line for the Lean driver, reply the real networkx.d_separated gives)"""
    names, edges = list(names), [tuple(e) for e in edges]
    X, Y, Z = list(X), list(Y), list(Z)
    return _line('dsep', names, edges, X, Y, Z), nx_expected(names, edges, X, Y, Z)


def nx_uf_lines(names, edges, X, Y, Z):
    names, edges = list(names), [tuple(e) for e in edges]
    X, Y, Z = list(X), list(Y), list(Z)
    return _line('dsepuf', names, edges, X, Y, Z), nx_expected(names, edges, X, Y, Z)


# ----------------------------------------------------------------------------------------------
# the first two phases of networkx.d_separated re-run on a real DiGraph (verbatim statements from
# networkx/algorithms/d_separation.py 3.2.1), to observe the intermediate graph
# ----------------------------------------------------------------------------------------------

def _pruned_copy(names, edges, union_xyz):
    G_copy = _graph(names, edges)
    leaves = deque([n for n in G_copy.nodes if G_copy.out_degree[n] == 0])
    while len(leaves) > 0:
        leaf = leaves.popleft()
        if leaf not in union_xyz:
            for p in G_copy.predecessors(leaf):
                if G_copy.out_degree[p] == 1:
                    leaves.append(p)
            G_copy.remove_node(leaf)
    return G_copy


def nx_prune_lines(names, edges, U):
    names, edges, U = list(names), [tuple(e) for e in edges], list(U)
    G_copy = _pruned_copy(names, edges, set(U))
    return f'nx prune {hxlist(names)} {hxedges(edges)} {hxlist(U)}', hxlist(sorted(G_copy.nodes))


def nx_final_lines(names, edges, X, Y, Z):
    names, edges = list(names), [tuple(e) for e in edges]
    X, Y, Z = list(X), list(Y), list(Z)
    G_copy = _pruned_copy(names, edges, set(X) | set(Y) | set(Z))
    edges_to_remove = list(G_copy.out_edges(set(Z)))
    G_copy.remove_edges_from(edges_to_remove)
    return _line('final', names, edges, X, Y, Z), hxedges(sorted(G_copy.edges))
