"""C13 lane: no directed edge backwards in time after any history / constructor; time-respecting topological orders."""
import hashlib
import itertools

from harness import histories, impl
from harness.core import LaneBase, hxedges, hxlist, hxlistlist


def time_invariant(g):
    """every edge is stored earlier -> later, judged both by the lags the nodes report and by the lags their
    identifiers parse to (the two must agree, property C12; here either disagreement with time is a failure)"""
    bad = []
    for e in g.get_edges():
        ls, ld = e.source.time_lag, e.destination.time_lag
        ps, pd = impl_parse(e.source.identifier), impl_parse(e.destination.identifier)
        if ps > pd and not ls > ld:
            ls, ld = ps, pd
        if ls > ld:
            kind = 'directed edge points backwards in time' if impl.ety(e) == '->' else 'non-directed edge stored later->earlier'
            bad.append(f'{kind}: {e.source.identifier!r} ({ls}) {impl.ety(e)} {e.destination.identifier!r} ({ld})')
    return bad


class Lane(LaneBase):
    PROP = 'C13'
    THEOREMS = 'auto'
    AUDIT = 'CG/Audit/C13.lean'
    RULE = ('(a) random mutation histories on TimeSeriesCausalGraph aimed at every route to a time-violating edge '
            '(add against time, retype, re-target with replace_edge, move an endpoint with replace_node by name or by '
            '(variable, lag), time edges, bulk adders); replies and all views compared with the model after every call, '
            'and every stored edge checked against the lags of its endpoints; (b) plain graphs with time-violating '
            'edges converted through from_causal_graph / from_dict; (c) random lagged DAGs: the default topological '
            'order is validated (valid + lags non-decreasing), return_all compared as a set with the model and with '
            'brute force. Non-trivial: a ValueError was raised, or the graph has edges at >= 2 lags; distinct by '
            'reply-stream hash.')
    TRUSTED = ['networkx.lexicographical_topological_sort / all_topological_sorts agree with the definitional model '
               '(the default order is validated by predicate, never compared; measured here)']

    def cases(self, tier, rng):
        n = 600 if tier == 'quick' else 6000
        for i in range(n):
            gen = histories.Gen(rng, 'ts')
            yield {'kind': 'hist', 'ops': gen.history(rng.randint(3, 22)), 'warm': i % 2 == 1}
        m = 300 if tier == 'quick' else 3000
        for i in range(m):
            yield {'kind': 'conv', 'edges': self.rand_lagged_edges(rng, violating=True), 'via': rng.choice(['cg', 'dict'])}
        # the lagged-matrix constructor: an entry under a POSITIVE key asks for a directed edge from the future into the
        # present and must be refused; under keys <= 0 the built graph satisfies the time invariant
        for i in range(60 if tier == 'quick' else 600):
            nv = rng.choice((1, 2, 2, 3))
            keys = sorted(set(rng.sample([-3, -2, -1, 0, 1, 2, 3], rng.randint(1, 3))))
            mats = {}
            for kk in keys:
                mats[str(kk)] = [[int(rng.random() < 0.4) if (kk != 0 or a < b) else 0 for b in range(nv)] for a in range(nv)]
            yield {'kind': 'mats', 'mats': mats, 'vars': ['a', 'b', 'c'][:nv], 'minimal': rng.random() < 0.5}
        k = 400 if tier == 'quick' else 4000
        yield {'kind': 'topo', 'nodes': [], 'edges': []}
        yield {'kind': 'topo', 'nodes': ['X'], 'edges': []}
        for i in range(k):
            nodes, edges = self.rand_lagged_dag(rng)
            yield {'kind': 'topo', 'nodes': nodes, 'edges': edges}
        # wide graphs: eight nearly unconstrained nodes over two or three time slices (tens of thousands of plain
        # topological orders, a few hundred time-sorted ones) -- counted, not listed, against a subset DP
        for i in range(2 if tier == 'quick' else 6):
            lags = [[0, 1], [-1, 0], [-1, 0, 1]][i % 3]
            names = [histories.ts_name(v, l) for l in lags for v in ('A', 'B', 'C', 'D')][:8]
            rng.shuffle(names)
            lag = {n: impl_parse(n) for n in names}
            edges = []
            for _ in range(i):
                a, b = rng.sample(names, 2)
                if lag[a] > lag[b]:
                    a, b = b, a
                if [a, b] not in edges and [b, a] not in edges and lag[a] < lag[b]:
                    edges.append([a, b])
            yield {'kind': 'wide', 'nodes': names, 'edges': edges}

    @staticmethod
    def rand_lagged_edges(rng, violating):
        names = [histories.ts_name(v, l) for v in ('X', 'Y', 'Z') for l in (-2, -1, 0, 1)]
        k = rng.randint(1, 5)
        edges = []
        seen = set()
        for _ in range(k):
            a, b = rng.sample(names, 2)
            if frozenset((a, b)) in seen:
                continue
            seen.add(frozenset((a, b)))
            edges.append([a, b, '->' if rng.random() < 0.7 else rng.choice(histories.TYPES)])
        return edges

    @staticmethod
    def rand_lagged_dag(rng):
        vs = ['X', 'Y', 'Z'][:rng.randint(1, 3)]
        lags = rng.choice([[-2, -1, 0, 1][:rng.randint(1, 4)], [0], [0, 1], [0, 1, 2], [1, 2], [-1, 0], [-3, -1], [2],
                           [-2, -1, 0, 1], [-1, 0, 1]])
        names = [histories.ts_name(v, l) for v in vs for l in lags]
        rng.shuffle(names)
        names = names[:rng.randint(1, min(6, len(names)))]
        lag = {n: impl_parse(n) for n in names}
        order = sorted(names, key=lambda n: (lag[n], rng.random()))
        edges = []
        for i, a in enumerate(order):
            for b in order[i + 1:]:
                if rng.random() < 0.3:
                    edges.append([a, b])
        rng.shuffle(edges)
        return names, edges

    def run_case(self, case):
        return getattr(self, 'run_' + case['kind'])(case)

    def run_hist(self, case):
        g = impl.new_graph('ts')
        lines = ['g new h ts _']
        out = ['ok']
        oracle = []
        tags = set()
        nontrivial = False
        for op in case['ops']:
            lines.append(impl.op_line('h', op))
            asks_against_time = against_time(op)
            before = impl.snapshot(g) if asks_against_time else None
            r = impl.apply_op(g, op)
            out.append(r)
            if asks_against_time and r != 'ok' and not oracle and impl.snapshot(g) != before:
                oracle.append(f'{op[0]} was asked for a directed edge against time, refused it ({r[4:]}) and changed the graph')
            if r == 'err ValueError':
                tags.add(op[0] + ':ValueError')
                nontrivial = True
            if r == 'ok' and not oracle and against_time(op):
                oracle.append(f'{op[0]} was asked for a directed edge against time and did not refuse: {op[1:5]}')
            if case.get('warm'):
                # every memoised reader and every derived graph is computed between the calls (read-only)
                histories.warm_caches(g)
            lines.append('g obs h')
            out.append(impl.obs(g))
            if not oracle:
                try:
                    bad = time_invariant(g)
                except Exception as e:  # noqa: BLE001
                    bad = [f'reading edge lags raised {type(e).__name__}']
                if bad:
                    oracle.append(f'after {op[0]} ({r}): {bad[0]}')
        try:
            if len({e.source.time_lag for e in g.get_edges()} | {e.destination.time_lag for e in g.get_edges()}) >= 2:
                nontrivial = True
        except Exception:  # noqa: BLE001
            pass
        # the default topological order of what the history left (when it is a DAG): valid for the CURRENT edges, sorted
        # by the lags the identifiers spell
        if not oracle:
            try:
                es = [(e.source.identifier, e.destination.identifier, impl.ety(e)) for e in g.get_edges()]
                names = g.get_node_names()
                from harness.lanes.c02 import has_cycle
                if all(t == '->' for _, _, t in es) and not has_cycle([(a, b) for a, b, _ in es]):
                    order = list(g.get_topological_order())
                    lag = {n: impl_parse(n) for n in names}
                    ok = sorted(order) == names and all(order.index(a) < order.index(b) for a, b, _ in es) and \
                        all(lag[order[i]] <= lag[order[i + 1]] for i in range(len(order) - 1))
                    tags.add('topo-after-history')
                    if not ok:
                        oracle.append(f'after the history the default topological order {order} is not a time-sorted '
                                      f'topological order of the current graph')
            except Exception as e:  # noqa: BLE001
                oracle.append(f'after the history get_topological_order raised {type(e).__name__} on a DAG')
        key = hashlib.sha1('\n'.join(out).encode()).hexdigest()
        return {'lines': lines, 'impl': out, 'oracle': oracle, 'nontrivial': nontrivial, 'key': key, 'tags': sorted(tags)}

    def run_conv(self, case):
        from cai_causal_graph import CausalGraph, TimeSeriesCausalGraph
        from cai_causal_graph.type_definitions import EdgeType
        cg = CausalGraph()
        for s, d, t in case['edges']:
            cg.add_edge(s, d, edge_type=EdgeType(t), validate=False)
        violating = any(t == '->' and impl_parse(s) > impl_parse(d) for s, d, t in case['edges'])
        oracle = []
        try:
            if case['via'] == 'cg':
                ts = TimeSeriesCausalGraph.from_causal_graph(cg)
            else:
                import json
                ts = TimeSeriesCausalGraph.from_dict(json.loads(json.dumps(cg.to_dict())))
            err = None
        except ValueError:
            ts, err = None, 'ValueError'
        except Exception as e:  # noqa: BLE001
            ts, err = None, type(e).__name__
        if violating and err != 'ValueError':
            oracle.append(f'conversion of a plain graph with a directed edge against time via {case["via"]} gave {err or "a graph"}: {case["edges"]}')
        if not violating and err is not None:
            oracle.append(f'conversion of a time-respecting plain graph via {case["via"]} raised {err}: {case["edges"]}')
        if ts is not None:
            bad = time_invariant(ts)
            if bad:
                oracle.append(f'after conversion via {case["via"]}: {bad[0]}')
            if len(ts.get_edges()) != len(case['edges']):
                oracle.append(f'conversion via {case["via"]} changed the number of edges')
        return {'lines': [], 'impl': [], 'oracle': oracle, 'nontrivial': violating, 'key': repr(case['edges']) + case['via'],
                'tags': ['conv:' + ('violating' if violating else 'ok')]}

    def run_mats(self, case):
        import numpy
        from cai_causal_graph import TimeSeriesCausalGraph
        mats = {int(k): numpy.array(v) for k, v in case['mats'].items()}
        against = any(k > 0 and numpy.any(m) for k, m in mats.items())
        oracle = []
        try:
            g = TimeSeriesCausalGraph.from_adjacency_matrices(mats, list(case['vars']), construct_minimal=case['minimal'])
            err = None
        except Exception as e:  # noqa: BLE001
            g, err = None, type(e).__name__
        if against and err != 'ValueError':
            oracle.append(f'from_adjacency_matrices with an entry under a positive key (a directed edge from the future into the '
                          f'present) gave {err or "a graph"} instead of ValueError: {case["mats"]}')
        if g is not None:
            bad = time_invariant(g)
            if bad:
                oracle.append('graph built by from_adjacency_matrices: ' + bad[0])
            if not against:
                want = sum(int(numpy.sum(m)) for m in mats.values())
                have = len(g.get_edges())
                if not case['minimal'] and have > want:
                    oracle.append(f'from_adjacency_matrices built {have} edges from {want} entries')
        return {'lines': [], 'impl': [], 'oracle': oracle, 'nontrivial': against or g is not None,
                'key': repr((case['mats'], case['vars'], case['minimal'])),
                'tags': ['mats:' + ('against-time' if against else (err or 'ok'))]}

    def run_wide(self, case):
        g = impl.new_graph('ts')
        for n in case['nodes']:
            g.add_node(n)
        for s, d in case['edges']:
            g.add_edge(s, d)
        nodes = sorted(case['nodes'])
        idx = {n: i for i, n in enumerate(nodes)}
        lag = {n: g.get_node(n).time_lag for n in nodes}
        edges = [tuple(e) for e in case['edges']]

        def count(strict_time):
            # linear extensions by DP over subsets: `before[i]` = the nodes that must already be placed
            before = [0] * len(nodes)
            for a, b in edges:
                before[idx[b]] |= 1 << idx[a]
            if strict_time:
                for a in nodes:
                    for b in nodes:
                        if lag[a] < lag[b]:
                            before[idx[b]] |= 1 << idx[a]
            ways = [0] * (1 << len(nodes))
            ways[0] = 1
            for m in range(1 << len(nodes)):
                if ways[m]:
                    for i in range(len(nodes)):
                        if not m >> i & 1 and before[i] & ~m == 0:
                            ways[m | 1 << i] += ways[m]
            return ways[-1]
        oracle = []
        fwd = lambda o: all(o.index(a) < o.index(b) for a, b in edges)
        srt = lambda o: all(lag[o[i]] <= lag[o[i + 1]] for i in range(len(o) - 1))
        allo = g.get_topological_order(return_all=True)
        want = count(True)
        if len(allo) != want or len({tuple(o) for o in allo}) != len(allo) or \
                not all(sorted(o) == nodes and fwd(o) and srt(o) for o in allo):
            oracle.append(f'return_all gave {len(allo)} orders ({len({tuple(o) for o in allo})} distinct); nodes={nodes} '
                          f'edges={edges} have exactly {want} time-sorted topological orders')
        order = g.get_topological_order()
        if not (sorted(order) == nodes and fwd(order) and srt(order)):
            oracle.append(f'default topological order {order} is not a time-sorted topological order of {edges}')
        elif list(order) not in [list(o) for o in allo]:
            oracle.append(f'the default topological order {order} is missing from return_all')
        plain_all = g.get_topological_order(return_all=True, respect_time_ordering=False)
        want_plain = count(False)
        if len(plain_all) != want_plain or len({tuple(o) for o in plain_all}) != len(plain_all):
            oracle.append(f'return_all without time ordering gave {len(plain_all)} orders, the graph has {want_plain}')
        return {'lines': [], 'impl': [], 'oracle': oracle, 'nontrivial': True,
                'key': repr((nodes, sorted(edges))), 'tags': [f'wide:n{len(nodes)}:orders{want}:plain{want_plain}']}

    def run_topo(self, case):
        g = impl.new_graph('ts')
        for n in case['nodes']:
            g.add_node(n)
        for s, d in case['edges']:
            g.add_edge(s, d)
        from harness import gen as _gen
        _gen.stress(g, ('c13-topo', repr(case['nodes']), repr(case['edges'])))
        _gen.query_noise(g, ('c13-topo', repr(case['edges'])))
        nodes = list(g.to_networkx().nodes) if case['nodes'] else []
        edges = [tuple(e) for e in case['edges']]
        lag = {n: g.get_node(n).time_lag for n in nodes}
        head = f'{hxlist(nodes)} {hxedges(edges)} ' + (','.join(str(lag[n]) for n in nodes) if nodes else '.')
        lines, out, oracle = [], [], []
        first = g.get_topological_order()
        kept = list(first)
        try:                                   # the caller owns what it was given: reverse it, empty it, ask again
            first.reverse()
            first.clear()
        except Exception:  # noqa: BLE001  (an immutable result is fine too)
            pass
        order = g.get_topological_order()
        if list(order) != kept:
            oracle_pre = [f'the default topological order changed from {kept} to {list(order)} after the caller changed the '
                          f'list it had been given (no mutation of the graph in between)']
        else:
            oracle_pre = []
        lines.append(f'topo timevalid {head} {hxlist(order)}')
        out.append('1')
        if nodes:
            # what the CODE returned, order included, against the transcription of networkx's
            # lexicographical_topological_sort keyed by lag (ties broken by the exported digraph's node order)
            nxg = g.to_networkx()
            nn = [str(x) for x in nxg.nodes]
            lines.append(f'nxtopo lex {hxlist(nn)} {hxedges([(str(a), str(b)) for a, b in nxg.edges])} '
                         + ','.join(str(g.get_node(x).time_lag) for x in nn))
            out.append(hxlist(order))
        oracle += oracle_pre
        a0 = g.get_topological_order(return_all=True)
        kept_all = [list(o) for o in a0]
        try:
            for o in a0:
                o.reverse()
            a0.clear()
        except Exception:  # noqa: BLE001
            pass
        allo = g.get_topological_order(return_all=True)
        if [list(o) for o in allo] != kept_all:
            oracle.append('the list of all time-sorted topological orders changed after the caller changed the lists it had '
                          'been given (no mutation of the graph in between)')
        lines.append(f'topo timeall {head}')
        out.append(hxlistlist(sorted(allo)))
        plain_all = g.get_topological_order(return_all=True, respect_time_ordering=False)
        lines.append(f'topo all {hxlist(nodes)} {hxedges(edges)}')
        out.append(hxlistlist(sorted(plain_all)))
        # oracle: brute force
        fwd = lambda o: all(o.index(a) < o.index(b) for a, b in edges)
        srt = lambda o: all(lag[o[i]] <= lag[o[i + 1]] for i in range(len(o) - 1))
        if not (sorted(order) == sorted(nodes) and fwd(order) and srt(order)):
            oracle.append(f'default topological order {order} is not a time-sorted topological order of {edges}')
        if len(nodes) <= 6:
            want = sorted(list(o) for o in itertools.permutations(sorted(nodes)) if fwd(list(o)) and srt(list(o)))
            if sorted(allo) != want:
                oracle.append(f'return_all gave {len(allo)} orders, the time-sorted topological orders of nodes={nodes} '
                              f'edges={edges} are {len(want)}')
        return {'lines': lines, 'impl': out, 'oracle': oracle, 'nontrivial': len(set(lag.values())) >= 2 and bool(edges),
                'key': repr((sorted(nodes), sorted(edges))), 'tags': [f'topo:n{len(nodes)}']}

    def signature(self, case, failure):
        if case.get('kind') == 'topo' and not case['nodes'] and 'return_all' in failure:
            return 'C13-D14-empty-graph-return_all'
        return 'C13:' + hashlib.sha1(failure[:60].encode()).hexdigest()[:12]

    def widen(self, case):
        if 'ops' in case and isinstance(case.get('ops'), list) and case.get('kind', 'hist') == 'hist':
            return histories.widen_history(case)
        return []

    def shrink(self, case, still_fails):
        if case.get('kind') == 'hist':
            return histories.shrink_ops(case, still_fails)
        return case


def against_time(op):
    """does this call ask, by its own arguments, for a DIRECTED edge whose source is later than its destination?"""
    def lag(x):
        x = x if isinstance(x, str) else x.get('id')
        return impl_parse(x)
    try:
        if op[0] == 'add_time_edge':
            return op[2] > op[4] and impl_parse(op[1]) == 0 and impl_parse(op[3]) == 0
        if op[0] in ('add_edge', 'add_edge_by_pair', 'add_edge_obj'):
            return op[3] == '->' and lag(op[1]) > lag(op[2])
        if op[0] == 'replace_edge':
            return op[5] == '->' and lag(op[3]) > lag(op[4])
    except Exception:  # noqa: BLE001 - a name the lane's parser cannot read
        return False
    return False


def impl_parse(name):
    from cai_causal_graph.utils import get_variable_name_and_lag
    return get_variable_name_and_lag(name)[1]
