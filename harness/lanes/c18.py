"""
Lane C18 — identify_confounders.

Correspondence: `ident confounders <nodes> <edges> <x> <y> [fullyDirected]` against the real
`identify_confounders` (answer as a sorted set, errors by exception class).

Oracle (brute force, no networkx, independent of the Lean model), on the implementation's answers alone:
  subset       every returned node is a strict common ancestor of x and y
  symmetry     the answer for (x, y) equals the answer for (y, x)
  sufficiency  when y is not an ancestor of x: x and y are d-separated by the answer in the graph without the edges
               leaving x (path-blocking definition, every simple path of the skeleton is examined)
  refusal      non-DAG input, an unknown node, x = y raise
Sufficiency failures are the known finding D12; they are shrunk to a minimal core and canonicalised up to
isomorphism fixing the roles (x = 0, y = 1): signature `C18-sufficiency:<core>`.

`python -m harness.lanes.c18 --cores [out.json]` enumerates every minimal sufficiency core on <= 5 labelled nodes and
on the 6-node upper-triangular shapes.
"""
from __future__ import annotations

import itertools
import json
import os
import sys

from harness import gen
from harness.core import LaneBase, hx, hxedges, hxlist

POOLS = [
    ['a', 'b', 'c', 'd', 'e', 'f', 'g', 'h', 'i', 'j'],
    # multi-character names, names that are characters of other names, a space, a non-ASCII letter
    ['x1', 'xm', 'm', 'y1', 'my', 'n 3', 'ü', 'q_7', 'lag', '1'],
    [],                                       # (index 2 = TS_POOL: names computed from the DAG, see gen.ts_names)
    # canonical decimal integers, some of two digits ('10' < '2' as text, 10 > 2 as a number), names inside names
    ['10', '2', '3', '11', '1', '20', '100', '12', '21', '0'],
]
NUM_POOL = 3


TS_POOL = 2          # names computed from the DAG so that every edge respects time; built as a TimeSeriesCausalGraph


ts_names = gen.ts_names


def pool_names(pool, n, edges):
    return ts_names(n, [tuple(e) for e in edges]) if pool == TS_POOL else POOLS[pool][:n]


# ----------------------------------------------------------------------------------------------
# brute-force graph theory over nodes 0..n-1
# ----------------------------------------------------------------------------------------------

def strict_desc(n, edges):
    """list of sets: strict descendants of every node (closure iteration)."""
    succ = [set() for _ in range(n)]
    for a, b in edges:
        succ[a].add(b)
    desc = [set(s) for s in succ]
    changed = True
    while changed:
        changed = False
        for x in range(n):
            new = set()
            for y in desc[x]:
                new |= succ[y]
            if not new <= desc[x]:
                desc[x] |= new
                changed = True
    return desc


def strict_anc(n, edges):
    return strict_desc(n, [(b, a) for a, b in edges])


def is_acyclic(n, edges):
    return gen.is_acyclic(n, edges)


def open_path(n, edges, x, y, Z):
    """An unblocked simple path of the skeleton from x to y given Z (list of nodes), or None.
    Collider b on the path: open iff b or a strict descendant of b is in Z; any other interior node: open iff not in Z."""
    eset = set(edges)
    nb = [[] for _ in range(n)]
    for a, b in edges:
        nb[a].append(b)
        nb[b].append(a)
    desc = strict_desc(n, edges)
    Z = set(Z)
    act = [bool(({b} | desc[b]) & Z) for b in range(n)]     # collider at b is open

    def ok(a, b, c):
        if (a, b) in eset and (c, b) in eset:
            return act[b]
        return b not in Z

    path = [x]
    on = {x}

    def rec():
        cur = path[-1]
        for nx_ in nb[cur]:
            if nx_ in on:
                continue
            if len(path) >= 2 and not ok(path[-2], cur, nx_):
                continue
            if nx_ == y:
                return path + [y]
            path.append(nx_)
            on.add(nx_)
            r = rec()
            if r:
                return r
            path.pop()
            on.discard(nx_)
        return None

    return rec()


def directed_paths(n, edges, s, t):
    """all simple directed paths s -> t (lists of nodes)."""
    succ = [[] for _ in range(n)]
    for a, b in edges:
        succ[a].append(b)
    out = []
    path = [s]

    def rec():
        cur = path[-1]
        if cur == t:
            out.append(list(path))
            return
        for c in succ[cur]:
            if c not in path:
                path.append(c)
                rec()
                path.pop()
    if s != t:
        rec()
    return out


# ----------------------------------------------------------------------------------------------
# implementation access
# ----------------------------------------------------------------------------------------------

UNKNOWN = 'zz?'      # a name that is in no pool: the "unknown node" probe


def names_of(case):
    """node names by index (explicit `names` survive shrinking), followed by the unknown-node probe name."""
    ns = list(case.get('names') or pool_names(case['pool'], case['n'], case.get('e') or []))
    return ns + [UNKNOWN] * 2


def build(n, edges, names, validate=True):
    """Real CausalGraph: nodes names[:n] in index order, directed edges in the given order."""
    from cai_causal_graph import CausalGraph, TimeSeriesCausalGraph
    # (the names of the time-series pool say which class to build: see ts_names)
    g = TimeSeriesCausalGraph() if n and all(x.startswith('tsv') for x in names[:n]) else CausalGraph()
    edges = list(edges)
    # isolated nodes sometimes arrive LAST, by a direct add_node on warm caches with no mutation after it
    touched = {i for e in edges for i in e}
    late = [i for i in range(n) if i not in touched] if validate and edges and (n + 2 * len(edges)) % 3 == 0 else []
    for i in range(n):
        if i not in late:
            g.add_node(names[i])
    retype = []
    for k, (a, b) in enumerate(edges):
        if validate and k == len(edges) - 1 and len(edges) >= 2:
            gen.stress(g, ('c18-pre', n, tuple(edges), tuple(names[:n])))
        if (n + k) % 3 == 0:
            # the type spelled as a plain string; every other time through the by-pair form
            if (n + k) % 2:
                g.add_edge_by_pair((names[a], names[b]), edge_type='->', validate=validate)
            else:
                g.add_edge(names[a], names[b], edge_type='->', validate=validate)
        elif validate and (n + 3 * k + len(edges)) % 7 == 0:
            # the edge arrives with another type and is directed afterwards
            g.add_edge(names[a], names[b], edge_type=['o>', '--', '<>', 'oo', 'o-'][(n + k) % 5])
            retype.append((names[a], names[b]))
        elif validate and (n + 5 * k + len(edges)) % 4 == 1:
            g.add_edge(names[a], names[b], validate=False)         # (the graph is a DAG by construction: nothing to validate)
        else:
            g.add_edge(names[a], names[b], validate=validate)
    for a, b in retype:
        g.change_edge_type(a, b, '->' if len(retype) % 2 else gen._directed())
    if validate:
        gen.stress(g, ('c18', n, tuple(edges), tuple(names[:n])))
        g = gen.reroute(g, ('c18', n, tuple(edges), tuple(names[:n])))[0]
        if late:
            gen._warm(g)
            for i in late:
                g.add_node(names[i])
        gen.query_noise(g, ('c18', n, tuple(edges), tuple(names[:n])))
    return g


def adjacency_edges(g):
    """directed edges in networkx adjacency order (the order all_simple_paths walks them)."""
    return [(a, b) for a, b in g.to_networkx().edges()]


def arg(g, name, mode):
    """mode 0: identifier; 1: the graph's own Node object (if there is one); 2: a fresh Node object."""
    from cai_causal_graph.graph_components import Node
    if mode == 1 and g.node_exists(name):
        return g.get_node(name)
    if mode == 2:
        return Node(name)
    return name


def call(fn, *a, **kw):
    """canonical reply of the implementation."""
    try:
        r = fn(*a, **kw)
    except Exception as e:   # noqa: the class name is the observation
        return 'err ' + type(e).__name__, None
    return 'ok ' + hxlist(sorted(set(r))), list(r)


def impl_confounders(n, edges, names, x, y):
    """the implementation's answer as a list of node indices (None if it raised)."""
    from cai_causal_graph.identify_utils import identify_confounders
    g = build(n, edges, names)
    r = call(identify_confounders, g, names[x], names[y])[1]
    return None if r is None else [names.index(z) if z in names[:n] else -1 for z in r]


# ----------------------------------------------------------------------------------------------
# failure predicates on (n, edges, x, y): used by the oracle, the shrinker and the core enumeration
# ----------------------------------------------------------------------------------------------

def check_pair(n, edges, x, y, Zxy, Zyx, anc=None):
    """failures of the property for one ordered pair, given the implementation's two answers (index lists)."""
    anc = anc or strict_anc(n, edges)
    out = []
    Z = set(Zxy)
    if len(Zxy) != len(Z):
        out.append('duplicates')
    if not Z <= (anc[x] & anc[y]):
        out.append('subset')
    if Z != set(Zyx):
        out.append('symmetry')
    if y not in anc[x]:
        pruned = [(a, b) for a, b in edges if a != x]
        p = open_path(n, pruned, x, y, Z)
        if p:
            out.append('sufficiency')
    return out


def fails_kind(kind, n, edges, x, y, names):
    """does the implementation show a failure of this kind at (x, y) on this graph?"""
    Zxy = impl_confounders(n, edges, names, x, y)
    Zyx = impl_confounders(n, edges, names, y, x) if kind == 'symmetry' else Zxy
    if Zxy is None or Zyx is None:
        return False
    return kind in check_pair(n, edges, x, y, Zxy, Zyx)


def shrink_core(fails, n, edges, x, y, names):
    """greedy 1-minimal reduction: delete a non-role node (with its edges), delete an edge, or bypass a non-role node
    (delete it and join its parents to its children) while `fails(n, edges, x, y, names)` holds.  Returns (n, edges, x, y, names) with nodes renumbered 0..n-1 (every
    surviving node keeps its name)."""
    edges = [tuple(e) for e in edges]
    names = list(names[:n])
    changed = True
    while changed:
        changed = False
        for v in range(n):
            if v in (x, y):
                continue
            ren = {u: (u if u < v else u - 1) for u in range(n) if u != v}
            e2 = [(ren[a], ren[b]) for a, b in edges if v not in (a, b)]
            nm2 = names[:v] + names[v + 1:]
            if fails(n - 1, e2, ren[x], ren[y], nm2):
                n, edges, x, y, names = n - 1, e2, ren[x], ren[y], nm2
                changed = True
                break
        if changed:
            continue
        for k in range(len(edges)):
            e2 = edges[:k] + edges[k + 1:]
            if fails(n, e2, x, y, names):
                edges = e2
                changed = True
                break
        if changed:
            continue
        # bypass a non-role node: delete it and join each of its parents to each of its children
        for v in range(n):
            if v in (x, y):
                continue
            ren = {u: (u if u < v else u - 1) for u in range(n) if u != v}
            e2 = [(ren[a], ren[b]) for a, b in edges if v not in (a, b)]
            for a, b in itertools.product([a for a, b in edges if b == v], [b for a, b in edges if a == v]):
                if (ren[a], ren[b]) not in e2:
                    e2.append((ren[a], ren[b]))
            nm2 = names[:v] + names[v + 1:]
            if fails(n - 1, e2, ren[x], ren[y], nm2):
                n, edges, x, y, names = n - 1, e2, ren[x], ren[y], nm2
                changed = True
                break
    return n, edges, x, y, names


def canon(n, edges, x, y, names=None):
    """canonical text up to isomorphism fixing the roles: x -> 0, y -> 1, the others permuted to the least edge list."""
    others = [v for v in range(n) if v not in (x, y)]
    best = None
    for perm in itertools.permutations(range(2, n)):
        ren = {x: 0, y: 1}
        for v, k in zip(others, perm):
            ren[v] = k
        es = sorted((ren[a], ren[b]) for a, b in edges)
        if best is None or es < best:
            best = es
    return f'n{n}:' + ' '.join(f'{a}>{b}' for a, b in (best or []))


# ----------------------------------------------------------------------------------------------
# the lane
# ----------------------------------------------------------------------------------------------

def dag_case(n, edges, pool=0, pairs=None, mode=0, names=None):
    c = {'k': 'dag', 'n': n, 'e': [list(e) for e in edges], 'pool': pool, 'pairs': pairs, 'mode': mode}
    if names is not None:
        c['names'] = list(names)
    return c


def default_pairs(n):
    """all ordered pairs of distinct nodes, plus x = y, plus the unknown node `n` in either position."""
    ps = [[x, y] for x in range(n) for y in range(n) if x != y]
    if n >= 1:
        ps += [[0, 0], [n, 0], [0, n], [n, n], [n - 1, n - 1]]
    else:
        ps += [[0, 0], [0, 1]]
    return ps


def graph_cases(tier, rng):
    """the DAG universe shared by C18 and C19: yields (n, edges, pool)."""
    if tier == 'quick':
        for n in range(0, 5):
            for e in gen.all_labelled_dags(n):
                yield n, e, 0
        for n in range(2, 5):
            for e in gen.all_labelled_dags(n):
                yield n, e, TS_POOL                       # the same graphs as time-series graphs
        five = list(gen.all_labelled_dags(5))
        for e in rng.sample(five, 6000):
            yield 5, e, rng.randrange(4)
        for _ in range(600):
            n = rng.choice([6, 7])
            yield n, gen.random_dag(rng, n, p=rng.choice([0.25, 0.4, 0.6])), rng.randrange(4)
        # a seeded sample of the 32 768 topological shapes on 6 nodes (all of them in the thorough tier)
        pairs6 = [(i, j) for i in range(6) for j in range(i + 1, 6)]
        for mask in rng.sample(range(1 << len(pairs6)), 6000):
            yield 6, tuple(p for k, p in enumerate(pairs6) if mask >> k & 1), 0
    else:
        for n in range(0, 5):
            for e in gen.all_labelled_dags(n):
                yield n, e, 0
        for n in range(2, 5):
            for e in gen.all_labelled_dags(n):
                yield n, e, TS_POOL
        for k, e in enumerate(gen.all_labelled_dags(5)):
            yield 5, e, (1 if k % 7 == 0 else TS_POOL if k % 7 == 1 else 0)
        for k, e in enumerate(gen.upper_triangular_dags(6)):
            yield 6, e, (1 if k % 7 == 3 else TS_POOL if k % 7 == 4 else 0)
        for _ in range(1500):
            n = rng.choice([7, 8])
            yield n, gen.random_dag(rng, n, p=rng.choice([0.2, 0.3, 0.45])), rng.randrange(4)


def error_cases(tier, rng):
    """mixed graphs, cyclic directed graphs (validate=False), Node-object arguments."""
    k = 60 if tier == 'quick' else 400
    for _ in range(k):
        n = rng.choice([2, 3, 4, 5])
        pairs = [(i, j) for i in range(n) for j in range(i + 1, n)]
        te = []
        for i, j in pairs:
            r = rng.random()
            if r < 0.35:
                te.append([i, j, '->'])
            elif r < 0.6:
                te.append([i, j, rng.choice(['--', '<>', 'oo', 'o>', 'o-'])])
        if not any(t != '->' for _, _, t in te):
            i, j = rng.choice(pairs)
            te = [e for e in te if (e[0], e[1]) != (i, j)] + [[i, j, rng.choice(['--', '<>', 'oo', 'o>', 'o-'])]]
        yield {'k': 'mixed', 'n': n, 'te': te, 'pool': rng.randrange(2),
               'pairs': [[rng.randrange(n + 1), rng.randrange(n + 1)] for _ in range(4)]}
    for _ in range(k // 2):
        n = rng.choice([3, 4, 5])
        perm = list(range(n))
        rng.shuffle(perm)
        cyc_len = rng.randrange(3, n + 1)
        e = [[perm[i], perm[(i + 1) % cyc_len]] for i in range(cyc_len)]
        for i in range(n):
            for j in range(n):
                if i != j and [i, j] not in e and [j, i] not in e and rng.random() < 0.2:
                    e.append([i, j])
        rng.shuffle(e)
        yield {'k': 'cyclic', 'n': n, 'e': e, 'pool': rng.randrange(2),
               'pairs': [[rng.randrange(n + 1), rng.randrange(n + 1)] for _ in range(4)]}
    for _ in range(k):
        n = rng.choice([3, 4, 5])
        e = gen.random_dag(rng, n, p=0.5)
        yield dag_case(n, e, rng.randrange(2), pairs=[[rng.randrange(n + 1), rng.randrange(n + 1)] for _ in range(5)],
                       mode=rng.choice([1, 2, 3]))


class Lane(LaneBase):
    PROP = 'C18'
    THEOREMS = 'auto'
    AUDIT = 'CG/Audit/C18.lean'
    RULE = ('a case is one graph with all its ordered pairs; non-trivial when some pair has a non-empty answer or an '
            'input is refused; distinct by (name pool, edge list in insertion order, argument mode)')
    TRUSTED = ['networkx.ancestors / is_directed_acyclic_graph / DiGraph edge removal agree with the definitional model '
               '(measured by this lane)',
               'CausalGraph.to_networkx lists exactly the directed edges (measured)']
    PARTIAL = ['sufficiency_statement is FALSE (D12, theorem CG.C18.sufficiency_false); the documented "sufficient '
               'adjustment set" claim is a known finding, matched by minimal core']
    EXHAUSTIVE = {'quick': False, 'thorough': True}
    LEVEL_NOTE = ('all labelled DAGs on <= 4 nodes (quick) / <= 5 nodes and all 6-node upper-triangular shapes '
                  '(thorough), every ordered pair')

    # ---- generation ----
    def cases(self, tier, rng):
        for n, e, pool in graph_cases(tier, rng):
            yield dag_case(n, e, pool)
        yield from error_cases(tier, rng)
        # this lane is cheap: a further sample of larger DAGs
        for _ in range(1500 if tier == 'quick' else 15000):
            n = rng.choice([7, 8, 9])
            yield dag_case(n, gen.random_dag(rng, n, p=rng.choice([0.15, 0.25, 0.35, 0.5])), rng.randrange(2))

    # ---- evaluation ----
    def api(self):
        from cai_causal_graph.identify_utils import identify_confounders
        return identify_confounders

    def run_case(self, case):
        fn = self.api()
        names = names_of(case)
        n = case['n']
        lines, impl, oracle, tags = [], [], [], [f"kind={case['k']}", f'nodes={n}']
        mode = case.get('mode', 0)
        if case['k'] == 'mixed':
            g = gen.build_mixed(names[:n], [(names[a], names[b], t) for a, b, t in case['te']])
            dir_edges = [(names[a], names[b]) for a, b, t in case['te'] if t == '->']
            fd = '0'
            edges_idx = None
        elif case['k'] == 'cyclic':
            g = build(n, case['e'], names, validate=False)
            dir_edges = adjacency_edges(g)
            fd = '1'
            edges_idx = None
        else:
            edges_idx = [tuple(e) for e in case['e']]
            g = build(n, edges_idx, names)
            dir_edges = adjacency_edges(g)
            fd = '1'
            tags.append(f'edges={len(edges_idx)}')
        pairs = case.get('pairs') or default_pairs(n)
        ans = {}
        for x, y in pairs:
            ax = arg(g, names[x], 1 if mode == 3 else mode)
            ay = arg(g, names[y], 0 if mode == 3 else mode)
            rep, val = call(fn, g, ax, ay)
            lines.append(f'ident confounders {hxlist(names[:n])} {hxedges(dir_edges)} {hx(names[x])} {hx(names[y])} {fd}')
            impl.append(rep)
            ans[(x, y)] = val
            bad_input = case['k'] != 'dag' or x >= n or y >= n or x == y
            if bad_input and val is not None:
                oracle.append(f'refusal|{x}|{y}|not refused: {rep}')
        nonempty = False
        if case['k'] == 'dag':
            idx = {names[i]: i for i in range(n)}
            anc = strict_anc(n, edges_idx)
            for x, y in pairs:
                if x >= n or y >= n or x == y:
                    continue
                if ans[(x, y)] is None:
                    oracle.append(f'raised|{x}|{y}|valid input raised')
                    continue
                Zxy = [idx.get(z, -1) for z in ans[(x, y)]]
                if (y, x) not in ans:
                    ans[(y, x)] = call(fn, g, names[y], names[x])[1]
                Zyx = [idx.get(z, -1) for z in (ans[(y, x)] or [])]
                nonempty = nonempty or bool(Zxy)
                for kind in check_pair(n, edges_idx, x, y, Zxy, Zyx, anc):
                    oracle.append(f'{kind}|{x}|{y}|Z={sorted(ans[(x, y)])}')
            if nonempty:
                tags.append('nonempty-answer')
        key = json.dumps([case['k'], case['pool'], case.get('e') or case.get('te'), mode])
        oracle = self._tag(case, oracle)
        return {'lines': lines, 'impl': impl, 'oracle': oracle, 'nontrivial': nonempty or case['k'] != 'dag',
                'key': key, 'tags': tags}

    # ---- failures ----
    PREFIX = 'C18'

    def _fails(self, kind):
        return lambda n, e, x, y, names: fails_kind(kind, n, e, x, y, names)

    def _core(self, case, failure):
        kind, x, y = failure.split('|')[:3]
        x, y = int(x), int(y)
        if case['k'] != 'dag' or kind in ('refusal', 'raised') or x >= case['n'] or y >= case['n'] or x == y:
            return kind, None
        f = self._fails(kind)
        edges = [tuple(e) for e in case['e']]
        names = names_of(case)[:case['n']]
        if not f(case['n'], edges, x, y, names):
            return kind, (case['n'], edges, x, y, names)
        return kind, shrink_core(f, case['n'], edges, x, y, names)

    def signature(self, case, failure):
        """the signature is computed where the failure is seen (in the worker, see `_tag`) and travels inside the
        failure text; computing it means shrinking, i.e. many calls of the implementation"""
        if '|sig=' in failure:
            return failure.rsplit('|sig=', 1)[1]
        return self._signature(case, failure)

    def _tag(self, case, oracle):
        """append the signature to the failures the harness will look at (it keeps the first five of a case)"""
        return [f + '|sig=' + self._signature(case, f) for f in oracle[:5]] + oracle[5:]

    def _signature(self, case, failure):
        kind, core = self._core(case, failure)
        if core is None:
            return f"{self.PREFIX}-{kind}:{case['k']}"
        if kind == 'sufficiency' and core[0] > 6:
            # cores are enumerated exhaustively up to 6 nodes; a larger one (none was ever observed once the shrinker
            # bypasses nodes) is identified by this predicate only
            return f'{self.PREFIX}-sufficiency:n7+'
        return f'{self.PREFIX}-{kind}:' + canon(*core)

    def shrink(self, case, still_fails):
        r = self.run_case(case)
        if not r['oracle']:
            return case
        failure = r['oracle'][0]
        kind, core = self._core(case, failure)
        if core is None:
            _, x, y = failure.split('|')[:3]
            c = dict(case)
            c['pairs'] = [[int(x), int(y)]]
            return c
        n, e, x, y, names = core
        return dag_case(n, e, case['pool'], pairs=[[x, y]], mode=case.get('mode', 0), names=names)

    def describe(self, case):
        names = names_of(case)
        if case['k'] == 'mixed':
            return {'mixed graph': [f'{names[a]} {t} {names[b]}' for a, b, t in case['te']]}
        return {'kind': case['k'], 'nodes': names[:case['n']], 'edges': [f'{names[a]}->{names[b]}' for a, b in case['e']],
                'pairs': 'all ordered pairs + error probes' if not case.get('pairs') else case['pairs']}


# ----------------------------------------------------------------------------------------------
# enumeration of the minimal sufficiency cores (D12)
# ----------------------------------------------------------------------------------------------

def _cores_chunk(args):
    from harness.core import setup_repo_path
    setup_repo_path()
    n, chunk = args
    from cai_causal_graph.identify_utils import identify_confounders
    names = POOLS[0][:n]
    idx = {names[i]: i for i in range(n)}
    found = {}
    stats = {'pairs': 0, 'failing': 0}
    f = lambda n_, e_, x_, y_, nm_: fails_kind('sufficiency', n_, e_, x_, y_, nm_)
    for edges in chunk:
        g = build(n, edges, names)
        anc = strict_anc(n, edges)
        for x in range(n):
            for y in range(n):
                if x == y or y in anc[x]:
                    continue
                stats['pairs'] += 1
                Z = {idx[z] for z in identify_confounders(g, names[x], names[y])}
                if open_path(n, [(a, b) for a, b in edges if a != x], x, y, Z) is None:
                    continue
                stats['failing'] += 1
                core = shrink_core(f, n, list(edges), x, y, names)
                c = canon(*core)
                found[c] = found.get(c, 0) + 1
    return found, stats


def enumerate_cores(out_path, jobs=14, with_six=True):
    import multiprocessing as mp
    from harness.core import setup_repo_path
    setup_repo_path()
    work = []
    for n in range(2, 6):
        dags = list(gen.all_labelled_dags(n))
        work += [(n, dags[i:i + 400]) for i in range(0, len(dags), 400)]
    if with_six:
        six = list(gen.upper_triangular_dags(6))
        work += [(6, six[i:i + 400]) for i in range(0, len(six), 400)]
    total = {}
    stats = {}
    with mp.get_context('fork').Pool(jobs) as pool:
        for (n, _), (found, st) in zip(work, pool.imap(_cores_chunk, work)):
            for c, k in found.items():
                total[c] = total.get(c, 0) + k
            s = stats.setdefault(n, {'pairs': 0, 'failing': 0})
            s['pairs'] += st['pairs']
            s['failing'] += st['failing']
    cores = [{'signature': 'C18-sufficiency:' + c,
              'what': 'identify_confounders is not a sufficient adjustment set (D12); minimal core ' + c +
                      ' (x = 0, y = 1)', 'hits': k} for c, k in sorted(total.items())]
    cores.append({'signature': 'C18-sufficiency:n7+',
                  'what': 'identify_confounders is not a sufficient adjustment set (D12); a minimal core with 7 or more '
                          'nodes (fallback signature; never observed: every failing pair of 19 600 random DAGs on 7-9 '
                          'nodes reduced to one of the cores listed above)',
                  'hits': 0})
    with open(out_path, 'w') as fh:
        json.dump(cores, fh, indent=1)
    return cores, stats


if __name__ == '__main__':
    if '--cores' in sys.argv:
        out = sys.argv[sys.argv.index('--cores') + 1] if len(sys.argv) > sys.argv.index('--cores') + 1 else \
            '/verif/notes/c18_cores.json'
        cores, stats = enumerate_cores(out, with_six='--no-six' not in sys.argv)
        print(len(cores), 'distinct minimal cores;', stats)
        for c in cores:
            print(c['signature'], c['hits'])
