"""
C10, third-party half: `networkx.descendants`, `networkx.ancestors`, `networkx.bfs_edges`, `networkx.all_simple_paths`,
`networkx.to_numpy_array` (3.2.1) against their Lean transcription (`CG.NxReach`, handler token `nxreach`).

NOT a full lane: the C10 lane (and C05 / C13 for the matrix, the identify lanes for ancestors / paths) imports

    nxreach_lines(kind, names, edges, *args)  -> [(line, expected_reply), ...]

and appends every `line` to its `lines` and every `expected_reply` to its `impl`.  `expected_reply` comes from the REAL
networkx function on a fresh `DiGraph` (`Graph` for `umatrix`) holding `names` (in that order) and `edges` (in that
order):

    kind       args     real call                                         expected reply
    'desc'     x        networkx.descendants(G, x)                        sorted hxlist | err NetworkXError
    'anc'      x        networkx.ancestors(G, x)                          sorted hxlist | err NetworkXError
    'bfs'      x        list(networkx.bfs_edges(G, x))                    hxedges in generation order | err NetworkXError
    'rbfs'     x        list(networkx.bfs_edges(G, x, reverse=True))      hxedges in generation order | err NetworkXError
    'paths'    s, t     list(networkx.all_simple_paths(G, s, t))          hxlistlist in generation ORDER | err NodeNotFound
    'pathsu'   s, t     sorted(networkx.all_simple_paths(G, s, t))        hxlistlist, sorted
    'matrix'            networkx.to_numpy_array(G)                        rows of 0/1 digits joined by `;` (`.` = no node)
    'umatrix'           networkx.to_numpy_array(Graph)                    the same for the undirected graph

An unknown source of `descendants` / `ancestors` / `bfs_edges` is `NetworkXError` (raised by `G.neighbors`), an unknown
source of `all_simple_paths` is `NodeNotFound`; an unknown TARGET of `all_simple_paths` is not an error for `str` nodes:
networkx reads it as the set of its characters (`set(target)`), e.g. target `'cb'` enumerates the paths to the nodes `'c'`
and `'b'`.  With more than one target the order inside one batch of the cutoff branch is the iteration order of a Python
set (hash-randomised), so `nxreach_lines('paths', ...)` silently switches to `pathsu` when the target is unknown and has
more than one distinct character.

Model side (lean/CG/Driver/HNxReach.lean): the same eight lines.  What is proved about the model
(lean/CG/Proofs/C10NxReach.lean): see the header of that file.

    self_test(n_max=5)   every labelled DAG with at most n_max nodes in shuffled node / edge order (every node for
                         desc / anc / bfs / rbfs, every ordered pair for paths, the matrix), then random digraphs that
                         may be cyclic (self-loops, isolated and unknown nodes, unknown multi-character targets,
                         duplicated edges) and larger random DAGs / digraphs, through a `harness.core.ModelClient`;
                         returns the list of disagreements (empty = agreement)
"""
from __future__ import annotations

import itertools
import random
import sys
import time

from harness.core import hx, hxedges, hxlist, hxlistlist


def _graph(names, edges, directed=True):
    import networkx as nx
    G = nx.DiGraph() if directed else nx.Graph()
    G.add_nodes_from(names)
    G.add_edges_from(edges)
    return G


def _reply(f):
    try:
        return f()
    except Exception as e:  # noqa: BLE001 - the class name is the observation
        return 'err ' + type(e).__name__


def _matrix(A):
    rows = [''.join(str(int(v)) for v in row) for row in A.tolist()]
    return ';'.join(rows) if rows else '.'


def desc_expected(names, edges, x):
    import networkx as nx
    G = _graph(names, edges)
    return _reply(lambda: hxlist(sorted(nx.descendants(G, x))))


def anc_expected(names, edges, x):
    import networkx as nx
    G = _graph(names, edges)
    return _reply(lambda: hxlist(sorted(nx.ancestors(G, x))))


def bfs_expected(names, edges, x, reverse=False):
    import networkx as nx
    G = _graph(names, edges)
    return _reply(lambda: hxedges(list(nx.bfs_edges(G, x, reverse=reverse))))


def paths_expected(names, edges, s, t, ordered=True):
    import networkx as nx
    G = _graph(names, edges)

    def run():
        ps = list(nx.all_simple_paths(G, s, t))
        return hxlistlist(ps if ordered else sorted(ps))
    return _reply(run)


def matrix_expected(names, edges, directed=True):
    import networkx as nx
    G = _graph(names, edges, directed)
    return _reply(lambda: _matrix(nx.to_numpy_array(G)))


def _multi_target(names, t):
    return t not in names and len(set(t)) > 1


def nxreach_lines(kind, names, edges, *args):
    """[(request line for the Lean driver, reply the real networkx function gives)]"""
    names, edges = list(names), [tuple(e) for e in edges]
    head = f'{hxlist(names)} {hxedges(edges)}'
    if kind == 'desc':
        (x,) = args
        return [(f'nxreach desc {head} {hx(x)}', desc_expected(names, edges, x))]
    if kind == 'anc':
        (x,) = args
        return [(f'nxreach anc {head} {hx(x)}', anc_expected(names, edges, x))]
    if kind == 'bfs':
        (x,) = args
        return [(f'nxreach bfs {head} {hx(x)}', bfs_expected(names, edges, x))]
    if kind == 'rbfs':
        (x,) = args
        return [(f'nxreach rbfs {head} {hx(x)}', bfs_expected(names, edges, x, reverse=True))]
    if kind in ('paths', 'pathsu'):
        s, t = args
        ordered = kind == 'paths' and not _multi_target(names, t)
        op = 'paths' if ordered else 'pathsu'
        return [(f'nxreach {op} {head} {hx(s)} {hx(t)}', paths_expected(names, edges, s, t, ordered))]
    if kind == 'matrix':
        return [(f'nxreach matrix {head}', matrix_expected(names, edges))]
    if kind == 'umatrix':
        return [(f'nxreach umatrix {head}', matrix_expected(names, edges, directed=False))]
    raise ValueError(kind)


# ----------------------------------------------------------------------------------------------
# self test
# ----------------------------------------------------------------------------------------------

def labelled_dags(n):
    """every DAG on the nodes 0..n-1 (edge sets), each once"""
    ups = [(a, b) for a in range(n) for b in range(a + 1, n)]
    seen = set()
    for perm in itertools.permutations(range(n)):
        for mask in range(1 << len(ups)):
            es = frozenset((perm[a], perm[b]) for i, (a, b) in enumerate(ups) if mask >> i & 1)
            if es not in seen:
                seen.add(es)
                yield sorted(es)


_KINDS = ('desc', 'anc', 'bfs', 'rbfs', 'paths', 'pathsu', 'matrix', 'umatrix')


class _Sink:
    """collects (line, expected) pairs, asks the driver in batches, keeps the disagreements"""

    def __init__(self):
        from harness.core import ModelClient
        self.mc = ModelClient()
        self.batch = []
        self.bad = []
        self.total = {k: 0 for k in _KINDS}
        self.total['err'] = 0
        self.total['multipath'] = 0      # path queries answered with at least two paths (the order is observable)

    def add(self, pairs):
        for ln, exp in pairs:
            self.total[ln.split(' ')[1]] += 1
            if exp.startswith('err'):
                self.total['err'] += 1
            if ln.startswith('nxreach paths ') and ';' in exp:
                self.total['multipath'] += 1
            self.batch.append((ln, exp))
        if len(self.batch) >= 2000:
            self.flush()

    def flush(self):
        if self.batch:
            replies = self.mc.ask([ln for ln, _ in self.batch])
            for (ln, exp), got in zip(self.batch, replies):
                if got != exp:
                    self.bad.append((ln, exp, got))
            self.batch = []

    def close(self):
        try:
            self.flush()
        finally:
            self.mc.close()


_NAMES = ['a', 'b', 'c', 'd', 'e', 'f', 'g']


def _all_queries(sink, names, edges, pool):
    for x in pool:
        for k in ('desc', 'anc', 'bfs', 'rbfs'):
            sink.add(nxreach_lines(k, names, edges, x))
    for s in pool:
        for t in pool:
            sink.add(nxreach_lines('paths', names, edges, s, t))
    sink.add(nxreach_lines('matrix', names, edges))
    sink.add(nxreach_lines('umatrix', names, edges))


def _dag_share(args):
    """the DAGs on n nodes whose running number is idx modulo procs"""
    n, idx, procs, seed = args
    rng = random.Random(seed * 1000003 + n * 101 + idx)
    sink = _Sink()
    cnt = 0
    try:
        for k, es in enumerate(labelled_dags(n)):
            if k % procs != idx:
                continue
            cnt += 1
            names = _NAMES[:n]
            rng.shuffle(names)
            edges = [(_NAMES[a], _NAMES[b]) for a, b in es]
            rng.shuffle(edges)
            _all_queries(sink, names, edges, names)
    finally:
        sink.close()
    return cnt, sink.total, sink.bad


def _odd_share(args):
    """digraphs that may be cyclic: self-loops, 2-cycles, isolated nodes, duplicated edges, unknown nodes (also the
    empty string and multi-character names, which `all_simple_paths` reads as sets of targets)"""
    count, seed, idx = args
    rng = random.Random(seed * 7919 + 5 + idx * 31)
    sink = _Sink()
    try:
        for _ in range(count):
            n = rng.randint(0, 6)
            names = _NAMES[:n]
            rng.shuffle(names)
            dens = rng.choice([0.05, 0.12, 0.3, 0.5, 0.8])
            edges = [(a, b) for a in names for b in names if rng.random() < dens]
            rng.shuffle(edges)
            if edges and rng.random() < 0.2:
                edges.append(rng.choice(edges))
            unknown = ['zz', '', 'ab', 'cb', 'dca', 'g', 'aa']
            pool = names + rng.sample(unknown, 2)
            _all_queries(sink, names, edges, pool)
            for t in unknown:
                if names:
                    sink.add(nxreach_lines('paths', names, edges, rng.choice(names), t))
    finally:
        sink.close()
    return count, sink.total, sink.bad


def _big_share(args):
    """random DAGs and digraphs with 6..9 nodes: every node for the searches, a few pairs for the paths"""
    count, seed, idx = args
    rng = random.Random(seed * 104729 + idx)
    sink = _Sink()
    names9 = ['n%d' % i for i in range(9)]
    try:
        for _ in range(count):
            n = rng.randint(6, 9)
            order = names9[:n]
            rng.shuffle(order)
            dens = rng.choice([0.15, 0.3, 0.5])
            if rng.random() < 0.6:
                edges = [(order[i], order[j]) for i in range(n) for j in range(i + 1, n) if rng.random() < dens]
            else:
                edges = [(a, b) for a in order for b in order if rng.random() < dens * 0.6]
            rng.shuffle(edges)
            names = order[:]
            rng.shuffle(names)
            for x in names:
                for k in ('desc', 'anc', 'bfs', 'rbfs'):
                    sink.add(nxreach_lines(k, names, edges, x))
            for _ in range(8):
                sink.add(nxreach_lines('paths', names, edges, rng.choice(names), rng.choice(names)))
            sink.add(nxreach_lines('matrix', names, edges))
            sink.add(nxreach_lines('umatrix', names, edges))
    finally:
        sink.close()
    return count, sink.total, sink.bad


def self_test(n_max=5, seed=1, verbose=True, procs=6, odd=3000, big=1200):
    """Every labelled DAG with at most `n_max` nodes (1, 3, 25, 543, 29281, ... of them), node and edge order shuffled:
    `desc` / `anc` / `bfs` / `rbfs` for every node, `paths` for every ordered pair (s == t included), `matrix` /
    `umatrix`.  Then `odd` random digraphs with 0..6 nodes that may be cyclic (self-loops, duplicated edges, isolated
    nodes) queried with unknown nodes as well, then `big` random DAGs / digraphs with 6..9 nodes.  Returns the list of
    disagreements `(line, networkx reply, model reply)` -- empty means agreement."""
    import multiprocessing as mp
    t0 = time.time()
    bad = []
    total = {k: 0 for k in _KINDS}
    total['err'] = 0
    total['multipath'] = 0

    def merge(results):
        c = 0
        for cnt, tot, b in results:
            c += cnt
            for k, x in tot.items():
                total[k] += x
            bad.extend(b)
        return c

    with mp.Pool(procs) as pool:
        for n in range(1, n_max + 1):
            p = procs if n >= 4 else 1
            c = merge(pool.map(_dag_share, [(n, i, p, seed) for i in range(p)]))
            if verbose:
                print(f'n={n}: {c} DAGs, totals {total}, disagreements {len(bad)}, {time.time() - t0:.1f}s',
                      file=sys.stderr, flush=True)
        merge(pool.map(_odd_share, [(max(1, odd // procs), seed, i) for i in range(procs)]))
        merge(pool.map(_big_share, [(max(1, big // procs), seed, i) for i in range(procs)]))
    if verbose:
        print(f'done: totals {total}, disagreements {len(bad)}, {time.time() - t0:.1f}s', file=sys.stderr, flush=True)
        for b in bad[:20]:
            print('DISAGREE', b, file=sys.stderr)
    return bad


if __name__ == '__main__':
    nm = int(sys.argv[1]) if len(sys.argv) > 1 else 5
    sys.exit(1 if self_test(nm) else 0)
