"""
C12, string half: the node-name grammar (`get_variable_name_and_lag`, `get_name_with_lag`, `TimeSeriesNode(...)`).

NOT a full lane: the C12 lane imports

    name_cases(tier, rng)   -> generator of JSON-serialisable cases (deterministic given rng)
    run_name_case(case)     -> {'lines', 'impl', 'oracle', 'nontrivial', 'key', 'tags'}  (same contract as run_case)

Model side: handler token `name` (lean/CG/Driver/HName.lean)

    name parse <hex>          ->  ok <hexvar> <int>  |  err ValueError
    name format <hex> <int>   ->  ok <hex>           |  err ValueError

Three streams of cases (each case is a batch of strings, to keep the per-case overhead low):

  (a) 'tok'   every concatenation of <= 3 (quick) / <= 4 (thorough) tokens from TOKENS           [exhaustive]
  (b) 'rand'  random strings over a marker-heavy alphabet, optionally followed by a canonical or odd suffix
  (c) 'canon' canonical pairs (v, k): v a concatenation of pool pieces (spaces, newlines, digits, the bare words
              lag / future, unicode), k in -12..12 plus big values; pairs whose v turns out to contain a marker or to be
              empty are kept (they exercise the error paths) but are not subject to the oracle.

For every string s:   get_variable_name_and_lag(s)            <-> name parse
                      get_name_with_lag(s, k) for a few k     <-> name format
                      TimeSeriesNode(identifier=s)            <-> name parse   (variable_name, time_lag; identifier == s)
For every pair (v,k): TimeSeriesNode(variable_name=v, time_lag=k) <-> name format (identifier; variable_name == v, time_lag == k)

Oracle (independent of the Lean model; plain Python on the implementation's answers), for non-empty marker-free v:
    parse(name(v, k)) == (v, k);  name(name(v, j), k) == name(v, k);  name(v, 0) == v;
    name(v, k) is literally v + ' future(n=k)' / v + ' lag(n=-k)'.
"""
from __future__ import annotations

import hashlib
import itertools
import re

from harness.core import hx, hxlist, setup_repo_path

# the pattern text the Lean model (lean/CG/Model/Name.lean) was written for; the lane compares utils.py with it
PATTERN = r'^(?s:(.+?\n*))(?: lag\(n=(\d+)\))?(?: future\(n=(\d+)\))?$'
FINDALL_LAG = r'lag\(n=(\d+)\)'
FINDALL_FUTURE = r'future\(n=(\d+)\)'

ARABIC_THREE = '٣'   # ARABIC-INDIC DIGIT THREE: matched by \d, accepted by int()

TOKENS = ['a', ' ', '\n', 'lag(n=1)', ' lag(n=2)', ' future(n=3)', 'future(n=', 'lag', ')', '0', ' lag(n=0)',
          ' lag(n=)', ' lag(n=007)', ARABIC_THREE, 'X']

RAND_ALPHABET = 'ab \n()=n0129lgfutre' + ARABIC_THREE + '१０\U0001d7d8' + 'Xé\t\r_-'
RAND_SUFFIXES = [' lag(n=3)', ' future(n=10)', ' lag(n=1) future(n=2)', '\n', ' lag(n=1)\n', ' future(n=2) lag(n=1)',
                 ' lag(n=' + ARABIC_THREE + ')', ' future(n=0)', ' lag(n=0)', ' lag(n=00)', '\n\n', ' future(n=4)\n\n',
                 'lag(n=5)', ' lag (n=5)', ' Lag(n=5)', '  lag(n=5)', ' lag(n=5) ', ' lag(n=-5)', ' lag(n=5)x',
                 ' lag(n=12345678901234567890)', ' future(n=１２)']

POOL = ['a', 'X', 'x y', ' ', '\n', 'a\n', '\nb', '1', '007', '0', 'lag', 'future', 'lag(n=', 'lag(n=)', 'future(n=x)',
        'é', '变量', ARABIC_THREE, '\U0001f600', ' lag', 'lag(n=1', '(n=1)', 'a ', ' a', 'a\n\n', '\n\n',
        'a lag', 'a future(n=', ')', '(', 'n=', 'lag (n=2)', 'Lag(n=2)', 'future', ' future', '\t', 'lag(n=1)',
        'future(n=2)']
BIG_LAGS = [10 ** 6, -(10 ** 6), 2 ** 31, -(2 ** 31), 2 ** 63, -(2 ** 63) - 1, 10 ** 20, -(10 ** 20), 10 ** 40 + 7, 100,
            -100, 99, -1000]
FORMAT_LAGS = [0, 1, -1, 2, -3, 12, -12, 10 ** 20]

BATCH = 40
_MARKER = re.compile(r'(?:lag|future)\(n=\d+\)')     # uses the interpreter's own \d on purpose


def marker_free(v: str) -> bool:
    return _MARKER.search(v) is None


# ------------------------------------------------------------------------------------------------------------------
# cases
# ------------------------------------------------------------------------------------------------------------------

def _batches(kind, items, rng):
    items = list(items)
    for i in range(0, len(items), BATCH):
        ks = sorted(rng.sample(FORMAT_LAGS, 3))
        yield {'kind': kind, 'items': items[i:i + BATCH], 'ks': ks}


def token_strings(max_len):
    for n in range(0, max_len + 1):
        for combo in itertools.product(TOKENS, repeat=n):
            yield ''.join(combo)


def random_string(rng):
    s = ''.join(rng.choice(RAND_ALPHABET) for _ in range(rng.randint(0, 14)))
    r = rng.random()
    if r < 0.45:
        s += rng.choice(RAND_SUFFIXES)
    elif r < 0.55:
        s += rng.choice(RAND_SUFFIXES) + rng.choice(RAND_SUFFIXES)
    return s


def canonical_pair(rng):
    v = ''.join(rng.choice(POOL) for _ in range(rng.randint(1, 3)))
    k = rng.randint(-12, 12) if rng.random() < 0.8 else rng.choice(BIG_LAGS)
    j = rng.randint(-12, 12) if rng.random() < 0.8 else rng.choice(BIG_LAGS)
    return [v, k, j]


def name_cases(tier, rng):
    thorough = tier == 'thorough'
    yield from _batches('tok', token_strings(4 if thorough else 3), rng)
    n_rand = 120000 if thorough else 12000
    yield from _batches('rand', (random_string(rng) for _ in range(n_rand)), rng)
    # every pool piece alone with every small lag, then random concatenations
    base = [[v, k, -k + 1] for v in POOL for k in range(-12, 13)] if thorough else \
           [[v, k, -k + 1] for v in POOL for k in (-12, -2, -1, 0, 1, 3, 12)]
    n_canon = 30000 if thorough else 3000
    yield from _batches('canon', base + [canonical_pair(rng) for _ in range(n_canon)], rng)


# ------------------------------------------------------------------------------------------------------------------
# running a case on the real implementation
# ------------------------------------------------------------------------------------------------------------------

_IMPL = {}


def _impl():
    if not _IMPL:
        setup_repo_path()
        from cai_causal_graph.graph_components import TimeSeriesNode
        from cai_causal_graph.graph_components import Node
        from cai_causal_graph.utils import extract_names_and_lags, get_name_with_lag, get_variable_name_and_lag
        _IMPL.update(parse=get_variable_name_and_lag, name=get_name_with_lag, node=TimeSeriesNode,
                     extract=extract_names_and_lags, plain_node=Node)
    return _IMPL


def _reply_parse(fn, s):
    """canonical reply for a (variable_name, lag) answer or a ValueError"""
    try:
        v, k = fn(s)
    except ValueError:
        return 'err ValueError', None
    if not isinstance(v, str) or not isinstance(k, int) or isinstance(k, bool):
        return f'bad-types {type(v).__name__} {type(k).__name__}', None
    return f'ok {hx(v)} {k}', (v, k)


def _reply_extract(fn, names):
    """canonical reply of extract_names_and_lags: `ok <hexvar>:<lag>,... <max>` | err ValueError"""
    try:
        r = fn(names)
    except ValueError:
        return 'err ValueError', None
    try:
        dicts, mx = r
        pairs = []
        for d in dicts:
            (v, k), = d.items()
            if not isinstance(v, str) or not isinstance(k, int) or isinstance(k, bool):
                return f'bad-types {type(v).__name__} {type(k).__name__}', None
            pairs.append((v, k))
        if not isinstance(mx, int) or isinstance(mx, bool):
            return f'bad-types max {type(mx).__name__}', None
    except Exception as e:  # noqa: BLE001
        return f'bad-shape {type(e).__name__}', None
    body = ','.join(f'{hx(v)}:{k}' for v, k in pairs) if pairs else '.'
    return f'ok {body} {mx}', (pairs, mx)


def _reply_name(fn, s, k):
    try:
        r = fn(s, k)
    except ValueError:
        return 'err ValueError', None
    if not isinstance(r, str):
        return f'bad-types {type(r).__name__}', None
    return f'ok {hx(r)}', r


def _expected_name(v, k):
    if k == 0:
        return v
    return f'{v} future(n={k})' if k > 0 else f'{v} lag(n={-k})'


def run_name_case(case):
    I = _impl()
    parse, name, Node = I['parse'], I['name'], I['node']
    lines, impl, oracle, tags = [], [], [], []
    nontrivial = False

    def node_by_identifier(s):
        n = Node(identifier=s)
        if n.identifier != s:
            oracle.append(f'TimeSeriesNode(identifier={s!r}).identifier == {n.identifier!r}')
        return n.variable_name, n.time_lag

    def one_string(s, ks):
        nonlocal nontrivial
        rp, val = _reply_parse(parse, s)
        lines.append('name parse ' + hx(s)); impl.append(rp)
        rn, _ = _reply_parse(node_by_identifier, s)
        lines.append('name parse ' + hx(s)); impl.append(rn)
        for k in ks:
            lines.append(f'name format {hx(s)} {k}'); impl.append(_reply_name(name, s, k)[0])
        if val is None:
            tags.append('ValueError'); nontrivial = True
        else:
            tags.append('lag<0' if val[1] < 0 else 'lag>0' if val[1] > 0 else 'lag=0')
            if val[1] != 0:
                nontrivial = True
            if val[0].endswith('\n'):
                tags.append('var-ends-in-newline')
        if any(ord(c) > 127 and c.isdecimal() for c in s):
            tags.append('non-ascii-digit')

    kind, ks = case['kind'], case['ks']
    if kind in ('tok', 'rand'):
        for s in case['items']:
            one_string(s, ks)
    elif kind == 'canon':
        for v, k, j in case['items']:
            # TimeSeriesNode(variable_name=, time_lag=): identifier = get_name_with_lag(v, k), metadata = (v, k) as given
            def node_by_pair(v_, k_):
                n = Node(variable_name=v_, time_lag=k_)
                if n.variable_name != v_ or n.time_lag != k_:
                    oracle.append(f'TimeSeriesNode(variable_name={v_!r}, time_lag={k_}) reports '
                                  f'({n.variable_name!r}, {n.time_lag})')
                return n.identifier
            lines.append(f'name format {hx(v)} {k}'); impl.append(_reply_name(node_by_pair, v, k)[0])
            rk, nk = _reply_name(name, v, k)
            lines.append(f'name format {hx(v)} {k}'); impl.append(rk)
            canonical = v != '' and marker_free(v)
            tags.append('canonical-pair' if canonical else 'non-canonical-pair')
            if nk is not None:
                one_string(nk, [j])
            if canonical:
                nontrivial = True
                # the property itself, on the implementation alone
                if nk is None:
                    oracle.append(f'get_name_with_lag({v!r}, {k}) raised ValueError for a marker-free name')
                    continue
                if nk != _expected_name(v, k):
                    oracle.append(f'get_name_with_lag({v!r}, {k}) == {nk!r}, expected {_expected_name(v, k)!r}')
                _, back = _reply_parse(parse, nk)
                if back != (v, k):
                    oracle.append(f'get_variable_name_and_lag({nk!r}) == {back!r}, expected {(v, k)!r}')
                _, nj = _reply_name(name, v, j)
                _, relag = _reply_name(name, nj, k) if nj is not None else (None, None)
                if relag != nk:
                    oracle.append(f'get_name_with_lag(get_name_with_lag({v!r}, {j}), {k}) == {relag!r}, expected {nk!r}')
                _, n0 = _reply_name(name, nk, 0)
                if n0 != v:
                    oracle.append(f'get_name_with_lag({nk!r}, 0) == {n0!r}, expected the bare name {v!r}')
    else:
        raise ValueError(f'unknown name case kind {kind!r}')

    # the bulk form `extract_names_and_lags` on sub-lists of the batch (names as strings or as Node objects), and the
    # Node-object / wrong-type forms of the single parser
    import random as _random
    lrng = _random.Random(hashlib.sha1(repr(case['items']).encode('utf-8', 'surrogatepass')).hexdigest())
    strings = [it if isinstance(it, str) else _expected_name(it[0], it[1]) for it in case['items']]
    good = [x for x in strings if _reply_parse(parse, x)[1] is not None]
    for trial in range(6):
        pool = good if (trial % 3 != 2 and good) else strings
        names = [lrng.choice(pool) for _ in range(lrng.choice((0, 1, 2, 3, 5, 8)))] if pool else []
        as_nodes = trial % 2 == 1
        try:
            args = [I['plain_node'](x) if (as_nodes and i % 2 == 0) else x for i, x in enumerate(names)]
        except Exception:  # noqa: BLE001  (an identifier the Node class refuses)
            args = list(names)
        rep, val = _reply_extract(I['extract'], args)
        lines.append('name extract ' + hxlist(names)); impl.append(rep)
        tags.append('extract:' + rep.split(' ')[0] + ('' if val is None else f':{min(len(names), 3)}'))
        if val is not None:
            pairs, mx = val
            singles = [_reply_parse(parse, x)[1] for x in names]
            if pairs != singles:
                oracle.append(f'extract_names_and_lags({names!r}) lists {pairs!r}, the single parser gives {singles!r}')
            lags = [k for _, k in pairs]
            want = 0
            for k in lags:
                if abs(k) > abs(want):
                    want = k
            if mx != want:
                oracle.append(f'extract_names_and_lags({names!r}) reports maximum lag {mx!r}, the lags are {lags!r}')
        elif all(_reply_parse(parse, x)[1] is not None for x in names):
            oracle.append(f'extract_names_and_lags({names!r}) failed ({rep}) although every name parses')
    if good:
        x = lrng.choice(good)
        rn, _ = _reply_parse(parse, I['plain_node'](x))
        lines.append('name parse ' + hx(x)); impl.append(rn)
    for bad in (5, None, 2.5, ('a',), b'a'):
        try:
            parse(bad)
            oracle.append(f'get_variable_name_and_lag({bad!r}) did not raise')
        except TypeError:
            pass
        except Exception as e:  # noqa: BLE001
            oracle.append(f'get_variable_name_and_lag({bad!r}) raised {type(e).__name__}, documented: TypeError')

    key = hashlib.sha1(repr(case['items']).encode('utf-8', 'surrogatepass')).hexdigest()[:16]
    return {'lines': lines, 'impl': impl, 'oracle': oracle, 'nontrivial': nontrivial, 'key': key, 'tags': tags}


NAME_RULE = ('a batch of names counts when at least one of its strings parses to a non-zero lag, raises ValueError, or '
             'is a canonical (marker-free, non-empty) pair checked by the oracle')
NAME_TRUSTED = [
    'one Lean Char = one Python code point (strings travel as UTF-8 hex; lone surrogates are not generated)',
    "Python's \\d / int() digit set = the generated table lean/CG/Generated/Digits.lean (regenerated from unicodedata "
    'and cross-checked against re and int on every run)',
    'interpreter limit sys.int_max_str_digits (4300 digits) is not modelled: lags with more digits are not generated',
]


def pattern_obligations():
    """(name, ok, detail) triples: the pattern texts in utils.py are the ones the model was written for."""
    import ast
    import os
    from harness.core import REPO
    src = open(os.path.join(REPO, 'cai_causal_graph', 'utils.py'), encoding='utf-8').read()
    found = [n.value for n in ast.walk(ast.parse(src)) if isinstance(n, ast.Constant) and isinstance(n.value, str)]
    out = []
    ok = PATTERN in found
    out.append(('C12 name grammar: the anchored name pattern in utils.py is the modelled one', ok,
                '' if ok else f'expected {PATTERN!r}'))
    # the marker COUNT (more than one marker -> ValueError) is modelled as the number of non-overlapping occurrences of
    # `lag(n=<digits>)` plus those of `future(n=<digits>)`.  Accepted spellings of exactly that count (the two kinds of
    # marker cannot overlap, so one alternation counts the same): the two findall patterns, with a capturing or a
    # non-capturing digit group, or a single alternation
    two = [(r'lag\(n=(\d+)\)', r'future\(n=(\d+)\)'), (r'lag\(n=\d+\)', r'future\(n=\d+\)')]
    one = [r'(?:lag|future)\(n=\d+\)', r'(?:lag|future)\(n=(\d+)\)', r'(lag|future)\(n=(\d+)\)', r'(?:future|lag)\(n=\d+\)']
    ok = any(a in found and b in found for a, b in two) or any(p in found for p in one)
    out.append(('C12 name grammar: the marker-counting pattern(s) in utils.py count the modelled markers', ok,
                '' if ok else f'expected {FINDALL_LAG!r} and {FINDALL_FUTURE!r} (or their alternation)'))
    return out


# ------------------------------------------------------------------------------------------------------------------
# stand-alone run:  /venv/bin/python -m harness.lanes.c12_names [quick|thorough] [seed]
# ------------------------------------------------------------------------------------------------------------------

def _main(argv):
    import collections
    import random
    import time
    from harness.core import ModelClient
    tier = argv[1] if len(argv) > 1 else 'quick'
    seed = int(argv[2]) if len(argv) > 2 else 0
    t0 = time.time()
    client = ModelClient()
    n_cases = n_items = n_lines = n_diff = n_oracle = 0
    tags = collections.Counter()
    shown = 0
    for case in name_cases(tier, random.Random(seed)):
        r = run_name_case(case)
        replies = client.ask(r['lines'])
        n_cases += 1
        n_items += len(case['items'])
        n_lines += len(r['lines'])
        tags.update(r['tags'])
        for ln, a, b in zip(r['lines'], r['impl'], replies):
            if a != b:
                n_diff += 1
                if shown < 10:
                    shown += 1
                    print('DIFF', ln, 'impl:', a, 'model:', b)
        for o in r['oracle']:
            n_oracle += 1
            if shown < 20:
                shown += 1
                print('ORACLE', o)
    client.close()
    print(f'tier={tier} seed={seed} cases={n_cases} items={n_items} lines={n_lines} disagreements={n_diff} '
          f'oracle_failures={n_oracle} wall={time.time() - t0:.1f}s')
    print(dict(tags))
    print(pattern_obligations())
    return 1 if (n_diff or n_oracle) else 0


if __name__ == '__main__':
    import sys
    sys.exit(_main(sys.argv))
