"""
C06 lane: exports, copies and derived graphs never alias the graph or each other.

Correspondence.  A case is (class, graph with flat / nested metadata on graph, nodes and edges, one exporting or
deriving API, call order first / later, mutate the first export before asking again or not).  The lane runs the API
twice on the REAL graph, walks the real objects and computes the set of `id()`s of every dict / list / numpy array /
networkx graph (and, for graphs, every Node / Edge object) reachable from (a) the graph after the calls, (b) each
export, (c) each metadata cell inside an export, and reports the boolean sharing matrix

    ge1 ge2 e1e2 e1 e2      graph~export1, graph~export2, export1~export2, two cells inside export1 / export2 share

The Lean model (`CG.Alias.sharing` of `runTwice`, recipes of the tree with D6-D8 repaired, `to_dict` shallow) predicts
the same matrix from the shape of the metadata (which cells are nested, which nodes the edges join).

Oracle (independent of the model, black-box): deep-mutate the export (append to every list, add a key to every dict,
flip matrix entries, add a node to the networkx graph, add a node to a derived graph) and compare the graph's full
snapshot, the other export still held and the next export with before; mutate one metadata cell of a derived graph
and compare all the others; mutate the graph (metadata in place and structure) and compare the exports held.

Failure lines are `<signature> | <text>`; the signature is what `known_findings.json` lists.
"""
from __future__ import annotations

import copy
import json

from harness import histories
from harness.core import LaneBase

MUT = '__mut__'

# ------------------------------------------------------------------------------------------------------------
# metadata shapes
# ------------------------------------------------------------------------------------------------------------


def mk_meta(spec, tag):
    """spec: None (no metadata given), 0 flat, 1 nested (list / dict inside), 2 nested deeper.  Always a new object."""
    if spec is None:
        return None
    if spec == 0:
        return {'k': tag, 'n': 1}
    if spec == 1:
        return {'k': tag, 'l': [1, {'m': [tag]}], 'd': {'x': [2]}}
    return {'k': tag, 'll': [[tag], [[3]]], 'dd': {'a': {'b': {'c': [tag]}}}}


def is_nested(meta):
    return any(isinstance(v, (dict, list)) for v in meta.values())


# ------------------------------------------------------------------------------------------------------------
# walking real objects
# ------------------------------------------------------------------------------------------------------------

def _types():
    import networkx
    import numpy
    from cai_causal_graph import CausalGraph
    from cai_causal_graph.graph_components import Edge, Node
    return networkx, numpy, CausalGraph, Node, Edge


def reach(o, acc=None):
    """ids of every mutable container reachable from `o`.  Node / Edge handles inside lists / dicts are live objects by
    design and are not entered; a graph contributes its own Node / Edge objects, metadata, caches and index lists."""
    networkx, numpy, CausalGraph, Node, Edge = _types()
    if acc is None:
        acc = {}
    if isinstance(o, (dict, list)):
        if id(o) in acc:
            return acc
        acc[id(o)] = o
        for v in (list(o.values()) if isinstance(o, dict) else o):
            reach(v, acc)
    elif isinstance(o, tuple):
        for v in o:
            reach(v, acc)
    elif isinstance(o, numpy.ndarray):
        b = o
        while isinstance(b.base, numpy.ndarray):
            b = b.base
        acc[id(b)] = b
    elif isinstance(o, networkx.Graph):
        if id(o) in acc:
            return acc
        acc[id(o)] = o
        for v in vars(o).values():
            if isinstance(v, dict):
                reach(v, acc)
    elif isinstance(o, CausalGraph):
        if id(o) in acc:
            return acc
        acc[id(o)] = o
        reach(o.meta, acc)
        for n in o._nodes_by_identifier.values():
            acc[id(n)] = n
            reach(n.meta, acc)
        for e in o.get_edges():
            acc[id(e)] = e
            reach(e.meta, acc)
            for end in (getattr(e, '_source', None), getattr(e, '_destination', None)):
                if end is not None:          # the end points of an edge are objects of the graph that holds the edge
                    acc[id(end)] = end
                    reach(getattr(end, 'meta', None), acc)
        for a in ('_networkx', '_adjacency', '_variables'):
            if getattr(o, a, None) is not None:
                reach(getattr(o, a), acc)
        for a in ('_lag_to_nodes', '_variable_name_to_nodes'):
            if hasattr(o, a):
                for lst in getattr(o, a).values():
                    acc[id(lst)] = lst
                    for n in lst:            # ... and so are the nodes its lag / variable look-ups list
                        acc[id(n)] = n
                        reach(getattr(n, 'meta', None), acc)
        # every other mutable container the object holds as an INSTANCE attribute under any name: separation sets, indexes,
        # memoised answers added later, cached derived graphs.  (Containers bound on the class are not walked: a constant
        # table there is legitimately common to all graphs; a class-level container that the API hands out -- shared
        # separation sets -- is caught by the black-box half, which writes into `sepsets` of every derived graph.)
        seen_names = set()
        for owner in [vars(o)]:
            for name, v in list(owner.items()):
                if name.startswith('__') or name in seen_names:
                    continue
                seen_names.add(name)
                if isinstance(v, (dict, list, set, numpy.ndarray, networkx.Graph, CausalGraph)):
                    if isinstance(v, set):
                        acc[id(v)] = v
                    else:
                        reach(v, acc)
    return acc


def cells_of(api, e):
    """the metadata containers inside an export that belong to distinct things"""
    _, _, CausalGraph, _, _ = _types()
    if isinstance(e, CausalGraph):
        return ([('graph', e.meta)] + [('node ' + n.identifier, n.meta) for n in e.get_nodes()]
                + [('edge ' + '>'.join(x.get_edge_pair()), x.meta) for x in e.get_edges()])
    out = []
    if api in ('to_dict', 'to_dict_nometa', 'iter'):
        if 'meta' in e:
            out.append(('graph', e['meta']))
        for k, nd in e['nodes'].items():
            if isinstance(nd, dict) and 'meta' in nd:
                out.append(('node ' + k, nd['meta']))
        for s, ds in e['edges'].items():
            if not isinstance(ds, dict):
                continue                      # the marker key a deep mutation left behind
            for d, ed in ds.items():
                if isinstance(ed, dict):
                    out.extend(_edge_cells(ed, f'{s}>{d}'))
    elif api == 'node_to_dict':
        out.append(('node', e['meta']))
    elif api == 'edge_to_dict':
        out.extend(_edge_cells(e, 'e'))
    return out


def _edge_cells(ed, name):
    out = []
    for end in ('source', 'destination'):
        if isinstance(ed.get(end), dict) and 'meta' in ed[end]:
            out.append((f'edge {name} {end}', ed[end]['meta']))
    if 'meta' in ed:
        out.append((f'edge {name}', ed['meta']))
    return out


def pair_share(cells):
    sets = [set(reach(c)) for _, c in cells]
    for i in range(len(sets)):
        for j in range(i + 1, len(sets)):
            if sets[i] & sets[j]:
                return (cells[i][0], cells[j][0])
    return None


# ------------------------------------------------------------------------------------------------------------
# values (canonical, label free) and deep mutation
# ------------------------------------------------------------------------------------------------------------

def canon(o):
    networkx, numpy, CausalGraph, Node, Edge = _types()
    if isinstance(o, dict):
        return {'$d': sorted(([str(k), canon(v)] for k, v in o.items()), key=lambda kv: kv[0])}
    if isinstance(o, (list, tuple)):
        return [canon(v) for v in o]
    if isinstance(o, numpy.ndarray):
        return {'$a': o.tolist()}
    if isinstance(o, networkx.Graph):
        es = [sorted((str(a), str(b))) if not o.is_directed() else [str(a), str(b)] for a, b in o.edges()]
        return {'$nx': [o.is_directed(), sorted(str(n) for n in o.nodes()), sorted(es)]}
    if isinstance(o, CausalGraph):
        return {'$g': snapshot(o)}
    if isinstance(o, Node):
        return {'$n': o.identifier}
    if isinstance(o, Edge):
        return {'$e': [o._source.identifier, o._destination.identifier, str(o._edge_type)]}
    if isinstance(o, (str, int, float, bool)) or o is None:
        return o
    return str(o)


def snapshot(g):
    """everything the graph is, read without touching a cache"""
    snap = {
        'cls': type(g).__name__,
        'meta': canon(g.meta),
        'nodes': [[n.identifier, str(n.variable_type), canon(n.meta)] for n in g.get_nodes()],
        'edges': [[e._source.identifier, e._destination.identifier, str(e._edge_type), canon(e.meta)]
                  for e in g.get_edges()],
        'sepsets': canon(g.sepsets),
        'names': g.get_node_names(),
        'pairs': [list(p) for p in g.get_edge_pairs()],
        'in': [[n.identifier, sorted(x._source.identifier for x in n._inbound_edges)] for n in g.get_nodes()],
        'out': [[n.identifier, sorted(x._destination.identifier for x in n._outbound_edges)] for n in g.get_nodes()],
    }
    if hasattr(g, '_lag_to_nodes'):
        snap['lags'] = sorted([k, canon(v)] for k, v in g._lag_to_nodes.items() if len(v))
        snap['vars'] = sorted([k, canon(v)] for k, v in g._variable_name_to_nodes.items() if len(v))
    return snap


def dumps(x):
    return json.dumps(x, sort_keys=True, default=str)


def _abuse(a):
    if a.size:
        a[:] = 1 - a


def deep_mutate(o, tag=MUT, seen=None):
    networkx, numpy, CausalGraph, Node, Edge = _types()
    if seen is None:
        seen = set()
    if id(o) in seen:
        return
    if isinstance(o, dict):
        seen.add(id(o))
        for v in list(o.values()):
            deep_mutate(v, tag, seen)
        o[MUT] = tag
    elif isinstance(o, list):
        seen.add(id(o))
        for v in list(o):
            deep_mutate(v, tag, seen)
        o.append(tag)
    elif isinstance(o, tuple):
        for v in o:
            deep_mutate(v, tag, seen)
    elif isinstance(o, numpy.ndarray):
        seen.add(id(o))
        if o.size:
            o[...] = 1 - o
    elif isinstance(o, networkx.Graph):
        seen.add(id(o))
        first = next(iter(o.nodes()), None)
        o.add_node(MUT)
        if first is not None:
            o.add_edge(MUT, first)
    elif isinstance(o, CausalGraph):
        seen.add(id(o))
        deep_mutate(o.meta, tag, seen)
        for n in o.get_nodes():
            deep_mutate(n.meta, tag, seen)
        for e in o.get_edges():
            deep_mutate(e.meta, tag, seen)
        try:
            o.sepsets[MUT] = tag          # the separation sets of a derived graph / copy are its own
        except Exception:  # noqa: BLE001
            pass
        o.add_node(MUT + 'node')


def foreign_objects(x):
    """first place where a graph refers to a node object that is not its own node of that name (None = coherent)"""
    try:
        for e in x.get_edges():
            for end in (e.source, e.destination):
                if x.get_node(end.identifier) is not end:
                    return f'edge {e.get_edge_pair()} ends in a node object that is not graph.get_node({end.identifier!r})'
        for n in x.get_nodes():
            for e in list(n.get_inbound_edges()) + list(n.get_outbound_edges()):
                if x.get_edge(*e.get_edge_pair()) is not e:
                    return f'node {n.identifier!r} lists an edge object that is not graph.get_edge{e.get_edge_pair()}'
        if hasattr(x, 'get_nodes_at_lag'):
            for n in x.get_nodes():
                for lst, what in ((x.get_nodes_at_lag(n.time_lag), f'get_nodes_at_lag({n.time_lag})'),
                                  (x.get_nodes_for_variable_name(n.variable_name),
                                   f'get_nodes_for_variable_name({n.variable_name!r})')):
                    for m in lst:
                        if x.get_node(m.identifier) is not m:
                            return f'{what} lists a node object that is not graph.get_node({m.identifier!r})'
    except Exception as e:  # noqa: BLE001
        return f'walking the graph raised {type(e).__name__}: {e}'
    return None


def top_level_leak(g):
    """did a mutation of an export reach a metadata dictionary of the graph itself (not just something inside it)?"""
    return (MUT in g.meta or any(MUT in n.meta for n in g.get_nodes()) or any(MUT in e.meta for e in g.get_edges()))


# ------------------------------------------------------------------------------------------------------------
# building graphs
# ------------------------------------------------------------------------------------------------------------

def build(case):
    from cai_causal_graph import CausalGraph, TimeSeriesCausalGraph
    from cai_causal_graph.type_definitions import EdgeType
    cls = TimeSeriesCausalGraph if case['cls'] == 'ts' else CausalGraph
    gm = mk_meta(case['gmeta'], 'G')
    g = cls(meta=gm) if gm is not None else cls()
    for name, spec in case['nodes']:
        m = mk_meta(spec, 'n:' + name)
        if m is None:
            g.add_node(name)
        else:
            g.add_node(name, meta=m)
    for s, d, t, spec in case['edges']:
        m = mk_meta(spec, f'e:{s}>{d}')
        if m is None:
            g.add_edge(s, d, edge_type=EdgeType(t))
        else:
            g.add_edge(s, d, edge_type=EdgeType(t), meta=m)
    return g


def shape_tokens(g):
    """`<g> <nodes> <edges>` for the driver, read from the real graph"""
    names = g.get_node_names()
    idx = {n: i for i, n in enumerate(names)}
    gbit = '1' if is_nested(g.meta) else '0'
    nbits = ''.join('1' if is_nested(g.get_node(n).meta) else '0' for n in names) or '.'
    es = ','.join(f"{idx[e._source.identifier]}-{idx[e._destination.identifier]}-{'1' if is_nested(e.meta) else '0'}"
                  for e in g.get_edges()) or '.'
    return f'{gbit} {nbits} {es}'


def shape_nested(shape):
    g, ns, es = shape.split(' ')
    return '1' in g or '1' in ns or any(x.endswith('-1') for x in es.split(','))


# ------------------------------------------------------------------------------------------------------------
# the APIs
# ------------------------------------------------------------------------------------------------------------

def _ts():
    from cai_causal_graph import TimeSeriesCausalGraph
    return TimeSeriesCausalGraph


# name -> (recipe token or function(arg, g) -> token, call(g, arg), classes, family of graphs it needs)
API = {
    'to_networkx': ('to_networkx', lambda g, a: g.to_networkx(), 'both', 'nx'),
    'adjacency_matrix': ('adjacency_matrix', lambda g, a: g.adjacency_matrix, 'both', 'adj'),
    'to_numpy': ('to_numpy', lambda g, a: g.to_numpy(), 'both', 'adj'),
    'to_dict': ('to_dict', lambda g, a: g.to_dict(), 'both', 'any'),
    'to_dict_nometa': ('to_dict_nometa', lambda g, a: g.to_dict(include_meta=False), 'both', 'any'),
    'iter': ('to_dict', lambda g, a: dict(g), 'both', 'any'),
    'node_to_dict': (lambda a, g: f'node_to_dict:{a}', lambda g, a: g.get_nodes()[a].to_dict(), 'both', 'any'),
    'edge_to_dict': (lambda a, g: f'edge_to_dict:{a}', lambda g, a: g.get_edges()[a].to_dict(), 'both', 'any'),
    'get_nodes': ('listing', lambda g, a: g.get_nodes(), 'both', 'any'),
    'nodes': ('listing', lambda g, a: g.nodes, 'both', 'any'),
    'get_node_names': ('listing', lambda g, a: g.get_node_names(), 'both', 'any'),
    'get_edges': ('listing', lambda g, a: g.get_edges(), 'both', 'any'),
    'edges': ('listing', lambda g, a: g.edges, 'both', 'any'),
    'get_edge_pairs': ('listing', lambda g, a: g.get_edge_pairs(), 'both', 'any'),
    'get_inputs': ('listing', lambda g, a: g.get_inputs(), 'both', 'any'),
    'get_outputs': ('listing', lambda g, a: g.get_outputs(), 'both', 'any'),
    'get_nodes_one': ('listing', lambda g, a: g.get_nodes(g.get_node_names()[a]), 'both', 'any'),
    'get_edges_from': ('listing', lambda g, a: g.get_edges(source=g.get_node_names()[a]), 'both', 'any'),
    'copy': ('copy', lambda g, a: g.copy(), 'both', 'any'),
    'copy_nometa': ('copy_nometa', lambda g, a: g.copy(include_meta=False), 'both', 'any'),
    'copy.copy': ('copy', lambda g, a: copy.copy(g), 'both', 'any'),
    'copy.deepcopy': ('copy', lambda g, a: copy.deepcopy(g), 'both', 'any'),
    'from_dict': ('from_dict', None, 'both', 'any'),
    'get_ancestral_graph': ('ancestral', lambda g, a: g.get_ancestral_graph(g.get_node_names()[a]), 'both', 'nx'),
    'get_descendant_graph': ('descendant', lambda g, a: g.get_descendant_graph(g.get_node_names()[a]), 'both', 'nx'),
    'get_parents_graph': ('parents', lambda g, a: g.get_parents_graph(g.get_node_names()[a]), 'both', 'any'),
    'get_children_graph': ('children', lambda g, a: g.get_children_graph(g.get_node_names()[a]), 'both', 'any'),
    'from_causal_graph': ('from_causal_graph', lambda g, a: _ts().from_causal_graph(g), 'plain', 'any'),
    'variables': ('variables', lambda g, a: g.variables, 'ts', 'any'),
    'get_all_variable_names': ('listing', lambda g, a: g.get_all_variable_names(), 'ts', 'any'),
    'get_contemporaneous_nodes': ('listing', lambda g, a: g.get_contemporaneous_nodes(g.get_node_names()[a]), 'ts', 'any'),
    'get_nodes_at_lag': (lambda a, g: 'nodes_at_lag:' + ('0' if a in g._lag_to_nodes and g._lag_to_nodes[a] else '9'),
                         lambda g, a: g.get_nodes_at_lag(a), 'ts', 'any'),
    'get_nodes_for_variable_name': (
        lambda a, g: 'nodes_for_variable:' + ('0' if a in g._variable_name_to_nodes and g._variable_name_to_nodes[a] else '9'),
        lambda g, a: g.get_nodes_for_variable_name(a), 'ts', 'any'),
    'adjacency_matrices': ('adjacency_matrices', lambda g, a: g.adjacency_matrices, 'ts', 'adj'),
    'to_numpy_by_lag': ('adjacency_matrices', lambda g, a: g.to_numpy_by_lag(), 'ts', 'adj'),
    'get_minimal_graph': ('minimal', lambda g, a: g.get_minimal_graph(), 'ts', 'any'),
    'extend_graph': ('extend', lambda g, a: g.extend_graph(a[0], a[1], include_all_parents=a[2]), 'ts', 'any'),
    'get_stationary_graph': ('stationary', lambda g, a: g.get_stationary_graph(), 'ts', 'any'),
    'get_summary_graph': ('summary', lambda g, a: g.get_summary_graph(), 'ts', 'nx'),
}

SKELETON_APIS = {
    'adjacency_matrix': lambda sk: sk.adjacency_matrix,
    'to_numpy': lambda sk: sk.to_numpy(),
    'to_networkx': lambda sk: sk.to_networkx(),
    'to_dict': lambda sk: sk.to_dict(),
    'nodes': lambda sk: sk.nodes,
    'edges': lambda sk: sk.edges,
    'get_node_names': lambda sk: sk.get_node_names(),
    'get_edge_pairs': lambda sk: sk.get_edge_pairs(),
    'copy': lambda sk: sk.copy(),
}

DICT_APIS = ('to_dict', 'to_dict_nometa', 'iter', 'node_to_dict', 'edge_to_dict')
NEEDS_NODE = ('node_to_dict', 'get_nodes_one', 'get_edges_from', 'get_ancestral_graph', 'get_descendant_graph',
              'get_parents_graph', 'get_children_graph', 'get_contemporaneous_nodes')


def call_api(case, g, held):
    """returns the export; `held` keeps helper objects alive (the source dictionary of from_dict)"""
    api = case['api']
    if api == 'from_dict':
        if 'src' not in held:
            held['src'] = copy.deepcopy(g.to_dict())      # an independent dictionary with the same shape
        return type(g).from_dict(held['src'])
    return API[api][1](g, case.get('arg'))


def recipe_token(case, g):
    t = API[case['api']][0]
    return t if isinstance(t, str) else t(case.get('arg'), g)


# ------------------------------------------------------------------------------------------------------------
# signatures
# ------------------------------------------------------------------------------------------------------------

def signature_of(case, what, cold, cells=None, top=False):
    api = case['api']
    if api == 'to_networkx' and cold and what in ('next-export-changed', 'graph-shares-export'):
        return 'C06-D6-networkx-first-call'
    if api in ('adjacency_matrix', 'to_numpy') and cold and what in ('next-export-changed', 'graph-shares-export'):
        return 'C06-D6-adjacency-first-call'
    if api in ('extend_graph', 'get_stationary_graph') and what == 'cells-share' and cells and \
            all(c.startswith('edge ') for c in cells):
        return 'C06-D7-extend-shared-edge-meta'
    if api == 'get_nodes_at_lag' and what in ('graph-changed', 'next-export-changed', 'other-export-changed',
                                              'graph-shares-export', 'graph-change-reached-export'):
        return 'C06-D8-nodes-at-lag-list'
    if api == 'get_nodes_for_variable_name' and what in ('graph-changed', 'next-export-changed', 'other-export-changed',
                                                         'graph-shares-export', 'graph-change-reached-export'):
        return 'C06-D8-nodes-for-variable-list'
    if api in DICT_APIS and not top and what in ('graph-changed', 'next-export-changed', 'other-export-changed',
                                                  'cells-share', 'graph-change-reached-export'):
        return 'C06-D9-to_dict-shallow-meta:' + api
    return f'C06-unexpected:{api}'


# ------------------------------------------------------------------------------------------------------------
# generators
# ------------------------------------------------------------------------------------------------------------

PLAIN_NAMES = ['a', 'b', 'c', 'd', 'e']


def gen_plain(rng, family):
    n = rng.randint(1, 5)
    names = PLAIN_NAMES[:n]
    order = names[:]
    rng.shuffle(order)
    x = rng.random()
    if family == 'nx':
        kind = 'directed' if x < 0.85 else 'undirected'
    elif family == 'adj':
        kind = 'directed' if x < 0.6 else ('undirected' if x < 0.8 else 'dir+undir')
    else:
        kind = 'directed' if x < 0.5 else ('undirected' if x < 0.65 else 'mixed')
    edges = []
    for i in range(n):
        for j in range(i + 1, n):
            if rng.random() < 0.45:
                if kind == 'directed':
                    t = '->'
                elif kind == 'undirected':
                    t = '--'
                elif kind == 'dir+undir':
                    t = rng.choice(['->', '--'])
                else:
                    t = rng.choice(['->', '->', '--', '<>', 'o>', 'oo', 'o-'])
                edges.append([order[i], order[j], t])
    return names, edges


def gen_ts(rng, family):
    vs = ['X', 'Y', 'Z'][:rng.randint(1, 3)]
    templates = []
    for i, a in enumerate(vs):
        for b in vs[i:]:
            for delta in (0, 1, 2):
                if a == b and delta == 0:
                    continue
                if rng.random() < 0.3:
                    templates.append((a, b, delta))
    # one template per unordered variable pair and lag keeps the template set consistent (no D11 inputs: the
    # direction between two variables is alphabetical throughout)
    from cai_causal_graph.utils import get_name_with_lag
    nodes, edges = [], []

    def node(v, lag):
        nm = get_name_with_lag(v, lag)
        if nm not in nodes:
            nodes.append(nm)
        return nm
    shifts = [0] + ([-1] if rng.random() < 0.4 else []) + ([1] if rng.random() < 0.2 else [])
    for a, b, delta in templates:
        for sh in shifts:
            if sh != 0 and rng.random() < 0.5:
                continue
            edges.append([node(a, sh - delta), node(b, sh), '->'])
    if rng.random() < 0.5 or not nodes:
        node(rng.choice(['W', 'X', 'Y']), rng.choice([0, 0, -1, -3]))      # a floating node
    return nodes, edges


def gen_case(rng, cls, api, order, mutate):
    family = API[api][3]
    names, edges = (gen_ts if cls == 'ts' else gen_plain)(rng, family)
    style = rng.random()

    def spec():
        if style < 0.15:
            return 0                       # all flat
        if style < 0.3:
            return rng.choice([1, 2])      # all nested
        return rng.choice([None, 0, 1, 1, 2])
    case = {'cls': cls, 'api': api, 'order': order, 'mutate': mutate,
            'gmeta': spec(), 'nodes': [[n, spec()] for n in names], 'edges': [e + [spec()] for e in edges]}
    if order == 'later' and rng.random() < 0.4:
        case['warmall'] = True
    if api in NEEDS_NODE:
        case['arg'] = rng.randrange(len(names))
    elif api == 'edge_to_dict':
        if not edges:
            return None
        case['arg'] = rng.randrange(len(edges))
    elif api == 'get_nodes_at_lag':
        case['arg'] = rng.choice([0, 0, -1, -2, 1, 7])
    elif api == 'get_nodes_for_variable_name':
        case['arg'] = rng.choice(['X', 'X', 'Y', 'W', 'nope'])
    elif api == 'extend_graph':
        case['arg'] = [rng.choice([None, 0, 1, 2, 3]), rng.choice([None, None, 0, 1, 2]), rng.random() < 0.6]
    return case


MUTATORS = ('mut_add_edge_meta', 'mut_add_node_meta', 'mut_replace_node', 'mut_replace_node_meta',
            'mut_replace_node_inplace', 'mut_change_edge_type')


def gen_mut_case(rng, cls, api):
    names, edges = (gen_ts if cls == 'ts' else gen_plain)(rng, 'any')

    def spec():
        return rng.choice([None, 0, 1, 1, 2])
    case = {'cls': cls, 'api': api, 'order': 'first', 'mutate': False, 'marg': rng.choice([0, 1, 2]),
            'gmeta': spec(), 'nodes': [[n, spec()] for n in names], 'edges': [e + [spec()] for e in edges]}
    if api == 'mut_add_edge_meta':
        case['nodes'] += [['P', None], ['Q', None]]
    elif api == 'mut_change_edge_type':
        if not edges:
            return None
        case['arg'] = rng.randrange(len(edges))
    elif api != 'mut_add_node_meta':
        case['arg'] = rng.randrange(len(names))
    return case


def apply_mutator(case, g, m):
    """returns (driver recipe token, metadata containers of the objects the call removes); applies the call"""
    from cai_causal_graph.type_definitions import EdgeType
    from cai_causal_graph.utils import get_name_with_lag
    api = case['api']
    names = g.get_node_names()
    if api == 'mut_add_edge_meta':
        g.add_edge('P', 'Q', meta=m)
        return f"{api}:{names.index('P')}:{names.index('Q')}", []
    if api == 'mut_add_node_meta':
        g.add_node('R', meta=m)
        return api, []
    if api == 'mut_change_edge_type':
        e = g.get_edges()[case['arg']]
        removed = [e.meta]
        new_type = EdgeType.UNDIRECTED_EDGE if e.get_edge_type() == EdgeType.BIDIRECTED_EDGE else EdgeType.BIDIRECTED_EDGE
        g.change_edge_type(*e.get_edge_pair(), new_type)
        return f"{api}:{case['arg']}", removed
    name = names[case['arg']]
    node = g.get_node(name)
    if api == 'mut_replace_node_inplace':
        removed = [node.meta]
        g.replace_node(name, meta=m)
        return f"{api}:{case['arg']}", removed
    removed = [node.meta] + [e.meta for e in g.get_edges() if name in e.get_edge_pair()]
    new_id = get_name_with_lag('S', node.time_lag) if case['cls'] == 'ts' else 'S'
    if api == 'mut_replace_node_meta':
        g.replace_node(name, new_id, meta=m)
    else:
        g.replace_node(name, new_id)
    return f"{api}:{case['arg']}", removed


class Lane(LaneBase):
    PROP = 'C06'
    THEOREMS = 'auto'
    AUDIT = 'CG/Audit/C06.lean'
    RULE = ('every exporting / deriving API of both classes x call order (first = cache-filling, later) x (mutate the '
            'first export before asking again, or not) x random graphs whose graph / node / edge metadata is absent, '
            'flat or nested; the sharing matrix of the real objects (by id() of every reachable dict / list / ndarray / '
            'networkx graph / Node / Edge) is compared with the matrix the model predicts from the shape. Non-trivial: '
            'the call succeeded and some metadata container of the graph is nested; distinct by (class, API, order, '
            'mutate, shape sent to the model).')
    TRUSTED = ['copy.deepcopy / dict.copy / list() semantics as modelled by deep / shallow (measured by this lane)',
               'a networkx graph and a numpy array are one opaque cell each',
               'metadata whose sub-objects are shared between containers on input is out of scope',
               'derived graphs are predicted with the adversarial plan: the theorems hold for every plan, so the '
               'prediction does not depend on which nodes / edges the structural algorithm builds']
    PARTIAL = ['to_dict / Node.to_dict / Edge.to_dict copy metadata shallowly (D9, documented): '
               'to_dict_separated_partial holds under FlatMeta only; to_dict_counterexample refutes the full statement']
    LEVEL_NOTE = ('aliasing is modelled by location labels; identity of Node / Edge handles inside list exports is by '
                  'design and not part of the property')

    def cases(self, tier, rng):
        # Order matters to the verdict (it looks at the first failing cases): the `to_dict` family, which fails on
        # every nested graph by documentation (D9), goes last, and every round visits every (class, API, order,
        # mutate) combination once.
        k = 12 if tier == 'quick' else 160
        for _ in range(3 * k):
            for cls in ('plain', 'ts'):
                for api in MUTATORS:
                    c = gen_mut_case(rng, cls, api)
                    if c is not None:
                        yield c
        # skeleton exports (oracle only: the skeleton re-derives everything from the graph; its exports are snapshots too)
        for _ in range(2 * k):
            for cls in ('plain', 'ts'):
                for skapi in SKELETON_APIS:
                    for warm in (False, True):
                        c = gen_case(rng, cls, 'to_dict', 'first', True)
                        if c is not None:
                            if rng.random() < 0.5:       # fully undirected graphs have their own code paths
                                c['edges'] = [[a, b, '--', m] for a, b, t, m in c['edges']]
                            c.update(api='sk:' + skapi, warm=warm)
                            yield c
        # constructors: the object a graph is built from and the graph never alias each other
        for _ in range(2 * k):
            for cls in ('plain', 'ts'):
                for api in self.CTORS:
                    if (api == 'ctor:from_adjacency_matrices' and cls != 'ts') or (api == 'ctor:from_causal_graph' and cls != 'plain'):
                        continue
                    fam = 'nx' if api in ('ctor:from_networkx',) else ('any' if api in ('ctor:from_dict', 'ctor:from_causal_graph', 'ctor:from_skeleton') else 'adj')
                    names, edges = (gen_ts if cls == 'ts' else gen_plain)(rng, fam)
                    if api == 'ctor:from_skeleton':
                        edges = [[a, b, '--'] for a, b, t in edges]
                    yield {'cls': cls, 'api': api, 'order': rng.choice(['first', 'later']), 'mutate': True,
                           'gmeta': rng.choice([None, 1, 2]), 'nodes': [[n, rng.choice([None, 0, 1])] for n in names],
                           'edges': [e + [rng.choice([None, 0, 1])] for e in edges]}
        # graphs with no node at all (never filled, nested graph-level metadata): every export / copy / conversion of them
        for cls in ('plain', 'ts'):
            for api, (_, _, classes, _) in API.items():
                if classes in ('both', cls) and api not in NEEDS_NODE and api != 'edge_to_dict':
                    for order in ('first', 'later'):
                        c = {'cls': cls, 'api': api, 'order': order, 'mutate': True, 'gmeta': 2, 'nodes': [], 'edges': []}
                        if api == 'get_nodes_at_lag':
                            c['arg'] = 0
                        elif api == 'get_nodes_for_variable_name':
                            c['arg'] = 'X'
                        elif api == 'extend_graph':
                            c['arg'] = [1, 1, True]
                        yield c
            for api in self.CTORS:
                if api in ('ctor:from_dict', 'ctor:from_causal_graph') and not (api == 'ctor:from_causal_graph' and cls != 'plain'):
                    yield {'cls': cls, 'api': api, 'order': 'first', 'mutate': True, 'gmeta': 2, 'nodes': [], 'edges': []}
        for family in (False, True):
            for _ in range(k):
                for cls in ('plain', 'ts'):
                    for api, (_, _, classes, _) in API.items():
                        if classes not in ('both', cls) or (api in DICT_APIS) != family:
                            continue
                        for order in ('first', 'later'):
                            for mutate in (False, True):
                                c = gen_case(rng, cls, api, order, mutate)
                                if c is not None:
                                    yield c

    # a deviation of the real sharing matrix from the predicted one is itself a failure of the property (the
    # prediction is what the theorems are about); it is classified like the oracle's failures
    DIFF_IS_FAILURE = True

    def diff_failure(self, case, d):
        cold = case['order'] == 'first'
        if case['api'] in MUTATORS:
            return (f"C06-unexpected:{case['api']} | {case['cls']} {case['api']}: sharing after the call {d['impl']} "
                    f"differs from the predicted {d['model']}")
        impl = dict(kv.split('=') for kv in d['impl'].split(' '))
        model = dict(kv.split('=') for kv in d['model'].split(' ')) if '=' in d['model'] else {}
        differ = [k for k in impl if impl.get(k) != model.get(k)]
        cells, top = None, False
        if any(k in ('ge1', 'ge2') for k in differ):
            what = 'graph-shares-export'
        elif 'e1e2' in differ:
            what = 'exports-share'
        else:
            what = 'cells-share'
            try:
                g = build(case)
                e = call_api(case, g, {})
                pair = pair_share(cells_of(case['api'], e))
                cells = list(pair) if pair else None
            except Exception:
                cells = None
        if case['api'] in DICT_APIS:
            what = 'matrix-differs-from-shallow-copy-model'
        sig = signature_of(case, what, cold, cells=cells, top=top)
        return (f"{sig} | {case['cls']} {case['api']} ({'first' if cold else 'later'} call): sharing matrix of the real "
                f"objects {d['impl']} differs from the predicted {d['model']} (bits {','.join(differ)})")

    def signature(self, case, failure):
        return failure.split(' | ')[0]

    def describe(self, case):
        return case

    # --------------------------------------------------------------------------------------------------------
    def run_skeleton(self, case):
        """exports of graph.skeleton: mutate the export, then the graph (all readers), the graph's own matrix /
        networkx exports and the next skeleton export must be what an untouched twin gives"""
        from harness import impl
        api = case['api'][3:]
        tags = [f"{case['cls']}:sk:{api}", 'warm:' + str(int(case.get('warm', False)))]
        triv = {'lines': [], 'impl': [], 'oracle': [], 'nontrivial': False, 'key': '', 'tags': tags}
        try:
            g, twin = build(case), build(case)
        except Exception as ex:  # noqa: BLE001
            triv['tags'] = tags + ['unbuildable:' + type(ex).__name__]
            return triv
        f = SKELETON_APIS[api]

        def full(x):
            out = [impl.snapshot(x)]
            for name, h in (('adj', lambda: x.adjacency_matrix.tolist()), ('numpy', lambda: x.to_numpy()[0].tolist()),
                            ('nx', lambda: sorted(map(tuple, x.to_networkx().edges()))),
                            ('skadj', lambda: x.skeleton.adjacency_matrix.tolist()),
                            ('skdict', lambda: dumps(x.skeleton.to_dict())),
                            ('sknx', lambda: sorted(map(sorted, x.skeleton.to_networkx().edges())))):
                try:
                    out.append((name, h()))
                except Exception as ex:  # noqa: BLE001
                    out.append((name, '!' + type(ex).__name__))
            return out
        oracle = []
        try:
            if case.get('warm'):
                for x in (g, twin):
                    for h in (lambda: x.adjacency_matrix, x.to_networkx, x.is_dag, lambda: x.to_numpy()):
                        try:
                            h()
                        except Exception:  # noqa: BLE001
                            pass
            e1 = f(g.skeleton)
            deep_mutate(e1)
            if full(g) != full(twin):
                a, b = full(g), full(twin)
                what = [x[0] if isinstance(x, tuple) else 'snapshot' for x, y in zip(a, b) if x != y]
                nested = is_nested(g.meta) or any(is_nested(n.meta) for n in twin.get_nodes()) or any(
                    is_nested(e.meta) for e in twin.get_edges())
                sig = f'C06-unexpected:skeleton.{api}'
                if api in ('to_dict', 'nodes', 'edges') and nested and set(what) <= {'snapshot', 'skdict'}:
                    # shallow metadata copy (Node / Edge constructors and to_dict copy the top-level dict only): D9 family
                    sig = f'C06-D9-to_dict-shallow-meta:skeleton.{api}'
                oracle.append(f'{sig} | {case["cls"]} skeleton.{api}: mutating the export changed the '
                              f'graph or a later export ({",".join(map(str, what))}); warm={case.get("warm")}')
        except Exception as ex:  # noqa: BLE001
            triv['tags'] = tags + ['raises:' + type(ex).__name__]
            return triv
        return {'lines': [], 'impl': [], 'oracle': oracle, 'nontrivial': bool(case['edges']),
                'key': dumps([case['cls'], case['api'], case.get('warm'), case['nodes'], case['edges']]), 'tags': tags}

    # --------------------------------------------------------------------------------------------------------
    CTORS = ('ctor:from_adjacency_matrix', 'ctor:from_adjacency_matrix_int', 'ctor:from_networkx', 'ctor:from_dict',
             'ctor:from_skeleton', 'ctor:from_adjacency_matrices', 'ctor:from_causal_graph')

    @staticmethod
    def _readout(h):
        """what the built graph is and answers (also through its memoising readers)"""
        out = {'snap': snapshot(h)}
        for name, f in (('numpy', lambda: canon(h.to_numpy())), ('adj', lambda: canon(h.adjacency_matrix)),
                        ('nx', lambda: canon(h.to_networkx())), ('dict', lambda: canon(h.to_dict())),
                        ('by_lag', lambda: canon(h.to_numpy_by_lag()) if hasattr(h, 'to_numpy_by_lag') else None)):
            try:
                out[name] = f()
            except Exception as e:  # noqa: BLE001
                out[name] = '!' + type(e).__name__
        return dumps(out)

    def run_ctor(self, case):
        """constructors take snapshots too: the object a graph was built FROM (matrix, networkx graph, dictionary, skeleton,
        plain graph) and the graph never alias each other.  Oracle only (no model line)."""
        import numpy
        from cai_causal_graph import CausalGraph
        api = case['api'][5:]
        tags = [f"{case['cls']}:ctor:{api}"]
        triv = {'lines': [], 'impl': [], 'oracle': [], 'nontrivial': False, 'key': '', 'tags': tags}
        try:
            g = build(case)
            C = type(g)
            if api == 'from_adjacency_matrix':
                src = copy.deepcopy(g.to_numpy())
                mk = lambda s: C.from_adjacency_matrix(s[0], s[1])
            elif api == 'from_adjacency_matrix_int':
                a, names = g.to_numpy()
                src = (numpy.array(a).astype(int), list(names))
                mk = lambda s: C.from_adjacency_matrix(s[0], s[1])
            elif api == 'from_networkx':
                src = copy.deepcopy(g.to_networkx())
                mk = lambda s: C.from_networkx(s)
            elif api == 'from_dict':
                src = copy.deepcopy(g.to_dict())
                mk = lambda s: C.from_dict(s)
            elif api == 'from_skeleton':
                src = g.copy().skeleton
                mk = lambda s: C.from_skeleton(s)
            elif api == 'from_adjacency_matrices':
                src = copy.deepcopy(g.to_numpy_by_lag())
                mk = lambda s: C.from_adjacency_matrices(s[0], s[1])
            else:
                src = CausalGraph.from_dict(copy.deepcopy(g.to_dict()), validate=False)
                mk = lambda s: _ts().from_causal_graph(s)
            h = mk(src)
        except Exception as ex:  # noqa: BLE001 -- the route does not apply to this graph
            triv['tags'] = tags + ['raises:' + type(ex).__name__]
            return triv
        oracle = []
        warm = case.get('order') == 'later'
        if warm:
            self._readout(h)
        before = self._readout(h)
        src_before = dumps(canon(src._graph if api == 'from_skeleton' else src))
        # 1. change what the graph was built from
        try:
            if api == 'from_skeleton':
                self.mutate_graph(src._graph)
            elif api == 'from_causal_graph':
                self.mutate_graph(src)
            else:
                deep_mutate(src)          # (flips every array once, grows every list / dictionary / networkx graph)
        except Exception:  # noqa: BLE001
            pass
        if self._readout(h) != before:
            oracle.append(f"ctor-source-reaches-graph | {case['cls']} {api} ({'warm' if warm else 'cold'} readers): changing "
                          f'the object the graph was built from changed the graph or one of its exports')
        # 2. change the built graph: a second source of the same shape must not notice
        try:
            g2 = build(case)
            if api in ('from_skeleton',):
                src2 = g2.skeleton
                watch = lambda: dumps(snapshot(g2))
            elif api == 'from_causal_graph':
                src2 = CausalGraph.from_dict(copy.deepcopy(g2.to_dict()), validate=False)
                watch = lambda: dumps(snapshot(src2))
            else:
                src2 = {'from_adjacency_matrix': lambda: copy.deepcopy(g2.to_numpy()),
                        'from_adjacency_matrix_int': lambda: (numpy.array(g2.to_numpy()[0]).astype(int), list(g2.to_numpy()[1])),
                        'from_networkx': lambda: copy.deepcopy(g2.to_networkx()),
                        'from_dict': lambda: copy.deepcopy(g2.to_dict()),
                        'from_adjacency_matrices': lambda: copy.deepcopy(g2.to_numpy_by_lag())}[api]()
                watch = lambda: dumps(canon(src2))
            h2 = mk(src2)
            w0 = watch()
            self.mutate_graph(h2)
            for f in (lambda: _abuse(h2.to_numpy()[0]), lambda: _abuse(h2.adjacency_matrix)):
                try:
                    f()
                except Exception:  # noqa: BLE001
                    pass
            if watch() != w0:
                oracle.append(f"ctor-graph-reaches-source | {case['cls']} {api}: changing the built graph changed the object "
                              f'it was built from')
        except Exception:  # noqa: BLE001
            pass
        del src_before
        return {'lines': [], 'impl': [], 'oracle': oracle, 'nontrivial': bool(case['edges']) or bool(case.get('gmeta')),
                'key': dumps([case['cls'], api, case.get('order'), case['nodes'], case['edges'], case.get('gmeta')]), 'tags': tags}

    def run_mut(self, case):
        """mutators that take or move a metadata container: after the call, (int) do two metadata cells of the graph
        share, (arg) does the graph share with the caller's dictionary, (old) does it share with the metadata of an
        object the call removed; oracle: changing one metadata cell of the graph changes no other"""
        api = case['api']
        tags = [f"{case['cls']}:{api}"]
        triv = {'lines': [], 'impl': [], 'oracle': [], 'nontrivial': False, 'key': '', 'tags': tags}
        try:
            g = build(case)
            shape = shape_tokens(g)
            m = mk_meta(case['marg'], 'arg')
            token, removed = apply_mutator(case, g, m)
        except Exception as ex:
            triv['tags'] = tags + ['raises:' + type(ex).__name__]
            return triv
        G = set(reach(g))
        cells = cells_of(api, g)
        old = set()
        for r in removed:
            old |= set(reach(r))
        bit = lambda b: '1' if b else '0'
        impl = f'int={bit(pair_share(cells))} arg={bit(set(reach(m)) & G)} old={bit(old & G)}'
        line = f"alias {token} {case['cls']} m{bit(is_nested(m))} repaired {shape}"
        oracle = []
        vals = [dumps(canon(c)) for _, c in cells]
        for i, (name_i, c) in enumerate(cells[:80]):
            deep_mutate(c, tag=f'{MUT}{i}')
            vals[i] = dumps(canon(c))
            for j, (name_j, d) in enumerate(cells):
                if j != i and dumps(canon(d)) != vals[j]:
                    vals[j] = dumps(canon(d))
                    if not oracle:
                        oracle.append(f"C06-unexpected:{api} | {case['cls']} {api}: after the call, mutating the "
                                      f"metadata of `{name_i}` changed `{name_j}`")
        nested = shape_nested(shape) or is_nested(m)
        return {'lines': [line], 'impl': [impl], 'oracle': oracle, 'nontrivial': bool(nested),
                'key': dumps([case['cls'], token, case['marg'], shape]), 'tags': tags + ['mutator']}

    def run_case(self, case):
        api = case['api']
        if api in MUTATORS:
            return self.run_mut(case)
        if api.startswith('sk:'):
            return self.run_skeleton(case)
        if api.startswith('ctor:'):
            return self.run_ctor(case)
        tags = [f"{case['cls']}:{api}", 'order:' + case['order'], 'mutate:' + str(int(case['mutate']))]
        triv = {'lines': [], 'impl': [], 'oracle': [], 'nontrivial': False, 'key': '', 'tags': tags}
        try:
            g = build(case)
        except Exception as ex:      # the generator produced a graph the class rejects: not a case
            triv['tags'] = tags + ['unbuildable:' + type(ex).__name__]
            return triv
        cold = case['order'] == 'first'
        held = {}
        # ---- phase A: the sharing matrix of the real objects -------------------------------------------------
        try:
            e0 = None if cold else call_api(case, g, held)
            if case.get('warmall'):
                histories.warm_caches(g)
                tags.append('warm-flags')
            token = recipe_token(case, g)
            shape = shape_tokens(g)
            e1 = call_api(case, g, held)
        except Exception as ex:      # the API does not apply to this graph (e.g. mixed edges into to_networkx)
            triv['tags'] = tags + ['raises:' + type(ex).__name__]
            return triv
        if case['mutate']:
            deep_mutate(e1)
        e2 = call_api(case, g, held)
        src = held.get('src', g) if api == 'from_dict' else g
        G, A, B = set(reach(src)), set(reach(e1)), set(reach(e2))
        c1, c2 = cells_of(api, e1), cells_of(api, e2)
        s1, s2 = pair_share(c1), pair_share(c2)
        bit = lambda b: '1' if b else '0'
        impl = f'ge1={bit(G & A)} ge2={bit(G & B)} e1e2={bit(A & B)} e1={bit(s1)} e2={bit(s2)}'
        line = f"alias {token} {case['cls']} {'first' if cold else 'later'} repaired {shape}"
        nested = shape_nested(shape)
        tags.append('nested' if nested else 'flat')
        # ---- phase B: the property itself, by mutation, on a new instance ------------------------------------
        oracle = self.oracle(case, cold)
        del e0
        return {'lines': [line], 'impl': [impl], 'oracle': oracle, 'nontrivial': bool(nested),
                'key': dumps([case['cls'], api, case['order'], case['mutate'], bool(case.get('warmall')), token, shape]), 'tags': tags}

    # --------------------------------------------------------------------------------------------------------
    def oracle(self, case, cold):
        api = case['api']
        fails = []
        seen_sigs = set()

        def fail(what, text, cells=None, top=False):
            sig = signature_of(case, what, cold, cells=cells, top=top)
            if sig not in seen_sigs:
                seen_sigs.add(sig)
                fails.append(f"{sig} | {case['cls']} {api} ({'first' if cold else 'later'} call): {text}")

        g = build(case)
        held = {}
        if api == 'from_dict':
            held['src'] = copy.deepcopy(g.to_dict())
        e0 = None if cold else call_api(case, g, held)
        if case.get('warmall'):
            # every memoising reader has answered (is_dag, is_minimal_graph, is_stationary_graph, variables, ...): a
            # derived graph taken now must still be a new object
            histories.warm_caches(g)
        src_snap = lambda: dumps(canon(held['src'])) if api == 'from_dict' else dumps(snapshot(g))
        snap0 = src_snap()
        e1 = call_api(case, g, held)
        if src_snap() != snap0:
            fail('source-modified-by-call', 'producing the export changed the source graph')
            snap0 = src_snap()
        v1 = dumps(canon(e1))
        e2 = call_api(case, g, held)
        v2 = dumps(canon(e2))
        # 0. a graph is made of its OWN objects: the end points of its edges and the nodes its look-ups list are the very
        #    node objects get_node returns (a derived graph whose edge points at a node of the source graph, or at a detached
        #    temporary, is changed by editing something else)
        _, _, _CG, _, _ = _types()
        for label, x in (('the source graph', g), ('the export', e1)):
            if isinstance(x, _CG):
                bad = foreign_objects(x)
                if bad:
                    fail('foreign-object', f'{label}: {bad}')
        # 1. change the first export
        deep_mutate(e1)
        top = api != 'from_dict' and top_level_leak(g)
        if src_snap() != snap0:
            where = '' if api not in DICT_APIS else (' (top-level metadata)' if top else ' (a container nested in metadata)')
            fail('graph-changed', 'mutating the export changed the graph' + where, top=top)
        if dumps(canon(e2)) != v2:
            fail('other-export-changed', 'mutating one export changed another export still held', top=top)
        e3 = call_api(case, g, held)
        v3 = dumps(canon(e3))
        if v3 != v1:
            fail('next-export-changed', 'mutating the export changed what the next call returns', top=top)
        # 2. distinct cells of one export never share: change one, watch the others (on a clean export if possible)
        fresh = e3 if v3 == v1 else e2
        cells = cells_of(api, fresh)[:80]
        vals = [dumps(canon(c)) for _, c in cells]
        for i, (name_i, c) in enumerate(cells):
            deep_mutate(c, tag=f'{MUT}{i}')
            vals[i] = dumps(canon(c))
            for j, (name_j, d) in enumerate(cells):
                if j != i and dumps(canon(d)) != vals[j]:
                    top_ij = isinstance(d, dict) and d.get(MUT) == f'{MUT}{i}'
                    fail('cells-share', f'mutating the metadata of `{name_i}` inside the export changed `{name_j}`',
                         cells=[name_i, name_j], top=top_ij)
                    vals[j] = dumps(canon(d))
        # 3. later changes to the graph never reach an export already held
        if api != 'from_dict':
            e4 = call_api(case, g, held)
            v4 = dumps(canon(e4))
            self.mutate_graph(g)
            if dumps(canon(e4)) != v4:
                top4 = self.export_top_leak(api, e4)
                fail('graph-change-reached-export', 'changing the graph afterwards changed an export already held',
                     top=top4)
        del e0
        return fails

    @staticmethod
    def mutate_graph(g):
        from cai_causal_graph.type_definitions import EdgeType
        tag = MUT + 'g'
        deep_mutate(g.meta, tag)
        for n in g.get_nodes():
            deep_mutate(n.meta, tag)
        for e in g.get_edges():
            deep_mutate(e.meta, tag)
        g.add_node(MUT + 'a')
        g.add_node(MUT + 'b')
        g.add_edge(MUT + 'a', MUT + 'b')
        es = g.get_edges()
        if len(es) > 1:
            g.delete_edge(*es[0].get_edge_pair())
        if len(es) > 2 and es[1].get_edge_type() == EdgeType.DIRECTED_EDGE and type(g).__name__ == 'CausalGraph':
            g.change_edge_type(*es[1].get_edge_pair(), EdgeType.UNDIRECTED_EDGE)

    @staticmethod
    def export_top_leak(api, e):
        """did a later change of the graph arrive in a top-level metadata dictionary held by the export?"""
        return any(isinstance(c, dict) and (MUT in c) for _, c in cells_of(api, e))

    # --------------------------------------------------------------------------------------------------------
    def shrink(self, case, still_fails):
        """greedy: drop edges, drop unused nodes, flatten metadata, while the case still fails"""
        cur = json.loads(json.dumps(case))

        def attempt(c):
            try:
                return still_fails(c)
            except Exception:
                return False
        if cur['api'] in NEEDS_NODE or cur['api'] == 'edge_to_dict' or cur['api'] in MUTATORS:
            return cur      # the argument is a position; removing things would change its meaning
        changed = True
        while changed:
            changed = False
            for i in range(len(cur['edges'])):
                c = json.loads(json.dumps(cur))
                del c['edges'][i]
                if attempt(c):
                    cur, changed = c, True
                    break
            if changed:
                continue
            used = {x for e in cur['edges'] for x in e[:2]}
            for i, (n, _) in enumerate(cur['nodes']):
                if n not in used and len(cur['nodes']) > 1:
                    c = json.loads(json.dumps(cur))
                    del c['nodes'][i]
                    if attempt(c):
                        cur, changed = c, True
                        break
        for path in [('gmeta',)] + [('nodes', i) for i in range(len(cur['nodes']))] + \
                [('edges', i) for i in range(len(cur['edges']))]:
            c = json.loads(json.dumps(cur))
            if len(path) == 1:
                if c['gmeta'] in (None, 0):
                    continue
                c['gmeta'] = None
            else:
                if c[path[0]][path[1]][-1] in (None, 0):
                    continue
                c[path[0]][path[1]][-1] = None
            if attempt(c):
                cur = c
        return cur
