"""C14 lane: the minimal graph is exactly the set of lag-invariant edge templates.

Model side: `ts minimal <graph> <idx>`, `ts isminimal <graph> <idx>` (lean/CG/Driver/HTs.lean, model CG.TS.minimalGraph /
isMinimalGraph).  `<idx>` is the order of the implementation's variable index (`get_nodes_for_variable_name`), which
decides whose attributes a floating variable's lag-0 node inherits and which the graph state does not determine.
"""
from harness import histories, impl, tsgen
from harness.core import LaneBase


class Lane(LaneBase):
    PROP = 'C14'
    THEOREMS = 'auto'          # = the `#print axioms` lines of the audit file
    AUDIT = 'CG/Audit/C14.lean'
    DIFF_IS_FAILURE = False
    RULE = ('template sets over 1-4 variables (names with spaces / newlines / non-ASCII), differences 0-3, all six edge '
            'types (70 % directed), each template instantiated at 1..all positions of a lag window [-3..0, 0..2], '
            'shuffled insertion order, floating nodes at arbitrary lags, per-variable types / metadata, per-template '
            'edge metadata; about 12 % with per-node attributes and 8 % with implicitly created (bare) nodes '
            '(correspondence of the first-wins attribute choice); 20 % inconsistent / non-canonical inputs '
            '(correspondence incl. error class only).  Compared: full graph token of get_minimal_graph(), of the '
            'minimal graph of the minimal graph, is_minimal_graph() of both.  Non-trivial: input in the domain '
            '(canonical names, consistent templates) with at least one edge; distinct by the graph token.')
    TRUSTED = ['the insertion order of the variable index is read from the implementation and handed to the model',
               'adjacency_matrices / to_numpy_by_lag are checked by the oracle only in this lane (their model belongs '
               'to the matrix helper)']
    PARTIAL = ['adjMatrices_eq belongs to the matrix lane (the C14 lane checks adjacency_matrices / to_numpy_by_lag on '
               'the implementation only)',
               'is_minimal_graph is stated through the temporary tsGraphEqShallow of CG/Model/TS.lean (to be swapped '
               'for graphEq false)']

    def cases(self, tier, rng):
        n = 8000 if tier == "quick" else 80000
        for _ in range(n):
            if rng.random() < 0.8:
                yield tsgen.gen_consistent(rng)
            else:
                yield tsgen.gen_inconsistent(rng)
        # lags of four and more digits (one template reaching far back, one floating node far away)
        for _ in range(6 if tier == 'quick' else 30):
            a, b = rng.sample(['X', 'Y', 'Z', 'my var'], 2)
            big = rng.choice([1000, 1001, 1234])
            ops = [['add_edge', tsgen.fmt(a, -big), tsgen.fmt(b, 0), '->', {'m': 1}, True],
                   ['add_edge', tsgen.fmt(a, -1), tsgen.fmt(a, 0), '->', {}, True]]
            if rng.random() < 0.5:
                ops.append(['add_node', tsgen.fmt('F', -rng.choice([1000, 1100])), 'binary', {'k': 1}])
            rng.shuffle(ops)
            yield {'kind': 'big-lag', 'gmeta': None, 'ops': ops}

    def run_case(self, case):
        g, rejected = tsgen.build(case)
        tok, idx = tsgen.graph_args(g)
        lines = [f'ts minimal {tok} {idx}', f'ts isminimal {tok} {idx}']
        m, r1 = tsgen.reply_graph(g.get_minimal_graph)
        ismin, r2 = tsgen.reply_bool(g.is_minimal_graph)
        out = [r1, r2]
        mm = None
        if m is not None:
            mtok, midx = tsgen.graph_args(m)
            lines += [f'ts minimal {mtok} {midx}', f'ts isminimal {mtok} {midx}']
            mm, r3 = tsgen.reply_graph(m.get_minimal_graph)
            m_ismin, r4 = tsgen.reply_bool(m.is_minimal_graph)
            out += [r3, r4]
        tags = [case['kind'], 'min:' + r1.split(' ')[0] + ('' if r1.startswith('ok') else ':' + r1[4:])]
        oracle = []
        dom = tsgen.in_domain(g)
        if dom:
            tags.append('in-domain')
            oracle = self.oracle(g, m, r1, ismin, r2, mm, out)
        else:
            tags.append('out-of-domain')
            oracle = tsgen.coherence_failures(g)
        if rejected:
            tags.append('some-op-rejected')
        lines, out, _cut = tsgen.fit_budget(lines, out)       # (after the oracle has seen every reply)
        return {'lines': lines, 'impl': out, 'oracle': oracle, 'nontrivial': dom and len(g.get_edges()) > 0,
                'key': tsgen.digest(tok, idx), 'tags': tags}

    def oracle(self, g, m, r1, ismin, r2, mm, out):
        bad = []
        want = tsgen.spec_minimal(g)
        if m is None:
            return [f'minimal-raised: get_minimal_graph raised {r1[4:]} on a template-consistent graph']
        bad += tsgen.shape_diff('minimal-shape: get_minimal_graph differs from the template set', tsgen.shape(m), want)
        bad += tsgen.names_canonical_failures('minimal-names', m)
        if impl.enc_meta(m.meta) != impl.enc_meta(g.meta):
            bad.append('minimal-gmeta: graph metadata not carried over')
        ok, va, ta = tsgen.var_consistent(g)
        if ok:
            bad += tsgen.attr_failures('minimal-attrs', m, va, ta)
        # fixed point and minimality of the result
        if mm is None:
            bad.append(f'minimal-idem: get_minimal_graph of the minimal graph raised {out[2][4:]}')
        elif impl.enc_graph(mm) != impl.enc_graph(m):
            bad.append('minimal-idem: applying get_minimal_graph again changes the graph')
        elif not (mm == m and mm.__eq__(m, True)):
            bad.append('minimal-idem: the minimal graph of the minimal graph does not compare equal to it')
        if len(out) > 3 and out[3] != '1':
            bad.append(f'minimal-ismin: is_minimal_graph() of the minimal graph answered {out[3]}')
        # is_minimal_graph(g) <-> g equals its minimal graph (the Spec one)
        if ismin is None:
            bad.append(f'ismin-raised: is_minimal_graph raised {r2[4:]}')
        else:
            exp = self.equal_to_shape(g, want)
            if bool(ismin) != exp:
                bad.append(f'ismin: is_minimal_graph() = {ismin} but the graph {"equals" if exp else "differs from"} '
                           f'its template set')
        bad += self.matrices(g, want)
        return bad

    @staticmethod
    def equal_to_shape(g, want):
        wn, we = want
        if tsgen.pair_nodes(g) != wn:
            return False

        def norm(edges):
            return {frozenset(k): (t, None if t in tsgen.SYM else k) for k, t in edges.items()}
        return norm(tsgen.pair_edges(g)) == norm(we)

    @staticmethod
    def matrices(g, want):
        """adjacency_matrices = the template set written as one matrix per source lag"""
        _, we = want
        vars_ = tsgen.variables_of(g)
        types = set(we.values())
        try:
            am = g.adjacency_matrices
        except TypeError:
            if types <= {'->', '--'}:
                return ['matrices: adjacency_matrices raised TypeError although all templates are -> or --']
            return []
        except Exception as e:  # noqa: BLE001
            return [f'matrices: adjacency_matrices raised {type(e).__name__}']
        if not types <= {'->', '--'}:
            return ['matrices: adjacency_matrices did not raise TypeError for a template that is neither -> nor --']
        exp = {}
        n = len(vars_)
        for ((s, sl), (d, _)), t in we.items():
            mat = exp.setdefault(sl, [[0] * n for _ in range(n)])
            mat[vars_.index(s)][vars_.index(d)] = 1
            if t == '--':
                mat[vars_.index(d)][vars_.index(s)] = 1
        got = {int(k): [[int(x) for x in row] for row in v.tolist()] for k, v in am.items()}
        if got != exp:
            return [f'matrices: adjacency_matrices {got} differ from the template set {exp} over {vars_}']
        try:
            am2, names = g.to_numpy_by_lag()
        except Exception as e:  # noqa: BLE001
            return [f'matrices: to_numpy_by_lag raised {type(e).__name__}']
        got2 = {int(k): [[int(x) for x in row] for row in v.tolist()] for k, v in am2.items()}
        if got2 != exp or list(names) != vars_:
            return ['matrices: to_numpy_by_lag differs from the template set / sorted variables']
        return []

    def signature(self, case, failure):
        return 'C14:' + failure.split(':')[0]

    def shrink(self, case, still_fails):
        return histories.shrink_ops(case, still_fails)

    def describe(self, case):
        return tsgen.describe(case)
