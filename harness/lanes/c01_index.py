"""
C01 / DESIGN "B. State representation", white-box half: the REDUNDANT private containers of the implementation against
the canonical indexes of the Lean index-level model (`CG.Indexed.IGraph.ofGraph`, handler token `idx`).

NOT a full lane: a lane that holds a real graph object `g` imports

    index_lines(g)  ->  [(line, expected_reply)]        (one pair, or [] -- see below)

and appends `line` to its `lines` and `expected_reply` to its `impl`.

    line      = 'idx views ' + harness.impl.enc_graph(g)       the state as the PUBLIC readers report it
    expected  = 'S=… D=… N=… L=… V=…'                          the same canonical text computed from the PRIVATE containers

        S   sorted (source, destination) of `g._edges_by_source[s][d]`                       hxedges
        D   sorted (destination, source) of `g._edges_by_destination[d][s]`                  hxedges, written dst>src
        N   per node of `g._nodes_by_identifier` (sorted): `hexid:<inbound>:<outbound>` with the SORTED pairs of
            `node._inbound_edges` / `node._outbound_edges` (hxedges), joined by `;` (`.` = no node)
        L   per key of `g._lag_to_nodes` with a non-empty list (ascending): `<lag>:<sorted hex identifiers>`; `.` = none
        V   per key of `g._variable_name_to_nodes` with a non-empty list (sorted): `hexvar:<sorted hex identifiers>`
        (a plain `CausalGraph` has neither cache: L and V are `.`)

    Empty buckets of the two `defaultdict(dict)` / `defaultdict(list)` are ignored (a mere lookup creates them).  Members
    are sorted because the model side is stateless (insertion order depends on the history); duplicates are NOT removed,
    so a member stored twice shows.

White-box, therefore OPTIONAL: if one of the private attributes is missing (a harmless refactoring renamed it),
`index_lines` returns [] instead of failing.

What is proved about the model side (lean/CG/Proofs/IndexRefine.lean): the coherence invariant `Mirror` holds for
`IGraph.ofGraph g`, is preserved by the four index-level primitives, which commute with `abs`; every index-level reader
agrees with the one-map reader under `Mirror`.  This file measures that the implementation's containers ARE the ones of
`IGraph.ofGraph (state reported by the public readers)` after every call of random histories.

    PrimLog()                 context manager: records, on the REAL classes, every successful write as a call of one of the
                              four index-level primitives (`add_node` -> n, the write inside `_set_edge` -> e,
                              `delete_edge` -> x, `delete_node` -> d with its nested `delete_edge` calls folded into it)
    replay_lines(g, log)  ->  [(line, expected)]: `idx replay <cls> <prims…>` against the private containers of `g` with
                              the members of every list in their REAL order (`Node._inbound_edges` as appended / removed,
                              `_lag_to_nodes[l]` as appended / removed): measures that `IGraph.insNode / insEdge /
                              delEdgeRaw / delNodeRaw` do to every container what the code does, ORDER included.

    self_test(seeds=(1, 2, 3), histories=12, length=30)
        random histories (`harness.histories.Gen`) on both classes, the comparison after EVERY call, through a
        `harness.core.ModelClient`; then two desynchronising monkeypatches (the by-destination write of `_set_edge`
        dropped; a node left in `_lag_to_nodes` / `_variable_name_to_nodes` after `delete_node`) which MUST be caught.
        Returns the list of disagreements (empty = agreement on the unchanged tree and both mutants caught).
"""
from __future__ import annotations

import random
import sys
import time

from harness.core import hx, hxedges, hxlist, setup_repo_path

_PRIVATE_GRAPH = ('_nodes_by_identifier', '_edges_by_source', '_edges_by_destination')
_PRIVATE_NODE = ('_inbound_edges', '_outbound_edges')
_PRIVATE_TS = ('_lag_to_nodes', '_variable_name_to_nodes')


def _pair(e):
    return (e.source.identifier, e.destination.identifier)


def private_views(g, keep_order=False):
    """the canonical text from the private containers, or None when a private attribute is missing;
    `keep_order`: members of the node lists and of the lag / variable lists in their real order"""
    from harness import impl
    srt = (lambda xs: list(xs)) if keep_order else sorted
    for a in _PRIVATE_GRAPH:
        if not hasattr(g, a):
            return None
    nodes = g._nodes_by_identifier
    by_src = sorted((s, d) for s, b in list(g._edges_by_source.items()) for d in b)
    by_dst = sorted((d, s) for d, b in list(g._edges_by_destination.items()) for s in b)
    per_node = []
    for n in sorted(nodes):
        node = nodes[n]
        for a in _PRIVATE_NODE:
            if not hasattr(node, a):
                return None
        per_node.append(hx(n) + ':' + hxedges(srt(_pair(e) for e in node._inbound_edges))
                        + ':' + hxedges(srt(_pair(e) for e in node._outbound_edges)))
    lag, var = [], []
    if impl.is_ts(g):
        for a in _PRIVATE_TS:
            if not hasattr(g, a):
                return None
        for k in sorted(k for k, v in list(g._lag_to_nodes.items()) if v):
            lag.append(f'{int(k)}:' + hxlist(srt(x.identifier for x in g._lag_to_nodes[k])))
        for k in sorted(k for k, v in list(g._variable_name_to_nodes.items()) if v):
            var.append(hx(k) + ':' + hxlist(srt(x.identifier for x in g._variable_name_to_nodes[k])))
    return ('S=' + hxedges(by_src) + ' D=' + hxedges(by_dst) + ' N=' + (';'.join(per_node) if per_node else '.')
            + ' L=' + (';'.join(lag) if lag else '.') + ' V=' + (';'.join(var) if var else '.'))


def index_lines(g):
    """[(request line, expected reply)] for the real graph object `g`; [] when the private layout is not the known one"""
    from harness import impl
    try:
        expected = private_views(g)
    except AttributeError:
        return []
    if expected is None:
        return []
    return [('idx views ' + impl.enc_graph(g), expected)]


# ----------------------------------------------------------------------------------------------------------
# the history as primitive calls
# ----------------------------------------------------------------------------------------------------------

class PrimLog:
    """Patch the real classes so that every successful write is recorded as one index-level primitive call.

        n:<id>:<var>:<lag>   `CausalGraph.add_node` returned (a fresh `Node`; the time-series override adds it to the caches)
        e:<src>:<dst>:<ty>   `_set_edge` passed its two checks, i.e. is about to write (recorded BEFORE the call, because
                             a rejected cycle is rolled back through `delete_edge`, which records its own `x`)
        x:<src>:<dst>        `delete_edge` returned (not recorded inside `delete_node`: the primitive `d` cascades itself)
        d:<id>               `CausalGraph.delete_node` returned

    The in-place `replace_node` mutates the `Node` object and touches no container: nothing to record."""

    def __init__(self):
        self.log = []
        self._depth = 0
        self._saved = None

    def __enter__(self):
        from cai_causal_graph.causal_graph import CausalGraph
        from cai_causal_graph.graph_components import Node
        log, me = self.log, self
        o_add, o_set, o_del_e, o_del_n = (CausalGraph.add_node, CausalGraph._set_edge, CausalGraph.delete_edge,
                                          CausalGraph.delete_node)
        self._saved = (CausalGraph, o_add, o_set, o_del_e, o_del_n)

        def add_node(self, *a, **k):
            node = o_add(self, *a, **k)
            var = getattr(node, 'variable_name', None)
            lag = getattr(node, 'time_lag', None)
            log.append('n:' + hx(node.identifier) + ':' + hx(var if isinstance(var, str) else '') + ':'
                       + str(int(lag) if lag is not None else 0))
            return node

        def _set_edge(self, edge, validate=True):
            s, d = edge.source.identifier, edge.destination.identifier
            if (self._edges_by_source.get(d, {}).get(s) is None and self._edges_by_source.get(s, {}).get(d) is None):
                log.append('e:' + hx(s) + ':' + hx(d) + ':' + str(edge.get_edge_type()))
            return o_set(self, edge, validate)

        def delete_edge(self, source, destination, *a, **k):
            r = o_del_e(self, source, destination, *a, **k)
            if me._depth == 0:
                log.append('x:' + hx(Node.identifier_from(source)) + ':' + hx(Node.identifier_from(destination)))
            return r

        def delete_node(self, identifier, *a, **k):
            me._depth += 1
            try:
                r = o_del_n(self, identifier, *a, **k)
            finally:
                me._depth -= 1
            log.append('d:' + hx(Node.identifier_from(identifier)))
            return r

        CausalGraph.add_node, CausalGraph._set_edge = add_node, _set_edge
        CausalGraph.delete_edge, CausalGraph.delete_node = delete_edge, delete_node
        return self

    def __exit__(self, *exc):
        cg, o_add, o_set, o_del_e, o_del_n = self._saved
        cg.add_node, cg._set_edge, cg.delete_edge, cg.delete_node = o_add, o_set, o_del_e, o_del_n
        return False


def replay_lines(g, log):
    """[(request line, expected reply)]: the model's primitives replayed over the recorded calls against the private
    containers in their real member order; [] when the private layout is not the known one"""
    from harness import impl
    try:
        expected = private_views(g, keep_order=True)
    except AttributeError:
        return []
    if expected is None:
        return []
    return [('idx replay ' + ('ts' if impl.is_ts(g) else 'plain') + ''.join(' ' + p for p in log), expected)]


# ----------------------------------------------------------------------------------------------------------
# self test
# ----------------------------------------------------------------------------------------------------------

def _drive_replay(client, seeds, histories, length, tag, stats):
    from harness import impl
    from harness.histories import Gen
    bad = []
    for seed in seeds:
        for cls in ('plain', 'ts'):
            rng = random.Random(f'{tag}-{seed}-{cls}')
            for h in range(histories):
                with PrimLog() as pl:
                    gen = Gen(rng, cls)
                    for step in range(length):
                        op = gen.next_op()
                        impl.apply_op(gen.g, op)
                        pairs = replay_lines(gen.g, pl.log)
                        if not pairs:
                            stats['skipped'] += 1
                            continue
                        (line, expected), = pairs
                        got, = client.ask([line])
                        stats['replays'] += 1
                        stats['prims'] = max(stats['prims'], len(pl.log))
                        if got != expected:
                            bad.append((cls, seed, h, step, op[0], 'replay', expected, got, list(pl.log)))
                            break
    return bad


def _drive(client, seeds, histories, length, tag, stats):
    from harness import impl
    from harness.histories import Gen
    bad = []
    for seed in seeds:
        for cls in ('plain', 'ts'):
            rng = random.Random(f'{tag}-{seed}-{cls}')
            for h in range(histories):
                gen = Gen(rng, cls)
                for step in range(length):
                    op = gen.next_op()
                    reply = impl.apply_op(gen.g, op)
                    try:
                        pairs = index_lines(gen.g)
                    except Exception as e:  # noqa: BLE001 - a broken implementation may fail to encode its state
                        bad.append((cls, seed, h, step, op[0], 'index_lines raised ' + type(e).__name__, ''))
                        break
                    if not pairs:
                        stats['skipped'] += 1
                        continue
                    (line, expected), = pairs
                    got, = client.ask([line])
                    stats['lines'] += 1
                    stats['ok' if reply == 'ok' else 'err'] += 1
                    stats['dir'] += expected.count('>') > 0
                    if got != expected:
                        bad.append((cls, seed, h, step, op[0], expected, got))
                        break
    return bad


def _mutant_set_edge():
    """`_set_edge` without its by-destination write"""
    from cai_causal_graph.causal_graph import CausalGraph
    orig = CausalGraph._set_edge

    def broken(self, edge, validate=True):
        orig(self, edge, validate)
        s, d = edge.source.identifier, edge.destination.identifier
        if self._edges_by_source.get(s, {}).get(d) is not None:
            self._edges_by_destination.get(d, {}).pop(s, None)

    CausalGraph._set_edge = broken
    return lambda: setattr(CausalGraph, '_set_edge', orig)


def _mutant_lag_cache():
    """`delete_node` of the time-series class that leaves the node in the two caches"""
    from cai_causal_graph.time_series_causal_graph import TimeSeriesCausalGraph
    orig = TimeSeriesCausalGraph._remove_node_from_cache
    TimeSeriesCausalGraph._remove_node_from_cache = lambda self, node: None
    return lambda: setattr(TimeSeriesCausalGraph, '_remove_node_from_cache', orig)


def self_test(seeds=(1, 2, 3), histories=12, length=30, verbose=True):
    setup_repo_path()
    from harness.core import ModelClient
    t0 = time.time()
    stats = {'lines': 0, 'ok': 0, 'err': 0, 'dir': 0, 'skipped': 0}
    client = ModelClient()
    try:
        bad = _drive(client, seeds, histories, length, 'idx', stats)
        if verbose:
            print(f'unchanged tree: {stats}, disagreements {len(bad)}, {time.time() - t0:.1f}s', file=sys.stderr, flush=True)
        rstats = {'replays': 0, 'prims': 0, 'skipped': 0}
        rbad = _drive_replay(client, seeds, histories, length, 'idx-replay', rstats)
        bad.extend(rbad)
        if verbose:
            print(f'replay (member order): {rstats}, disagreements {len(rbad)}, {time.time() - t0:.1f}s', file=sys.stderr, flush=True)
        for name, install in (('set_edge-skips-by-destination', _mutant_set_edge), ('lag-cache-keeps-deleted-node', _mutant_lag_cache)):
            restore = install()
            try:
                mstats = {'lines': 0, 'ok': 0, 'err': 0, 'dir': 0, 'skipped': 0}
                caught = _drive(client, seeds[:1], histories, length, 'idx-' + name, mstats)
            finally:
                restore()
            if verbose:
                print(f'mutant {name}: caught in {len(caught)} histories (first: {caught[0][:5] if caught else None})',
                      file=sys.stderr, flush=True)
            if not caught:
                bad.append(('mutant', name, 'NOT detected'))
        # the optional part: a renamed private attribute yields no line instead of a failure
        from harness import impl
        g = impl.new_graph('plain')
        g.add_edge('a', 'b')
        saved = g.__dict__.pop('_edges_by_destination')
        if index_lines(g) != []:
            bad.append(('optional', 'missing attribute did not yield []'))
        g.__dict__['_edges_by_destination'] = saved
        if len(index_lines(g)) != 1:
            bad.append(('optional', 'restored attribute did not yield one line'))
    finally:
        client.close()
    if verbose:
        print(f'done: disagreements {len(bad)}, {time.time() - t0:.1f}s', file=sys.stderr, flush=True)
        for b in bad[:10]:
            print('DISAGREE', b, file=sys.stderr)
    return bad


if __name__ == '__main__':
    sys.exit(1 if self_test() else 0)
