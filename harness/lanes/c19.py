"""
Lane C19 — identify_instruments, identify_mediators.

Correspondence: `ident instruments|mediators <nodes> <edges> <s> <t> <max_num_paths> [fullyDirected]` against the real
functions (answers as sorted sets, errors by exception class).  The edge list is sent in networkx adjacency order: the
`max_num_paths` error of identify_instruments depends on the order in which all_simple_paths yields the paths.

Oracle (brute force, no networkx, independent of the Lean model), on the implementation's answers alone:
  instruments-ancestor   every instrument is a strict ancestor of the source
  instruments-dsep       every instrument is d-separated from the destination (empty conditioning set) in the graph
                         without the edges leaving the source
  *-reversed             both answers are empty when the destination is an ancestor of the source
  mediators-*            the answer is exactly { m : m strictly inside every directed s-t path with >= 2 edges, and no
                         confounder (as the implementation's identify_confounders reports them) reaches m in the graph
                         without the edges leaving s };  a wrong answer is classified
                           mediators-break      explained by the early `break` of the last filter loop (D13)
                           mediators-endpoints  explained by `path.difference(source_id, destination_id)` removing the
                                                characters of the identifiers instead of the identifiers (D16)
                           mediators-other      anything else
  hashseed               (thorough) the answers computed in sub-processes with PYTHONHASHSEED 0..3 are the same sets
  refusal                non-DAG input, an unknown node, s = t raise
"""
from __future__ import annotations

import itertools
import json
import os
import subprocess
import sys
import tempfile

from harness import gen
from harness.core import REPO, VERIF, LaneBase, MachineryError, hx, hxedges, hxlist
from harness.lanes import c18
from harness.lanes.c18 import (POOLS, pool_names, adjacency_edges, arg, build, call, canon, dag_case, default_pairs,
                               directed_paths, names_of, open_path, shrink_core, strict_anc, strict_desc)


# ----------------------------------------------------------------------------------------------
# the property, by brute force
# ----------------------------------------------------------------------------------------------

def mediator_sets(n, edges, s, t, confs, names):
    """(expected set, candidates with identifiers removed, candidates with characters removed, descendants-in-pruned)
    or None when the answer must be empty (t ancestor of s / no path with >= 2 edges)."""
    anc = strict_anc(n, edges)
    if t in anc[s]:
        return None
    paths = [p for p in directed_paths(n, edges, s, t) if len(p) > 2]
    if not paths:
        return None
    cand_fixed = set.intersection(*[set(p) - {s, t} for p in paths])
    chars = set(names[s]) | set(names[t])
    cand_chars = set.intersection(*[{v for v in p if names[v] not in chars} for p in paths])
    pdesc = strict_desc(n, [(a, b) for a, b in edges if a != s])
    expected = {m for m in cand_fixed if not any(m in pdesc[c] for c in confs)}
    return expected, cand_fixed, cand_chars, pdesc


def break_outcomes(cands, confs, pdesc):
    """every set the filter loop WITH the early break can return, over all iteration orders."""
    out = set()
    confs = list(confs)

    def rec(cur, rest):
        if not rest:
            out.add(frozenset(cur))
            return
        for i, c in enumerate(rest):
            hit = [m for m in cur if m in pdesc[c]]
            rest2 = rest[:i] + rest[i + 1:]
            if not hit:
                rec(cur, rest2)
            for m in hit:
                rec(cur - {m}, rest2)
    rec(frozenset(cands), confs)
    return out


def classify_mediators(n, edges, s, t, confs, names, answer):
    """None if `answer` (set of indices) is what the property demands, else the failure kind."""
    ms = mediator_sets(n, edges, s, t, confs, names)
    if ms is None:
        return None if not answer else 'mediators-nonempty'
    expected, cand_fixed, cand_chars, pdesc = ms
    if set(answer) == expected:
        return None
    if frozenset(answer) in break_outcomes(cand_fixed, confs, pdesc):
        return 'mediators-break'
    if frozenset(answer) in break_outcomes(cand_chars, confs, pdesc):
        return 'mediators-endpoints'
    return 'mediators-other'


def susceptible(kind, n, edges, s, t, names):
    """structural form of the two known defects (used only to shrink / name a failure that was observed):
    break: some iteration order of the loop with the early break gives a wrong set;
    endpoints: removing characters instead of identifiers changes the candidate set."""
    confs = c18.impl_confounders(n, edges, names, s, t)
    if confs is None:
        return False
    ms = mediator_sets(n, edges, s, t, confs, names)
    if ms is None:
        return False
    expected, cand_fixed, cand_chars, pdesc = ms
    if kind == 'mediators-break':
        return break_outcomes(cand_fixed, confs, pdesc) != {frozenset(expected)}
    return cand_chars != cand_fixed


def impl_answers(g, names, n, s, t, maxp=25):
    from cai_causal_graph.identify_utils import identify_instruments, identify_mediators
    a = call(identify_instruments, g, names[s], names[t], max_num_paths=maxp)
    b = call(identify_mediators, g, names[s], names[t], max_num_paths=maxp)
    return a, b


def to_idx(names, n, val):
    return None if val is None else [names.index(z) if z in names[:n] else -1 for z in val]


def check_pair(n, edges, s, t, names, ins, med, confs, anc=None):
    """failures of the property for one ordered pair; ins / med / confs are index lists (None = raised)."""
    anc = anc or strict_anc(n, edges)
    out = []
    if ins is not None:
        if t in anc[s] and ins:
            out.append('instruments-reversed')
        if not set(ins) <= anc[s]:
            out.append('instruments-ancestor')
        pruned = [(a, b) for a, b in edges if a != s]
        for i in ins:
            if i >= 0 and i != t and open_path(n, pruned, i, t, []):
                out.append('instruments-dsep')
                break
            if i == t:
                out.append('instruments-dsep')
                break
    if med is not None and confs is not None:
        if t in anc[s] and med:
            out.append('mediators-reversed')
        else:
            k = classify_mediators(n, edges, s, t, confs, names, med)
            if k:
                out.append(k)
    return out


def fails_kind(kind, n, edges, s, t, names):
    if kind in ('mediators-break', 'mediators-endpoints'):
        return susceptible(kind, n, edges, s, t, names)
    g = build(n, edges, names)
    (_, ins), (_, med) = impl_answers(g, names, n, s, t)
    confs = c18.impl_confounders(n, edges, names, s, t)
    return kind in check_pair(n, edges, s, t, names, to_idx(names, n, ins), to_idx(names, n, med), confs)


# ----------------------------------------------------------------------------------------------
# hash-seed sub-processes
# ----------------------------------------------------------------------------------------------

def answers_for_items(items):
    """for every item [n, edges, pool]: the protocol lines and the canonical replies of the implementation for
    identify_instruments / identify_mediators on every ordered pair of distinct nodes."""
    out = []
    for n, edges, pool in items:
        names = pool_names(pool, n, edges)
        g = build(n, [tuple(e) for e in edges], names)
        head = f'{hxlist(names)} {hxedges(adjacency_edges(g))}'
        lines, replies = [], []
        for s in range(n):
            for t in range(n):
                if s != t:
                    (ra, _), (rb, _) = impl_answers(g, names, n, s, t)
                    tail = f'{hx(names[s])} {hx(names[t])} 25 1'
                    lines += [f'ident instruments {head} {tail}', f'ident mediators {head} {tail}']
                    replies += [ra, rb]
        out.append({'lines': lines, 'replies': replies})
    return out


def subprocess_answers(items, seed):
    with tempfile.NamedTemporaryFile('w', suffix='.json', delete=False, dir='/var/tmp') as f:
        json.dump(items, f)
        path = f.name
    try:
        env = dict(os.environ, PYTHONHASHSEED=str(seed), REPO=REPO)
        p = subprocess.run([sys.executable, '-m', 'harness.lanes.c19', '--answers', path], cwd=VERIF, env=env,
                           stdout=subprocess.PIPE, stderr=subprocess.PIPE, text=True, timeout=1800)
        if p.returncode != 0:
            raise MachineryError('hash-seed sub-process failed: ' + p.stderr[-500:])
        return json.loads(p.stdout)
    finally:
        os.unlink(path)


# ----------------------------------------------------------------------------------------------
# the lane
# ----------------------------------------------------------------------------------------------

class Lane(c18.Lane):
    PROP = 'C19'
    PREFIX = 'C19'
    THEOREMS = 'auto'
    AUDIT = 'CG/Audit/C19.lean'
    RULE = ('a case is one graph with all its ordered pairs; non-trivial when some pair has a non-empty instrument or '
            'mediator set, or raises; distinct by (name pool, edge list in insertion order, max_num_paths list)')
    TRUSTED = ['networkx.ancestors / descendants / all_simple_paths (including the order in which paths are yielded) '
               'agree with the definitional model (measured by this lane)',
               'CausalGraph.copy / remove_edge / get_children give the graph without the edges leaving the source '
               '(measured)']
    PARTIAL = []
    EXHAUSTIVE = {'quick': False, 'thorough': True}
    LEVEL_NOTE = ('all labelled DAGs on <= 4 nodes (quick) / <= 5 nodes and all 6-node upper-triangular shapes '
                  '(thorough), every ordered pair; model mirrors identify_mediators as repaired (D13, D16)')

    def cases(self, tier, rng):
        batch = []
        for n, e, pool in c18.graph_cases(tier, rng):
            e = list(e)
            maxp = [25]
            if n >= 4 and rng.random() < (0.3 if tier == 'quick' else 0.1):
                rng.shuffle(e)
                maxp = [25, rng.choice([-1, 0, 0, 1, 1, 2])]
            c = dag_case(n, e, pool)
            c['maxp'] = maxp
            yield c
            if tier == 'thorough' and 2 <= n <= 6 and (n < 6 or rng.random() < 0.02):
                batch.append([n, [list(x) for x in e], pool])
                if len(batch) >= 250:
                    yield {'k': 'hash', 'items': batch, 'n': 0, 'pool': 0}
                    batch = []
        if batch:
            yield {'k': 'hash', 'items': batch, 'n': 0, 'pool': 0}
        # dense graphs with many paths: the max_num_paths branches
        for _ in range(40 if tier == 'quick' else 200):
            n = rng.choice([5, 6, 7])
            e = list(gen.random_dag(rng, n, p=rng.choice([0.7, 0.9, 1.0])))
            rng.shuffle(e)
            c = dag_case(n, e, rng.randrange(2))
            c['maxp'] = [rng.choice([0, 1, 2, 3, 5]), rng.choice([-2, -1, 4, 8, 25])]
            yield c
        for c in c18.error_cases(tier, rng):
            c['maxp'] = [25]
            yield c

    def run_case(self, case):
        if case['k'] == 'hash':
            return self.run_hash(case)
        from cai_causal_graph.identify_utils import identify_confounders, identify_instruments, identify_mediators
        names = names_of(case)
        n = case['n']
        lines, impl, oracle, tags = [], [], [], [f"kind={case['k']}", f'nodes={n}']
        mode = case.get('mode', 0)
        if case['k'] == 'mixed':
            g = gen.build_mixed(names[:n], [(names[a], names[b], t) for a, b, t in case['te']])
            dir_edges = [(names[a], names[b]) for a, b, t in case['te'] if t == '->']
            fd, edges_idx = '0', None
        elif case['k'] == 'cyclic':
            g = build(n, case['e'], names, validate=False)
            dir_edges = adjacency_edges(g)
            fd, edges_idx = '1', None
        else:
            edges_idx = [tuple(e) for e in case['e']]
            g = build(n, edges_idx, names)
            dir_edges = adjacency_edges(g)
            fd = '1'
            tags.append(f'edges={len(edges_idx)}')
            anc = strict_anc(n, edges_idx)
        pairs = case.get('pairs') or default_pairs(n)
        head = f'{hxlist(names[:n])} {hxedges(dir_edges)}'
        nontrivial = case['k'] != 'dag'
        for maxp in case.get('maxp', [25]):
            for s, t in pairs:
                a_s = arg(g, names[s], 1 if mode == 3 else mode)
                a_t = arg(g, names[t], 0 if mode == 3 else mode)
                ri, vi = call(identify_instruments, g, a_s, a_t, max_num_paths=maxp)
                rm, vm = call(identify_mediators, g, a_s, a_t, max_num_paths=maxp)
                tail = f'{hx(names[s])} {hx(names[t])} {maxp} {fd}'
                lines += [f'ident instruments {head} {tail}', f'ident mediators {head} {tail}']
                impl += [ri, rm]
                bad_input = case['k'] != 'dag' or s >= n or t >= n or s == t
                if bad_input:
                    for what, v, r in (('instruments', vi, ri), ('mediators', vm, rm)):
                        if v is not None:
                            oracle.append(f'refusal|{s}|{t}|{what} not refused: {r}')
                    continue
                if vi or vm or vi is None or vm is None:
                    nontrivial = True
                if vi:
                    tags.append('some-instrument')
                if vm:
                    tags.append('some-mediator')
                if vi is None or vm is None:
                    tags.append('max_num_paths-error')
                    if maxp >= 25 and n <= 5:
                        oracle.append(f'raised|{s}|{t}|valid input raised: {ri} {rm}')
                confs = to_idx(names, n, call(identify_confounders, g, names[s], names[t])[1])
                for kind in check_pair(n, edges_idx, s, t, names, to_idx(names, n, vi), to_idx(names, n, vm), confs, anc):
                    oracle.append(f'{kind}|{s}|{t}|instruments={vi} mediators={vm} max_num_paths={maxp}')
        tags = sorted(set(tags))
        key = json.dumps([case['k'], case['pool'], case.get('e') or case.get('te'), mode, case.get('maxp')])
        oracle = self._tag(case, oracle)
        return {'lines': lines, 'impl': impl, 'oracle': oracle, 'nontrivial': nontrivial, 'key': key, 'tags': tags}

    def run_hash(self, case):
        """answers computed in four fresh interpreters (PYTHONHASHSEED 0..3): the replies of seed 0 are checked against
        the property (oracle) and, for a sample, against the model; the other three must be identical to them (the
        answer does not depend on set iteration order)."""
        items = case['items']
        runs = [subprocess_answers(items, seed) for seed in (0, 1, 2, 3)]
        lines, impl, oracle = [], [], []
        from cai_causal_graph.identify_utils import identify_confounders
        from harness.core import unhxlist
        for k, it in enumerate(runs[0]):
            # the model sees the seed-0 replies of every 8th graph only: a case must stay below the pipe capacity of
            # the driver connection (ModelClient.ask writes all request lines before it reads a reply)
            if k % 8 == 0 and len(lines) + len(it['lines']) <= 1500:
                lines += it['lines']
                impl += it['replies']
            n, edges, pool = items[k]
            edges = [tuple(e) for e in edges]
            names = pool_names(pool, n, edges)
            prs = [(s, t) for s in range(n) for t in range(n) if s != t]
            # the property itself on the answers of the seed-0 interpreter
            g = build(n, edges, names)
            anc = strict_anc(n, edges)
            for j, (s, t) in enumerate(prs):
                vals = [to_idx(names, n, unhxlist(r[3:])) if r.startswith('ok ') else None
                        for r in it['replies'][2 * j:2 * j + 2]]
                confs = to_idx(names, n, call(identify_confounders, g, names[s], names[t])[1])
                for kind in check_pair(n, edges, s, t, names, vals[0], vals[1], confs, anc):
                    oracle.append(f'{kind}|{s}|{t}|item={k} seed-0 interpreter: {it["replies"][2 * j:2 * j + 2]}')
            for seed in (1, 2, 3):
                other = runs[seed][k]['replies']
                if other != it['replies']:
                    j = next(j for j, (a, b) in enumerate(zip(it['replies'], other)) if a != b)
                    s, t = prs[j // 2]
                    oracle.append(f'hashseed|{s}|{t}|item={k} {"mediators" if j % 2 else "instruments"} '
                                  f'seed0={it["replies"][j]} seed{seed}={other[j]}')
                    break
        return {'lines': lines, 'impl': impl, 'oracle': self._tag(case, oracle), 'nontrivial': True,
                'key': json.dumps(['hash', items[0], len(items)]), 'tags': ['kind=hash-batch']}

    # ---- failures ----
    def _fails(self, kind):
        return lambda n, e, s, t, names: fails_kind(kind, n, e, s, t, names)

    def _hash_item(self, case, failure):
        """the single graph a failure inside a hash-seed batch is about, as a dag case, and the kind it reduces to."""
        kind0, s, t, rest = failure.split('|', 3)
        k = int(rest.split('item=')[1].split(' ')[0])
        n, e, pool = case['items'][k]
        c = dag_case(n, e, pool, pairs=[[int(s), int(t)]])
        if kind0 != 'hashseed':
            return c, kind0
        names = pool_names(pool, n, e)
        for kind in ('mediators-break', 'mediators-endpoints'):
            if susceptible(kind, n, [tuple(x) for x in e], int(s), int(t), names):
                return c, kind
        return c, 'hashseed'

    def _core(self, case, failure):
        if case['k'] == 'hash':
            c, kind = self._hash_item(case, failure)
            s, t = c['pairs'][0]
            if kind == 'hashseed':
                return kind, (c['n'], [tuple(e) for e in c['e']], s, t, names_of(c)[:c['n']])
            return super()._core(c, f'{kind}|{s}|{t}|from hash-seed run')
        return super()._core(case, failure)

    def shrink(self, case, still_fails):
        if case['k'] != 'hash':
            return super().shrink(case, still_fails)
        r = self.run_case(case)
        if not r['oracle']:
            return case
        # keep the batch form (a sub-process run is what shows the failure) but with the single item
        failure = r['oracle'][0]
        k = int(failure.split('item=')[1].split(' ')[0])
        return {'k': 'hash', 'items': [case['items'][k]], 'n': 0, 'pool': 0}

    def describe(self, case):
        if case['k'] == 'hash':
            return {'hash-seed batch of graphs': len(case['items'])}
        d = super().describe(case)
        d['max_num_paths'] = case.get('maxp', [25])
        return d


if __name__ == '__main__':
    if '--answers' in sys.argv:
        from harness.core import setup_repo_path
        setup_repo_path()
        import logging
        import warnings
        warnings.simplefilter('ignore')
        logging.disable(logging.CRITICAL)
        items = json.load(open(sys.argv[sys.argv.index('--answers') + 1]))
        json.dump(answers_for_items(items), sys.stdout)
