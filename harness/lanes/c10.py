"""
Lane C10 — structural queries agree with their graph-theoretic definitions.

One case = one graph (built on the REAL implementation from an explicit construction sequence) together with
ALL its queries: every node, every ordered pair, list/set argument forms, unknown-node error paths.

Families
  dag    labelled DAGs (exhaustive: every labelled DAG on <= 4 nodes in the quick tier, <= 5 in the thorough tier)
  relab  random DAGs (3..8 nodes quick, 3..9 thorough) with names containing spaces / unicode / look-alikes,
         shuffled node and edge construction order; the oracle also compares every answer with the answer of the
         canonically named, canonically ordered twin (invariance under renaming and construction order)
  mixed  every mixed graph on 3 nodes whose directed part is acyclic (the others cannot be built with
         validate=True): `directed_path_exists` only
  cyc    directed graphs WITH a directed cycle, built with validate=False: outside the property (no oracle),
         kept as a correspondence check of the model's behaviour off the hypothesis (is_dag assertions,
         RecursionError of directed_path_exists, networkx semantics of ancestors / descendants)

Protocol (handler token `q10`, see lean/CG/Driver/HQuery.lean).  The model only ever sees the node list and the
DIRECTED edges, in construction order.
"""
from __future__ import annotations

import itertools
import random

from harness import gen
from harness.core import LaneBase, hx, hxedges, hxlist, hxlistlist

UNKNOWN = 'no such node'
NAME_POOL = ['a', 'b', 'c', 'd', 'e', 'f', 'g', 'h', 'i', 'A', 'B', 'a b', ' a', 'a ', 'x y z', 'é', 'ü', 'ß', 'Ω', '节点',
             'узел', 'n0', 'n1', 'n10', 'n2', '0', '1', '10', 'lag', 'future', 'X1', 'x1', 'a,b', 'a>b', 'a;b', '_', '.',
             '-', '~', 'a\tb', '😀', 'z' * 12]


def _vandalise(x):
    if isinstance(x, set):
        x.clear()
        x.add('__ghost')
    elif isinstance(x, list):
        for e in x:
            if isinstance(e, list):
                e.clear()
        x.reverse()
        x.pop()
        x.append('__ghost')


def _err(e):
    return 'err ' + type(e).__name__


# ------------------------------------------------------------------------------------------------------------------
# brute-force reference (no networkx, no Lean): plain closure / DFS over the edge list read back from the graph
# ------------------------------------------------------------------------------------------------------------------

class Ref:
    def __init__(self, nodes, edges):
        self.nodes = list(nodes)
        self.edges = set(edges)
        self.succ = {x: set() for x in self.nodes}
        self.pred = {x: set() for x in self.nodes}
        for a, b in self.edges:
            self.succ[a].add(b)
            self.pred[b].add(a)
        self.desc = gen.brute_descendants(self.nodes, self.edges)           # strict
        self.anc = {x: {y for y in self.nodes if x in self.desc[y]} for x in self.nodes}

    def paths(self, s, t):
        """all simple directed paths from s to t (s != t), by DFS enumeration"""
        out = []

        def go(path):
            last = path[-1]
            if last == t:
                out.append(list(path))
                return
            for c in sorted(self.succ[last]):
                if c not in path:
                    path.append(c)
                    go(path)
                    path.pop()

        go([s])
        return out

    def between(self, s, t):
        rs = self.desc[s] | {s}
        if t not in rs:
            return set()
        return {n for n in rs if t in (self.desc[n] | {n})}

    def induced(self, ns):
        ns = set(ns)
        return ns, {(a, b) for a, b in self.edges if a in ns and b in ns}


# ------------------------------------------------------------------------------------------------------------------


class Lane(LaneBase):
    PROP = 'C10'
    AUDIT = 'CG/Audit/C10.lean'
    USE_TOPO = True           # hook for the topological-order lines (handler token `topo`), see topo_lines()
    THEOREMS = 'auto'
    RULE = ('a case is one graph with all its queries; non-trivial = the graph has at least one directed edge; '
            'distinct by (family, construction sequence)')
    TRUSTED = [
        'networkx 3.2.1 ancestors / descendants / all_simple_paths / is_directed_acyclic_graph agree with the '
        'definitional model (measured: exhaustively on all labelled DAGs <= 4 nodes quick, <= 5 thorough)',
        'Node._outbound_edges lists hold exactly the directed edges out of a node in insertion order (C01)',
        'Python str order = Lean String order (code points); sorted() used only for canonical replies',
        'the recursion limit of CPython is far above the number of nodes (RecursionError <=> the model runs out of '
        'fuel = |nodes|)',
    ]
    PARTIAL = []
    EXHAUSTIVE = {'quick': True, 'thorough': True}
    LEVEL_NOTE = ('topological orders (single / all) are checked by the `topo` handler when USE_TOPO is set; '
                  'C10 theorems for them live with that handler')

    # ---------------------------------------------------------------------------------------------------------
    # cases
    # ---------------------------------------------------------------------------------------------------------

    def cases(self, tier, rng):
        thorough = tier == 'thorough'
        nmax = 5 if thorough else 4
        # 1. exhaustive labelled DAGs, canonical names and order
        for n in range(0, nmax + 1):
            for k, edges in enumerate(gen.all_labelled_dags(n)):
                names = gen.NAMES[:n]
                yield {'fam': 'dag', 'nodes': list(names), 'edges': [[names[i], names[j], '->'] for i, j in edges],
                       'validate': True, 'seed': rng.randrange(1 << 30)}
        # 2. mixed graphs on 3 nodes (directed part acyclic)
        names = gen.NAMES[:3]
        for tedges in gen.all_mixed_graphs(3):
            directed = [(i, j) for i, j, t in tedges if t == '->']
            if not gen.is_acyclic(3, directed):
                continue
            yield {'fam': 'mixed', 'nodes': list(names), 'edges': [[names[i], names[j], t] for i, j, t in tedges],
                   'validate': True, 'seed': 0}
        # 3. random relabelings + shuffled construction orders
        count = 2000 if thorough else 400
        hi = 9 if thorough else 8
        for _ in range(count):
            n = rng.randint(3, hi)
            edges = gen.random_dag(rng, n, p=rng.choice([0.25, 0.4, 0.6]))
            names = rng.sample(NAME_POOL, n)
            node_order = list(range(n))
            rng.shuffle(node_order)
            edges = list(edges)
            rng.shuffle(edges)
            yield {'fam': 'relab', 'nodes': [names[i] for i in node_order],
                   'edges': [[names[i], names[j], '->'] for i, j in edges], 'validate': True,
                   'seed': rng.randrange(1 << 30),
                   'twin': {'n': n, 'edges': sorted([i, j] for i, j in edges), 'names': names}}
        # relabelled / shuffled versions of small exhaustive DAGs as well (all 25 three-node DAGs, sample of four-node)
        small = list(gen.all_labelled_dags(3)) + rng.sample(list(gen.all_labelled_dags(4)), 120 if thorough else 40)
        for edges in small:
            n = 1 + max([max(e) for e in edges], default=2)
            n = max(n, 3)
            names = rng.sample(NAME_POOL, n)
            node_order = list(range(n))
            rng.shuffle(node_order)
            edges = list(edges)
            rng.shuffle(edges)
            yield {'fam': 'relab', 'nodes': [names[i] for i in node_order],
                   'edges': [[names[i], names[j], '->'] for i, j in edges], 'validate': True,
                   'seed': rng.randrange(1 << 30),
                   'twin': {'n': n, 'edges': sorted([i, j] for i, j in edges), 'names': names}}
        # 3b. long paths: a chain through all nodes plus a few forward chords (depth grows with the size of the graph;
        #     the exhaustive families above never have a path of more than four edges)
        for n in ((6, 7, 8, 10, 13, 16) if not thorough else (6, 7, 8, 9, 10, 11, 12, 13, 16, 17, 20)):
            for rep in range(3 if not thorough else 8):
                names = [f'{x}{i}' for i, x in enumerate(rng.sample(NAME_POOL, 8) * 3)][:n]
                edges = [(i, i + 1) for i in range(n - 1)]
                for _ in range(rep):
                    i = rng.randrange(n - 2)
                    j = rng.randrange(i + 2, n)
                    if (i, j) not in edges:
                        edges.append((i, j))
                node_order = list(range(n))
                rng.shuffle(node_order)
                rng.shuffle(edges)
                yield {'fam': 'relab', 'nodes': [names[i] for i in node_order],
                       'edges': [[names[i], names[j], '->'] for i, j in edges], 'validate': True,
                       'seed': rng.randrange(1 << 30), 'long': True}
        # 4. directed graphs with a cycle (validate=False), off the hypothesis: correspondence only
        cyc = []
        for n in (3, 4):
            pairs = [(i, j) for i in range(n) for j in range(i + 1, n)]
            for choice in itertools.product((0, 1, 2), repeat=len(pairs)):
                edges = [((i, j) if c == 1 else (j, i)) for (i, j), c in zip(pairs, choice) if c]
                if not gen.is_acyclic(n, edges):
                    cyc.append((n, edges))
        if not thorough:
            cyc = cyc[:2] + rng.sample(cyc[2:], 30)
        for n, edges in cyc:
            names = gen.NAMES[:n]
            edges = list(edges)
            rng.shuffle(edges)
            yield {'fam': 'cyc', 'nodes': list(names), 'edges': [[names[i], names[j], '->'] for i, j in edges],
                   'validate': False, 'seed': rng.randrange(1 << 30)}

    # ---------------------------------------------------------------------------------------------------------
    # building + querying the real implementation
    # ---------------------------------------------------------------------------------------------------------

    @staticmethod
    def build(nodes, tedges, validate=True):
        from cai_causal_graph import CausalGraph
        from cai_causal_graph.type_definitions import EdgeType
        g = CausalGraph()
        for x in nodes:
            g.add_node(x)
        from harness import gen
        tedges = list(tedges)
        retype = []
        for k, (s, d, t) in enumerate(tedges):
            if validate and k == len(tedges) - 1 and len(tedges) >= 2:
                gen.stress(g, ('c10-pre', tuple(nodes), tuple(tedges)))
            if validate and t == '->' and (2 * k + len(nodes) + len(tedges)) % 7 == 0:
                # the edge arrives with another type and is directed afterwards
                g.add_edge(s, d, edge_type=['o>', '--', '<>', 'oo', 'o-'][(k + len(nodes)) % 5])
                retype.append((s, d))
            else:
                g.add_edge(s, d, edge_type=EdgeType(t) if (k + len(nodes)) % 3 else t,
                           validate=validate and (len(nodes) + 5 * k + len(tedges)) % 4 != 1)
        for a, b in retype:
            g.change_edge_type(a, b, EdgeType.DIRECTED_EDGE if len(retype) % 2 else '->')
        if validate:
            gen.stress(g, ('c10', tuple(nodes), tuple(tedges)))
            g = gen.reroute(g, ('c10', tuple(nodes), tuple(tedges)))[0]
            gen.query_noise(g, ('c10', tuple(nodes), tuple(tedges)))
        return g

    @staticmethod
    def _graph_reply(sub):
        """canonical reply for a returned sub-graph: sorted nodes, sorted edges; edge types must all be directed"""
        from cai_causal_graph.type_definitions import EdgeType
        ns = sorted(sub.get_node_names())
        es = sorted((e.source.identifier, e.destination.identifier) for e in sub.edges)
        alldir = all(e.get_edge_type() == EdgeType.DIRECTED_EDGE for e in sub.edges)
        return hxlist(ns) + ' ' + hxedges(es), (set(ns), set(es), alldir)

    def answers(self, g, nodes, case):
        """Run every query of the case's family on the real graph `g`.
        Returns a list of records (fn, args, line-suffix, canonical reply, raw value or None)."""
        fam = case['fam']
        rng = random.Random(case.get('seed', 0))
        recs = []

        budget = [40]

        nxhead = None
        try:
            nxg = g.to_networkx()
            nxhead = f'{hxlist([str(x) for x in nxg.nodes])} {hxedges([(str(a), str(b)) for a, b in nxg.edges])}'
        except Exception:  # noqa: BLE001
            pass
        extra = self._nx_extra = []

        def q(fn, args, suffix, thunk, canon):
            try:
                raw0 = thunk()
                if nxhead is not None and fn in ('anc', 'desc', 'paths') and len(extra) < 60 and \
                        all(a != UNKNOWN for a in args):
                    # what the CODE returned against the transcriptions of networkx.ancestors / descendants (as sets)
                    # and all_simple_paths (ORDER included; it follows the exported digraph's successor order)
                    if fn == 'paths' and args[0] != args[1]:
                        extra.append((f'nxreach paths {nxhead} {hx(args[0])} {hx(args[1])}',
                                      hxlistlist([list(p) for p in raw0])))
                    elif fn != 'paths':
                        extra.append((f'nxreach {fn} {nxhead} {hx(args[0])}', hxlist(sorted(raw0))))
                reply, raw = canon(raw0)
                if isinstance(raw0, (list, set)) and raw0 and budget[0] > 0:
                    # the caller changes the container it was given in place; the same query must answer as before
                    budget[0] -= 1
                    _vandalise(raw0)
                    again = canon(thunk())[0]
                    if again != reply and self._vandal_fail is None:
                        self._vandal_fail = (f'{fn}{args!r}: after the caller changed the returned {type(raw0).__name__} in '
                                             f'place the same query answers differently')
            except (AssertionError, KeyError, RecursionError, ValueError, TypeError) as e:
                reply, raw = _err(e), None
            except Exception as e:   # library error classes (NodeDuplicatedError, ...)
                reply, raw = _err(e), None
            recs.append((fn, args, suffix, reply, raw))

        cset = lambda r: (hxlist(sorted(r)), set(r))
        cbool = lambda r: ('1' if r else '0', bool(r)) if isinstance(r, bool) else ('notbool:' + repr(r), r)
        cpaths = lambda r: (hxlistlist(sorted(r)), [list(p) for p in r])
        cnodes = lambda r: (hxlist(sorted(n.identifier for n in r)), {n.identifier for n in r})
        cgraph = self._graph_reply

        pool = list(nodes) + [UNKNOWN]
        if fam == 'mixed':
            for s in pool:
                for t in pool:
                    q('dpe', (s, t), f'{hx(s)} {hx(t)}', lambda: g.directed_path_exists(s, t), cbool)
            return recs

        # --- single node queries
        for n in pool:
            q('anc', (n,), hx(n), lambda: g.get_ancestors(n), cset)
            q('desc', (n,), hx(n), lambda: g.get_descendants(n), cset)
            q('ancg', (n,), hx(n), lambda: g.get_ancestral_graph(n), cgraph)
            q('descg', (n,), hx(n), lambda: g.get_descendant_graph(n), cgraph)
            q('parg', (n,), hx(n), lambda: g.get_parents_graph(n), cgraph)
            q('chg', (n,), hx(n), lambda: g.get_children_graph(n), cgraph)
        # --- ordered pairs (unknown node only against the first real node, both positions)
        pairs = [(a, b) for a in nodes for b in nodes]
        if nodes:
            pairs += [(UNKNOWN, nodes[0]), (nodes[0], UNKNOWN)]
        pairs.append((UNKNOWN, UNKNOWN))
        for a, b in pairs:
            sfx = f'{hx(a)} {hx(b)}'
            q('isanc', (a, (b,), 'single'), f'{hx(a)} {hxlist([b])}', lambda: g.is_ancestor(a, b), cbool)
            q('isdesc', (a, (b,), 'single'), f'{hx(a)} {hxlist([b])}', lambda: g.is_descendant(a, b), cbool)
            q('canc', (a, b), sfx, lambda: g.get_common_ancestors(a, b), cset)
            q('cdesc', (a, b), sfx, lambda: g.get_common_descendants(a, b), cset)
            q('paths', (a, b), sfx, lambda: g.get_all_causal_paths(a, b), cpaths)
            q('between', (a, b), sfx, lambda: g.get_nodes_between(a, b), cnodes)
            q('dpe', (a, b), sfx, lambda: g.directed_path_exists(a, b), cbool)
        # --- list / set argument forms: every subset of size 0 and 2, two random larger ones, one with a duplicate,
        #     one containing an unknown name
        for a in nodes:
            subsets = [()] + list(itertools.combinations(nodes, 2))
            for _ in range(2):
                k = rng.randint(2, max(2, len(nodes)))
                subsets.append(tuple(rng.sample(list(nodes), min(k, len(nodes)))))
            others = [x for x in nodes if x != a]
            if others:
                b = rng.choice(others)
                subsets.append((b, b))
                subsets.append((b, UNKNOWN))
            for idx, ss in enumerate(subsets):
                ss = list(ss)
                rng.shuffle(ss)
                form1, form2 = ('list', 'set') if idx % 2 == 0 else ('set', 'list')
                mk = lambda form: (list(ss) if form == 'list' else set(ss))
                q('isanc', (a, tuple(ss), form1), f'{hx(a)} {hxlist(ss)}',
                  lambda: g.is_ancestor(a, mk(form1)), cbool)
                q('isdesc', (a, tuple(ss), form2), f'{hx(a)} {hxlist(ss)}',
                  lambda: g.is_descendant(a, mk(form2)), cbool)
        q('isanc', (UNKNOWN, (), 'list'), f'{hx(UNKNOWN)} {hxlist([])}', lambda: g.is_ancestor(UNKNOWN, []), cbool)
        q('isdesc', (UNKNOWN, (), 'set'), f'{hx(UNKNOWN)} {hxlist([])}', lambda: g.is_descendant(UNKNOWN, set()),
          cbool)
        return recs

    # ---------------------------------------------------------------------------------------------------------
    # topological-order hook (handler token `topo`, owned by another helper); guarded by USE_TOPO
    # ---------------------------------------------------------------------------------------------------------

    @staticmethod
    def nodeform_check(g, nodes):
        """every query must give the same answer whether a node is named by its identifier, by the graph's own Node,
        by a fresh equal Node or by the Node of a copy of the graph (checked on one pair per graph)"""
        from harness import gen
        import hashlib
        h = int(hashlib.sha1(repr(nodes).encode()).hexdigest(), 16)
        a = nodes[h % len(nodes)]
        b = nodes[(h // 5) % len(nodes)]
        try:
            related = [(x, y) for x in nodes for y in sorted(g.get_descendants(x))]
            if related and h % 4:
                a, b = related[h % len(related)]         # a pair for which the relation holds (mostly)
                if h % 8 >= 4:
                    a, b = b, a
        except Exception:  # noqa: BLE001
            pass
        fails = []

        def canon(x):
            if isinstance(x, (set, list)):
                return sorted(getattr(e, 'identifier', e) if not isinstance(e, list) else tuple(e) for e in x)
            if hasattr(x, 'get_node_names'):
                return (sorted(x.get_node_names()), sorted((e.source.identifier, e.destination.identifier) for e in x.get_edges()))
            return x
        fns = [('get_ancestors', lambda x, y: g.get_ancestors(x)), ('get_descendants', lambda x, y: g.get_descendants(x)),
               ('is_ancestor', lambda x, y: g.is_ancestor(x, y)), ('is_descendant', lambda x, y: g.is_descendant(x, y)),
               ('is_ancestor(list)', lambda x, y: g.is_ancestor(x, [y])), ('is_descendant(list)', lambda x, y: g.is_descendant(x, [y])),
               ('is_ancestor(set)', lambda x, y: g.is_ancestor(x, {y})), ('is_descendant(set)', lambda x, y: g.is_descendant(x, {y})),
               ('get_common_descendants', lambda x, y: g.get_common_descendants(x, y)),
               ('get_descendant_graph', lambda x, y: g.get_descendant_graph(x)),
               ('get_parents_graph', lambda x, y: g.get_parents_graph(x)),
               ('get_nodes_between', lambda x, y: g.get_nodes_between(x, y)),
               ('get_all_causal_paths', lambda x, y: g.get_all_causal_paths(x, y)),
               ('directed_path_exists', lambda x, y: g.directed_path_exists(x, y)),
               ('get_ancestral_graph', lambda x, y: g.get_ancestral_graph(x)),
               ('get_children_graph', lambda x, y: g.get_children_graph(x)),
               ('get_common_ancestors', lambda x, y: g.get_common_ancestors(x, y))]
        fa, fb = gen.node_forms(g, a), dict(gen.node_forms(g, b))
        for label, f in fns:
            try:
                base = canon(f(a, b))
            except Exception as e:  # noqa: BLE001
                base = '!' + type(e).__name__
            for form, xa in fa[1:]:
                xb = fb.get(form, b)
                try:
                    got = canon(f(xa, xb))
                except Exception as e:  # noqa: BLE001
                    got = '!' + type(e).__name__
                if got != base:
                    fails.append(f'{label}: naming the nodes by {form} Node objects gives {got!r}, by identifier {base!r} '
                                 f'(nodes {a!r}, {b!r})')
                    break
        return fails[:2]

    def topo_lines(self, g, nodes, edges):
        """Lines for `get_topological_order` (single and all).  `nodes`: identifiers in construction order,
        `edges`: directed (src, dst) pairs in construction order.  Returns (lines, impl).

          topo valid <nodes> <edges> <order-hexlist>  -> 1|0   the implementation's single order is SENT to the model,
                                                               which evaluates `isTopoOrder`; expected reply `1`
          topo all <nodes> <edges>                    -> sorted hxlistlist of all linear extensions
        """
        lines, impl = [], []
        head = f'{hxlist(nodes)} {hxedges(edges)}'
        try:
            # an earlier caller changed the lists it was given in place: the next answers must not care
            first = g.get_topological_order()
            first.reverse()
            first.append('__ghost')
            for o in g.get_topological_order(return_all=True)[:50]:
                o.clear()
        except Exception:  # noqa: BLE001
            pass
        # the exported digraph's own node / successor order: what fixes the ORDER of the third-party routines' answers
        nxhead = None
        try:
            nxg = g.to_networkx()
            nxhead = f'{hxlist([str(x) for x in nxg.nodes])} {hxedges([(str(a), str(b)) for a, b in nxg.edges])}'
        except Exception:  # noqa: BLE001
            pass
        try:
            order = g.get_topological_order()
            lines.append(f'topo valid {head} {hxlist(order)}')
            impl.append('1')
            if nxhead is not None:
                # what the CODE returned, order included, against the transcription of networkx.topological_sort
                lines.append(f'nxtopo sort {nxhead}')
                impl.append(hxlist(order))
        except Exception as e:
            lines.append(f'topo valid {head} {hxlist([])}')
            impl.append(_err(e))
        try:
            allo = g.get_topological_order(return_all=True)
            lines.append(f'topo all {head}')
            impl.append(hxlistlist(sorted(allo)))
            if nxhead is not None and len(nodes) <= 6:
                # ... and the list of all orders, in generation order, against networkx.all_topological_sorts transcribed
                lines.append(f'nxtopo all {nxhead}')
                impl.append(hxlistlist([list(o) for o in allo]))
            # oracle (brute force, no networkx): all and only the linear extensions, no duplicates
            if len(nodes) <= 6:
                import itertools
                pos_ok = lambda o: all(o.index(a) < o.index(b) for a, b in edges)
                want = sorted(list(o) for o in itertools.permutations(sorted(nodes)) if pos_ok(list(o)))
                if sorted(allo) != want:
                    self._topo_fail = f'get_topological_order(return_all=True) is not the set of linear extensions of {edges}'
                if not (sorted(order) == sorted(nodes) and pos_ok(list(order))):
                    self._topo_fail = f'get_topological_order() = {order} is not a topological order of {edges}'
        except Exception as e:
            lines.append(f'topo all {head}')
            impl.append(_err(e))
        return lines, impl

    # ---------------------------------------------------------------------------------------------------------
    # oracle: the property itself on the implementation's answers (brute force over graph.edges)
    # ---------------------------------------------------------------------------------------------------------

    def oracle(self, g, recs, fam):
        from cai_causal_graph.type_definitions import EdgeType
        fails = []
        nodes = g.get_node_names()
        edges = [(e.source.identifier, e.destination.identifier) for e in g.edges
                 if e.get_edge_type() == EdgeType.DIRECTED_EDGE]
        ref = Ref(nodes, edges)
        known = set(nodes)
        byq = {}

        def bad(fn, args, got, want):
            fails.append(f'{fn}{args!r}: implementation {got!r}, definition {want!r}')

        for fn, args, _sfx, reply, raw in recs:
            byq[(fn, args)] = raw
            node_args = args[:1] if fn in ('isanc', 'isdesc') else args
            if any((x not in known) for x in node_args):
                continue                      # unknown-node calls: error classes are the model's business
            if raw is None:
                fails.append(f'{fn}{args!r}: raised {reply} on existing nodes')
                continue
            if fn == 'anc':
                want = ref.anc[args[0]]
            elif fn == 'desc':
                want = ref.desc[args[0]]
            elif fn in ('isanc', 'isdesc'):
                a, ss, _form = args
                table = ref.desc if fn == 'isanc' else ref.anc
                want = all((x in table[a]) for x in ss)     # all-of; unknown names are simply not related
            elif fn == 'canc':
                want = ref.anc[args[0]] & ref.anc[args[1]]
            elif fn == 'cdesc':
                want = ref.desc[args[0]] & ref.desc[args[1]]
            elif fn == 'paths':
                s, t = args
                want = [] if s == t else ref.paths(s, t)
                if len({tuple(p) for p in raw}) != len(raw):
                    fails.append(f'paths{args!r}: duplicate paths {raw!r}')
                raw, want = sorted(raw), sorted(want)
            elif fn == 'between':
                want = ref.between(*args)
            elif fn == 'dpe':
                want = args[1] in ref.desc[args[0]]
            elif fn in ('ancg', 'descg'):
                base = ref.anc if fn == 'ancg' else ref.desc
                ns, es = ref.induced(base[args[0]] | {args[0]})
                want = (ns, es, True)
            elif fn == 'parg':
                n = args[0]
                want = ({n} | ref.pred[n], {(p, n) for p in ref.pred[n]}, True)
            elif fn == 'chg':
                n = args[0]
                want = ({n} | ref.succ[n], {(n, c) for c in ref.succ[n]}, True)
            else:
                continue
            if raw != want:
                bad(fn, args, raw, want)
        if fam == 'mixed':
            return fails
        # ---- cross-consistency between the implementation's own answers
        for a in nodes:
            for b in nodes:
                ia = byq.get(('isanc', (a, (b,), 'single')))
                idd = byq.get(('isdesc', (b, (a,), 'single')))
                in_anc = a in (byq.get(('anc', (b,))) or set())
                in_desc = b in (byq.get(('desc', (a,))) or set())
                if len({bool(ia), bool(idd), in_anc, in_desc}) != 1:
                    fails.append(f'consistency({a!r},{b!r}): is_ancestor={ia} is_descendant(rev)={idd} '
                                 f'a in ancestors(b)={in_anc} b in descendants(a)={in_desc}')
                ps = byq.get(('paths', (a, b)))
                nb = byq.get(('between', (a, b)))
                if ps is not None and nb is not None:
                    union = {x for p in ps for x in p}
                    want = {a} if a == b else union
                    if nb != want:
                        fails.append(f'consistency({a!r},{b!r}): nodes_between {sorted(nb)!r} but union of causal '
                                     f'paths {sorted(want)!r}')
                dp = byq.get(('dpe', (a, b)))
                if dp is not None and bool(dp) != in_desc:
                    fails.append(f'consistency({a!r},{b!r}): directed_path_exists={dp} descendants says {in_desc}')
        return fails

    # ---------------------------------------------------------------------------------------------------------

    def run_case(self, case):
        fam = case['fam']
        nodes = list(case['nodes'])
        tedges = [tuple(e) for e in case['edges']]
        g = self.build(nodes, tedges, validate=case.get('validate', True))
        directed = [(s, d) for s, d, t in tedges if t == '->']
        head = f'{hxlist(nodes)} {hxedges(directed)}'
        self._vandal_fail = None
        recs = self.answers(g, nodes, case)
        lines = [f'q10 {fn} {head} {sfx}' for fn, _a, sfx, _r, _raw in recs]
        impl = [reply for _fn, _a, _sfx, reply, _raw in recs]
        if fam in ('dag', 'relab'):
            for ln, exp in getattr(self, '_nx_extra', []):
                lines.append(ln)
                impl.append(exp)
        oracle = []
        if fam != 'cyc':
            oracle = self.oracle(g, recs, fam)
        if self._vandal_fail and fam != 'cyc':
            oracle.append(self._vandal_fail)
        if fam == 'relab' and 'twin' in case:
            oracle += self.twin_check(case, recs)
        if fam in ('dag', 'relab') and len(nodes) >= 2:
            oracle += self.nodeform_check(g, nodes)
        if fam == 'dag' and 2 <= len(nodes) <= 5 and case.get('seed', 0) % 4 == 1:
            oracle += self.ts_orders_check(nodes, directed, case.get('seed', 0))
        if self.USE_TOPO and fam in ('dag', 'relab'):
            self._topo_fail = None
            tl, ti = self.topo_lines(g, nodes, directed)
            lines += tl
            impl += ti
            if self._topo_fail:
                oracle.append(self._topo_fail)
        ne = len(directed)
        tags = [f'fam:{fam}', f'fam:{fam}/n:{len(nodes)}', f'directed_edges:{min(ne, 8)}{"+" if ne >= 8 else ""}']
        if fam in ('dag', 'relab'):
            nb_multi = sum(1 for fn, a, _s, _r, raw in recs if fn == 'paths' and raw is not None and len(raw) >= 2)
            tags.append('pair_with_several_paths:' + ('yes' if nb_multi else 'no'))
        return {'lines': lines, 'impl': impl, 'oracle': oracle, 'nontrivial': ne >= 1,
                'key': fam + '|' + repr(nodes) + '|' + repr(tedges), 'tags': tags}

    @staticmethod
    def ts_orders_check(nodes, directed, seed):
        """the same DAG as a time-series graph whose lags grow with depth (past-only, future-only or straddling lag 0):
        the default order is a time-sorted topological order and return_all is exactly the set of time-sorted ones
        (brute force over the permutations; oracle only)"""
        from cai_causal_graph import TimeSeriesCausalGraph
        idx = {x: i for i, x in enumerate(nodes)}
        n = len(nodes)
        level = [0] * n
        for _ in range(n):
            for a, b in directed:
                level[idx[b]] = max(level[idx[b]], level[idx[a]] + 1)
        shift = [-max(level), 0, -(max(level) // 2)][seed // 4 % 3]          # past-only / future-only / straddling
        lag = [l + shift for l in level]
        nm = [f'v{i}' if lag[i] == 0 else (f'v{i} future(n={lag[i]})' if lag[i] > 0 else f'v{i} lag(n={-lag[i]})')
              for i in range(n)]
        try:
            g = TimeSeriesCausalGraph()
            for x in nm:
                g.add_node(x)
            for a, b in directed:
                g.add_edge(nm[idx[a]], nm[idx[b]])
            edges = [(nm[idx[a]], nm[idx[b]]) for a, b in directed]
            lagof = dict(zip(nm, lag))
            fwd = lambda o: all(o.index(a) < o.index(b) for a, b in edges)
            srt = lambda o: all(lagof[o[i]] <= lagof[o[i + 1]] for i in range(len(o) - 1))
            want = sorted(list(o) for o in itertools.permutations(sorted(nm)) if fwd(list(o)) and srt(list(o)))
            got = sorted(list(o) for o in g.get_topological_order(return_all=True))
            if got != want:
                return [f'time-series twin (lags {sorted(set(lag))}): return_all gives {len(got)} orders, the time-sorted '
                        f'topological orders are {len(want)}; edges {edges}']
            one = list(g.get_topological_order())
            if not (sorted(one) == sorted(nm) and fwd(one) and srt(one)):
                return [f'time-series twin (lags {sorted(set(lag))}): default order {one} is not a time-sorted topological order']
            plain_all = sorted(list(o) for o in g.get_topological_order(return_all=True, respect_time_ordering=False))
            if plain_all != sorted(list(o) for o in itertools.permutations(sorted(nm)) if fwd(list(o))):
                return ['time-series twin: return_all without time ordering is not the set of linear extensions']
        except Exception as e:  # noqa: BLE001
            return [f'time-series twin of a DAG raised {type(e).__name__} in get_topological_order']
        return []

    def twin_check(self, case, recs):
        """invariance under renaming and construction order: compare with the canonical twin's answers"""
        tw = case['twin']
        n, names = tw['n'], tw['names']
        canon = gen.NAMES[:n]
        to_canon = {names[i]: canon[i] for i in range(n)}
        to_canon[UNKNOWN] = UNKNOWN
        tcase = {'fam': 'dag', 'nodes': list(canon), 'edges': [[canon[i], canon[j], '->'] for i, j in tw['edges']],
                 'validate': True, 'seed': case.get('seed', 0)}
        g2 = self.build(tcase['nodes'], [tuple(e) for e in tcase['edges']])
        fails = []

        def ren(raw):
            if isinstance(raw, bool) or raw is None:
                return raw
            if isinstance(raw, str):
                return to_canon.get(raw, raw)
            if isinstance(raw, set):
                return {ren(x) for x in raw}
            if isinstance(raw, (list, tuple)):
                r = [ren(x) for x in raw]
                return tuple(r) if isinstance(raw, tuple) else r
            return raw

        # re-ask exactly the same queries (mapped through the renaming) on the twin
        for fn, args, _sfx, reply, raw in recs:
            if fn in ('isanc', 'isdesc') and args[2] != 'single':
                continue
            if any(isinstance(x, str) and x == UNKNOWN for x in args):
                continue
            cargs = ren(args)
            try:
                if fn == 'anc':
                    got = set(g2.get_ancestors(*cargs))
                elif fn == 'desc':
                    got = set(g2.get_descendants(*cargs))
                elif fn == 'isanc':
                    got = g2.is_ancestor(cargs[0], cargs[1][0])
                elif fn == 'isdesc':
                    got = g2.is_descendant(cargs[0], cargs[1][0])
                elif fn == 'canc':
                    got = set(g2.get_common_ancestors(*cargs))
                elif fn == 'cdesc':
                    got = set(g2.get_common_descendants(*cargs))
                elif fn == 'paths':
                    got = sorted(g2.get_all_causal_paths(*cargs))
                elif fn == 'between':
                    got = {x.identifier for x in g2.get_nodes_between(*cargs)}
                elif fn == 'dpe':
                    got = g2.directed_path_exists(*cargs)
                elif fn in ('ancg', 'descg', 'parg', 'chg'):
                    meth = {'ancg': g2.get_ancestral_graph, 'descg': g2.get_descendant_graph,
                            'parg': g2.get_parents_graph, 'chg': g2.get_children_graph}[fn]
                    got = self._graph_reply(meth(*cargs))[1]
                else:
                    continue
            except Exception as e:
                got = _err(e)
            mine = ren(raw)
            if fn == 'paths' and mine is not None:
                mine = sorted(mine)
            if mine != got:
                fails.append(f'invariance {fn}{args!r}: relabelled/shuffled graph gives {mine!r}, canonical twin '
                             f'gives {got!r}')
        return fails

    # ---------------------------------------------------------------------------------------------------------

    def describe(self, case):
        return {'fam': case['fam'], 'nodes': case['nodes'], 'edges': case['edges']}

    def signature(self, case, failure):
        # function name + the graph (sorted node and edge lists) identify a failure
        return super().signature({'fam': case['fam'], 'nodes': sorted(case['nodes']),
                                  'edges': sorted(map(list, case['edges']))}, failure.split('(')[0])

    def shrink(self, case, still_fails):
        """greedy: drop edges, then drop nodes that no edge touches"""
        cur = dict(case)
        cur.pop('twin', None)
        if cur['fam'] == 'relab':
            cur['fam'] = 'dag'
        if not still_fails(cur):
            return case
        changed = True
        while changed:
            changed = False
            for i in range(len(cur['edges'])):
                c = dict(cur)
                c['edges'] = cur['edges'][:i] + cur['edges'][i + 1:]
                if still_fails(c):
                    cur, changed = c, True
                    break
            if changed:
                continue
            touched = {x for e in cur['edges'] for x in e[:2]}
            for i, x in enumerate(cur['nodes']):
                if x not in touched:
                    c = dict(cur)
                    c['nodes'] = cur['nodes'][:i] + cur['nodes'][i + 1:]
                    if still_fails(c):
                        cur, changed = c, True
                        break
        return cur
