"""C12 lane: name grammar (strings) + identity / lookup coherence after mutation histories (time-series class)."""
import hashlib

from harness import histories, impl
from harness.core import LaneBase
from harness.lanes import c12_names


class Lane(LaneBase):
    PROP = 'C12'
    THEOREMS = 'auto'
    AUDIT = 'CG/Audit/C12.lean'
    RULE = ('strings: ' + c12_names.NAME_RULE + ' | histories: random mutation histories on TimeSeriesCausalGraph '
            '(add / delete / replace in place and by new name / by (variable, lag), construction from dictionaries '
            'and plain graphs); after every call every lookup (get_nodes_at_lag, get_nodes_for_variable_name, '
            'get_contemporaneous_nodes, variables, get_all_variable_names, max lags) and each node\'s '
            '(identifier, variable_name, time_lag) is compared with the model and with a scan over the current nodes; '
            'a history counts when it has at least 3 nodes at 2 different lags.')
    TRUSTED = list(c12_names.NAME_TRUSTED) + [
        'lookup order of get_nodes_at_lag / get_nodes_for_variable_name (insertion order) is not compared; sets are']

    def cases(self, tier, rng):
        yield from c12_names.name_cases(tier, rng)
        n = 250 if tier == 'quick' else 4000
        for i in range(n):
            gen = histories.Gen(rng, 'ts')
            ops = gen.history(rng.randint(3, 25))
            yield {'kind': 'hist', 'cls': 'ts', 'ops': ops, 'via': rng.choice(['direct', 'direct', 'dict', 'plain'])}

    def run_case(self, case):
        if case.get('kind') != 'hist':
            return c12_names.run_name_case(case)
        from cai_causal_graph import CausalGraph, TimeSeriesCausalGraph
        from cai_causal_graph.utils import get_variable_name_and_lag
        g = impl.new_graph('ts')
        lines = ['g new h ts _']
        out = ['ok']
        oracle = []
        tags = {'hist:' + case['via']}
        for op in case['ops']:
            lines.append(impl.op_line('h', op))
            out.append(impl.apply_op(g, op))
            lines.append('g tsobs h')
            out.append(self.safe_tsobs(g))
            if not oracle:
                oracle.extend(self.scan_oracle(g, get_variable_name_and_lag, f'after {op[0]}'))
        # construction routes: the same node set through a dictionary / through a plain graph
        if case['via'] in ('dict', 'plain') and not oracle:
            try:
                if case['via'] == 'dict':
                    g2 = TimeSeriesCausalGraph.from_dict(g.to_dict(), validate=False)
                else:
                    g2 = TimeSeriesCausalGraph.from_causal_graph(CausalGraph.from_dict(g.to_dict(), validate=False))
                a, b = self.safe_tsobs(g), self.safe_tsobs(g2)
                if a != b:
                    oracle.append(f'lookups differ after reconstruction via {case["via"]}: {a[:200]} vs {b[:200]}')
                oracle.extend(self.scan_oracle(g2, get_variable_name_and_lag, f'after reconstruction via {case["via"]}'))
            except Exception as e:  # noqa: BLE001
                oracle.append(f'reconstruction via {case["via"]} raised {type(e).__name__}')
        nodes = g.get_nodes()
        nontrivial = len(nodes) >= 3 and len({impl._safe(lambda n=n: n.time_lag) for n in nodes}) >= 2
        key = hashlib.sha1('\n'.join(out).encode()).hexdigest()
        return {'lines': lines, 'impl': out, 'oracle': oracle[:3], 'nontrivial': nontrivial, 'key': key, 'tags': sorted(tags)}

    @staticmethod
    def safe_tsobs(g):
        try:
            return impl.ts_obs(g)
        except Exception as e:  # noqa: BLE001
            return '!' + type(e).__name__

    @staticmethod
    def scan_oracle(g, parse, where):
        bad = []

        def twice(f):
            """the caller changes the list it was given in place; what counts is what the next call answers"""
            r = f()
            if isinstance(r, list):
                r.reverse()
                del r[:1]
                r.append(r[0] if r else None)
            return f()
        try:
            nodes = g.get_nodes()
            recs = []
            for n in nodes:
                v, l = n.variable_name, n.time_lag
                pv, pl = parse(n.identifier)
                if (v, l) != (pv, pl):
                    bad.append(f'{where}: node {n.identifier!r} reports ({v!r}, {l}) but its identifier parses to ({pv!r}, {pl})')
                if n.meta.get('time_lag') != l or n.meta.get('variable_name') != v:
                    bad.append(f'{where}: node {n.identifier!r} metadata disagrees with its properties')
                recs.append((n.identifier, v, l))
            lags = {l for _, _, l in recs}
            for l in lags | {0, 7}:
                got = sorted(x.identifier for x in twice(lambda: g.get_nodes_at_lag(l)))
                if got != sorted(i for i, _, k in recs if k == l):
                    bad.append(f'{where}: get_nodes_at_lag({l}) = {got} differs from the scan')
            vs = {v for _, v, _ in recs}
            for v in vs | {'nosuch'}:
                got = sorted(x.identifier for x in twice(lambda: g.get_nodes_for_variable_name(v)))
                if got != sorted(i for i, w, _ in recs if w == v):
                    bad.append(f'{where}: get_nodes_for_variable_name({v!r}) = {got} differs from the scan')
            if (twice(lambda: g.variables) or []) != sorted(vs):
                bad.append(f'{where}: variables = {g.variables} differs from the scan {sorted(vs)}')
            if twice(g.get_all_variable_names) != sorted(vs):
                bad.append(f'{where}: get_all_variable_names() differs from the scan')
            for i, v, l in recs:
                want = sorted(j for j, _, k in recs if k == l and j != i)
                got = sorted(x.identifier for x in twice(lambda: g.get_contemporaneous_nodes(i)))
                if got != want:
                    bad.append(f'{where}: get_contemporaneous_nodes({i!r}) differs from the scan')
                got = sorted(x.identifier for x in g.get_contemporaneous_nodes(g.get_node(i)))
                if got != want:
                    bad.append(f'{where}: get_contemporaneous_nodes(<the node object {i!r}>) differs from the scan')
                from cai_causal_graph.graph_components import TimeSeriesNode
                got = sorted(x.identifier for x in g.get_contemporaneous_nodes(TimeSeriesNode(i)))
                if got != want:
                    bad.append(f'{where}: get_contemporaneous_nodes(<a fresh equal node {i!r}>) differs from the scan')
            pos = [l for _, _, l in recs if l >= 0]
            neg = [l for _, _, l in recs if l <= 0]
            if g.max_forward_lag != (max(pos) if pos else None):
                bad.append(f'{where}: max_forward_lag = {g.max_forward_lag}')
            if g.max_backward_lag != (-min(neg) if neg else None):
                bad.append(f'{where}: max_backward_lag = {g.max_backward_lag}')
            if g.maxlag != (-min(neg) if neg else None):
                bad.append(f'{where}: maxlag (the documented alias of max_backward_lag) = {g.maxlag}')
        except Exception as e:  # noqa: BLE001
            bad.append(f'{where}: a lookup raised {type(e).__name__}: {e}')
        return bad

    def source_obligations(self):
        return c12_names.pattern_obligations()

    def signature(self, case, failure):
        return 'C12:' + hashlib.sha1(failure.split(':')[1][:40].encode()).hexdigest()[:12] if ':' in failure else 'C12:x'

    def widen(self, case):
        if 'ops' in case and isinstance(case.get('ops'), list) and case.get('kind', 'hist') == 'hist':
            return histories.widen_history(case)
        return []

    def shrink(self, case, still_fails):
        if case.get('kind') != 'hist':
            return case
        return histories.shrink_ops(case, still_fails)
