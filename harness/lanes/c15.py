"""C15 lane: the extended graph is the exact unrolling of the minimal graph over the window.

Model side: `ts extend <graph> <b|~> <f|~> <0|1> <idx>` (CG.TS.extendGraph).
"""
from harness import histories, tsgen
from harness.core import LaneBase

STEPS = [None, 0, 1, 2, 3]
ALL_COMBOS = [(b, f, iap) for b in STEPS for f in STEPS for iap in (True, False)]


def _le(a, b):
    """None (side not extended) <= 0 <= 1 <= …"""
    return (-1 if a is None else a) <= (-1 if b is None else b)


class Lane(LaneBase):
    PROP = 'C15'
    THEOREMS = 'auto'          # = the `#print axioms` lines of the audit file
    AUDIT = 'CG/Audit/C15.lean'
    DIFF_IS_FAILURE = False
    RULE = ('the C14 generator x extend_graph(b, f, include_all_parents) for b, f in {None,0,1,2,3} x both flags '
            '(quick: 14 of the 50 combinations per graph, thorough: all 50 in five cases of ten), plus a few negative step counts '
            '(AssertionError) and inconsistent / non-canonical inputs (correspondence incl. error class only).  '
            'Compared: the full graph token of every result.  Oracle: Unroll of DESIGN.md C15 in Python, canonical '
            'identifiers, attributes, and the consequences (minimal graph of the result, monotonicity in the window, '
            'acyclicity, shift-invariant parents).  Non-trivial: in-domain graph with an edge and a combination that '
            'extends at least one side by >= 1; distinct by (graph token, combination).')
    TRUSTED = ['the insertion order of the variable index is read from the implementation and handed to the model']
    PARTIAL = []

    def cases(self, tier, rng):
        n = 2500 if tier == 'quick' else 12000
        for _ in range(n):
            case = tsgen.gen_consistent(rng) if rng.random() < 0.82 else tsgen.gen_inconsistent(rng)
            if tier == 'quick':
                chunks = [rng.sample(ALL_COMBOS, 14)]
            else:
                # all 50 combinations, in five cases of ten (one case = one batch of request lines to the driver)
                allc = list(ALL_COMBOS)
                rng.shuffle(allc)
                chunks = [allc[i:i + 10] for i in range(0, 50, 10)]
            if rng.random() < 0.15:
                chunks[0] = chunks[0] + [(rng.choice([-1, -2, None, 1]), rng.choice([-1, None, -3]), rng.random() < 0.5)]
            for ch in chunks:
                yield dict(case, combos=[[b, f, iap] for b, f, iap in ch])

    def run_case(self, case):
        g, rejected = tsgen.build(case)
        tok, idx = tsgen.graph_args(g)
        lines, out, results = [], [], []
        for b, f, iap in case['combos']:
            lines.append(f'ts extend {tok} {tsgen.optint(b)} {tsgen.optint(f)} {int(iap)} {idx}')
            x, r = tsgen.reply_graph(lambda: g.extend_graph(b, f, include_all_parents=iap))
            out.append(r)
            results.append((b, f, iap, x, r))
        lines, out, cut = tsgen.fit_budget(lines, out)
        results = results[:len(lines)]
        tags = {case['kind']}
        if cut:
            tags.add('request-budget-cut')
        for _, _, _, _, r in results:
            tags.add('ext:' + (r.split(' ')[0] if r.startswith('ok') else r.replace(' ', ':')))
        oracle = []
        dom = tsgen.in_domain(g)
        if dom:
            tags.add('in-domain')
            oracle = self.oracle(g, results)
        else:
            tags.add('out-of-domain')
            oracle = tsgen.coherence_failures(g)
        nontrivial = dom and len(g.get_edges()) > 0 and any((b or 0) >= 1 or (f or 0) >= 1 for b, f, _ in case['combos'])
        return {'lines': lines, 'impl': out, 'oracle': oracle, 'nontrivial': nontrivial,
                'key': tsgen.digest(tok, idx, repr(case['combos'])), 'tags': sorted(tags)}

    def oracle(self, g, results):
        bad = []
        ok, va, ta = tsgen.var_consistent(g)
        min_spec = tsgen.spec_minimal(g)
        mn, me = min_spec
        min_acyclic = tsgen.directed_acyclic(mn, [k for k, t in me.items() if t == '->'])
        T = tsgen.templates(g)
        shapes = {}
        for b, f, iap, x, r in results:
            what = f'extend_graph({b}, {f}, include_all_parents={iap})'
            neg = (b is not None and b < 0) or (f is not None and f < 0)
            if neg:
                if r != 'err AssertionError':
                    bad.append(f'extend-negative: {what} answered {r[:40]} instead of raising AssertionError')
                continue
            if x is None:
                bad.append(f'extend-raised: {what} raised {r[4:]} on a template-consistent graph')
                continue
            want = tsgen.spec_unroll(g, b, f, iap)
            got = tsgen.shape(x)
            shapes[(b, f, iap)] = got
            bad += tsgen.shape_diff(f'extend-shape: {what} differs from Unroll', got, want)
            bad += tsgen.names_canonical_failures('extend-names: ' + what, x)
            if ok:
                bad += tsgen.attr_failures('extend-attrs: ' + what, x, va, ta)
            # consequences
            try:
                xm = tsgen.shape(x.get_minimal_graph())
                bad += tsgen.shape_diff(f'extend-minimal: minimal graph of {what} differs from the input\'s', xm, min_spec)
            except Exception as e:  # noqa: BLE001
                bad.append(f'extend-minimal: get_minimal_graph of {what} raised {type(e).__name__}')
            gn, ge = got
            if min_acyclic and not tsgen.directed_acyclic(gn, [k for k, t in ge.items() if t == '->']):
                bad.append(f'extend-acyclic: acyclic minimal graph but {what} has a directed cycle')
            if iap:
                window = set()
                if b is not None:
                    window |= set(range(-b, 1))
                if f is not None:
                    window |= set(range(0, f + 1))
                for (v, t) in gn:
                    if t in window:
                        par = {a for (a, c), ty in ge.items() if c == (v, t) and ty == '->'}
                        exp = {(s, t - dl) for (s, d, dl), tys in T.items() if d == v and '->' in tys}
                        if par != exp:
                            bad.append(f'extend-parents: parents of {(v, t)} in {what} are {sorted(par)}, templates '
                                       f'give {sorted(exp)}')
                            break
            if bad:
                break
        # a larger window gives a super-graph
        if not bad:
            keys = list(shapes)
            for k1 in keys:
                for k2 in keys:
                    if k1 != k2 and k1[2] == k2[2] and _le(k1[0], k2[0]) and _le(k1[1], k2[1]):
                        n1, e1 = shapes[k1]
                        n2, e2 = shapes[k2]
                        if not (n1 <= n2 and set(e1.items()) <= set(e2.items())):
                            bad.append(f'extend-mono: extend_graph{k1} is not a sub-graph of extend_graph{k2}')
                            return bad
        return bad

    def signature(self, case, failure):
        return 'C15:' + failure.split(':')[0]

    def shrink(self, case, still_fails):
        return histories.shrink_ops(case, still_fails)

    def describe(self, case):
        d = tsgen.describe(case)
        d['combos'] = case.get('combos', [])[:6]
        return d
