"""C03 lane: every raising single-element mutator must leave the graph observably unchanged."""
import hashlib
import json

from harness import exhaustive, histories, impl
from harness.core import LaneBase


class Lane(LaneBase):
    PROP = 'C03'
    THEOREMS = 'auto'
    AUDIT = 'CG/Audit/C03.lean'
    RULE = ('random histories of single-element mutators (no bulk adders) on both classes, about one third aimed at '
            'an error path; the full observable snapshot (nodes, variable types, metadata, edges, types, stored '
            'orientation, edge metadata, parents/children/neighbours, time-series lookups) is taken before and after '
            'every raising call on the implementation and the reply stream is compared with the model (whose failing '
            'steps return the state unchanged, by theorem). Non-trivial: at least one call raised on a graph that had '
            'an edge; distinct by the hash of the reply stream. Thorough tier additionally: every failing (state, '
            'operation) pair over the exhaustive 3-name universes (see C01).')
    TRUSTED = ['snapshot = what the public readers return (object identity / invalidated handles not compared)']

    EXHAUSTIVE = {'thorough': True}

    def cases(self, tier, rng):
        yield from histories.gen_cases(tier, rng, 2000, 8000, singles_only=True)
        if tier == 'thorough':
            yield from exhaustive.cases()

    def run_exh(self, case):
        oracle = []
        tags = set()
        nontrivial = [False]

        def per_op(g, op, res):
            if res is None:
                return impl.snapshot(g)
            r, before = res
            if r != 'ok':
                tags.add('exh:' + op[0] + ':' + r[4:])
                nontrivial[0] = nontrivial[0] or bool(before['edges'])
                after = impl.snapshot(g)
                if after != before and not oracle:
                    what = [k for k in before if before[k] != after[k]]
                    oracle.append(f'{op[0]} raised {r[4:]} and changed the graph ({",".join(what)}): state={case["state"]} '
                                  f'op={op}')
        lines, out = exhaustive.run(case, per_op)
        return {'lines': lines, 'impl': out, 'oracle': oracle, 'nontrivial': nontrivial[0],
                'key': repr((case['cls'], case['state'], case['ops'][0])), 'tags': sorted(tags)}

    def run_case(self, case):
        if case.get('kind') == 'exh':
            return self.run_exh(case)
        g = impl.new_graph(case['cls'], case.get('gmeta') or None)
        lines = [f"g new h {case['cls']} {impl.enc_meta(case.get('gmeta'))}"]
        out = ['ok']
        oracle = []
        tags = set()
        nontrivial = False
        for op in case['ops']:
            before = impl.snapshot(g)
            had_edge = bool(before['edges'])
            lines.append(impl.op_line('h', op))
            r = impl.apply_op(g, op)
            out.append(r)
            if r != 'ok':
                tags.add(op[0] + ':' + r[4:])
                after = impl.snapshot(g)
                if had_edge:
                    nontrivial = True
                if after != before and not oracle:
                    what = [k for k in before if before[k] != after[k]]
                    oracle.append(f'{op[0]} raised {r[4:]} and changed the graph ({",".join(what)}): '
                                  f'before={json.dumps(before)[:300]} after={json.dumps(after)[:300]}')
                lines.append('g obs h')
                out.append(impl.obs(g))
            if case.get('warm'):
                histories.warm_caches(g)
        lines.append('g obs h')
        out.append(impl.obs(g))
        key = hashlib.sha1('\n'.join(out).encode()).hexdigest()
        return {'lines': lines, 'impl': out, 'oracle': oracle, 'nontrivial': nontrivial, 'key': key, 'tags': sorted(tags)}

    def signature(self, case, failure):
        head = failure.split(' and changed')[0]
        return 'C03:' + case['cls'] + ':' + head

    def widen(self, case):
        if 'ops' in case and isinstance(case.get('ops'), list) and case.get('kind', 'hist') == 'hist':
            return histories.widen_history(case)
        return []

    def shrink(self, case, still_fails):
        if case.get('kind') == 'exh':
            for op in case['ops']:
                c2 = dict(case, ops=[op])
                if still_fails(c2):
                    return c2
            return case
        return histories.shrink_ops(case, still_fails)
