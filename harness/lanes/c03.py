"""C03 lane: every raising single-element mutator must leave the graph observably unchanged."""
import hashlib
import json

from harness import histories, impl
from harness.core import LaneBase


class Lane(LaneBase):
    PROP = 'C03'
    THEOREMS = ['CG.failed_stepRef_unchanged']
    AUDIT = 'CG/Audit/C03.lean'
    RULE = ('random histories of single-element mutators (no bulk adders) on both classes, about one third aimed at '
            'an error path; the full observable snapshot (nodes, variable types, metadata, edges, types, stored '
            'orientation, edge metadata, parents/children/neighbours, time-series lookups) is taken before and after '
            'every raising call on the implementation and the reply stream is compared with the model (whose failing '
            'steps return the state unchanged, by theorem). Non-trivial: at least one call raised on a graph that had '
            'an edge; distinct by the hash of the reply stream.')
    TRUSTED = ['snapshot = what the public readers return (object identity / invalidated handles not compared)']

    def cases(self, tier, rng):
        yield from histories.gen_cases(tier, rng, 500, 8000, singles_only=True)

    def run_case(self, case):
        g = impl.new_graph(case['cls'], case.get('gmeta') or None)
        lines = [f"g new h {case['cls']} {impl.enc_meta(case.get('gmeta'))}"]
        out = ['ok']
        oracle = []
        tags = set()
        nontrivial = False
        for op in case['ops']:
            before = impl.snapshot(g)
            had_edge = bool(before['edges'])
            lines.append(impl.op_line('h', op))
            r = impl.apply_op(g, op)
            out.append(r)
            if r != 'ok':
                tags.add(op[0] + ':' + r[4:])
                after = impl.snapshot(g)
                if had_edge:
                    nontrivial = True
                if after != before and not oracle:
                    what = [k for k in before if before[k] != after[k]]
                    oracle.append(f'{op[0]} raised {r[4:]} and changed the graph ({",".join(what)}): '
                                  f'before={json.dumps(before)[:300]} after={json.dumps(after)[:300]}')
                lines.append('g obs h')
                out.append(impl.obs(g))
            if case.get('warm'):
                histories.warm_caches(g)
        lines.append('g obs h')
        out.append(impl.obs(g))
        key = hashlib.sha1('\n'.join(out).encode()).hexdigest()
        return {'lines': lines, 'impl': out, 'oracle': oracle, 'nontrivial': nontrivial, 'key': key, 'tags': sorted(tags)}

    def signature(self, case, failure):
        head = failure.split(' and changed')[0]
        return 'C03:' + case['cls'] + ':' + head

    def shrink(self, case, still_fails):
        return histories.shrink_ops(case, still_fails)
