"""C03 lane: every raising single-element mutator must leave the graph observably unchanged."""
import hashlib
import json

from harness import exhaustive, histories, impl
from harness.core import LaneBase


class Lane(LaneBase):
    PROP = 'C03'
    THEOREMS = 'auto'
    AUDIT = 'CG/Audit/C03.lean'
    RULE = ('random histories of single-element mutators (no bulk adders) on both classes, about one third aimed at '
            'an error path; the full observable snapshot (nodes, variable types, metadata, edges, types, stored '
            'orientation, edge metadata, parents/children/neighbours, time-series lookups) is taken before and after '
            'every raising call on the implementation and the reply stream is compared with the model (whose failing '
            'steps return the state unchanged, by theorem). Non-trivial: at least one call raised on a graph that had '
            'an edge; distinct by the hash of the reply stream. Thorough tier additionally: every failing (state, '
            'operation) pair over the exhaustive 3-name universes (see C01). A twin graph receives only the accepted '
            'calls; at the end every read view and every (memoised) reader must answer the same on both. Node '
            'arguments are given as identifiers, own Node objects or stale Node objects. Two deep-chain cases (1300 '
            'nodes, beyond the recursion limit): cycle-closing calls must be refused with the same error and no change.')
    TRUSTED = ['snapshot = what the public readers return (object identity / invalidated handles not compared)']

    EXHAUSTIVE = {'thorough': True}

    def cases(self, tier, rng):
        yield from histories.gen_cases(tier, rng, 2000, 8000, singles_only=True)
        for cls in ('plain', 'ts'):
            yield {'kind': 'deep', 'cls': cls, 'n': 1300 if tier == 'quick' else 2500}
        if tier == 'thorough':
            yield from exhaustive.cases()

    def run_exh(self, case):
        oracle = []
        tags = set()
        nontrivial = [False]

        def per_op(g, op, res):
            if res is None:
                return impl.snapshot(g)
            r, before = res
            if r != 'ok':
                tags.add('exh:' + op[0] + ':' + r[4:])
                nontrivial[0] = nontrivial[0] or bool(before['edges'])
                after = impl.snapshot(g)
                if after != before and not oracle:
                    what = [k for k in before if before[k] != after[k]]
                    oracle.append(f'{op[0]} raised {r[4:]} and changed the graph ({",".join(what)}): state={case["state"]} '
                                  f'op={op}')
        lines, out = exhaustive.run(case, per_op)
        return {'lines': lines, 'impl': out, 'oracle': oracle, 'nontrivial': nontrivial[0],
                'key': repr((case['cls'], case['state'], case['ops'][0])), 'tags': sorted(tags)}

    def run_deep(self, case):
        """a directed chain far deeper than the interpreter's recursion limit: a validated call that closes a cycle over
        it must be refused like on a small graph, and leave the graph as it was (oracle only; the model is not consulted)"""
        from cai_causal_graph.type_definitions import EdgeType
        n = case['n']
        g = impl.new_graph(case['cls'])
        names = [f'n{i:05d}' for i in range(n)]
        for a, b in zip(names, names[1:]):
            g.add_edge(a, b, validate=False)
        g.add_edge(names[-1], 'side', edge_type=EdgeType.UNDIRECTED_EDGE)
        g.add_edge('side', names[0], edge_type=EdgeType.DIRECTED_EDGE)

        def shot():
            return (g.get_node_names(), [(e.source.identifier, e.destination.identifier, impl.ety(e)) for e in g.get_edges()],
                    sorted(g.get_parents(names[0])), sorted(g.get_children(names[-1])))
        oracle, tags = [], set()
        calls = [('add_edge', lambda: g.add_edge(names[-1], names[0])),
                 ('add_edge_by_pair', lambda: g.add_edge_by_pair((names[-1], names[0]))),
                 ('change_edge_type', lambda: g.change_edge_type(names[-1], 'side', EdgeType.DIRECTED_EDGE)),
                 ('replace_edge', lambda: g.replace_edge(names[-1], 'side', names[-1], names[n // 2],
                                                        edge_type=EdgeType.DIRECTED_EDGE))]
        for name, f in calls:
            before = shot()
            try:
                f()
                r = 'ok'
            except BaseException as e:  # noqa: BLE001 -- RecursionError included: it is the observation here
                r = type(e).__name__
            tags.add(f'deep:{name}:{r}')
            if r == 'ok':
                oracle.append(f'deep chain ({n} nodes): {name} accepted a cycle-closing edge')
                break
            if shot() != before:
                oracle.append(f'deep chain ({n} nodes): {name} raised {r} and changed the graph')
                break
            if r != 'CyclicConnectionError':
                oracle.append(f'deep chain ({n} nodes): {name} raised {r}, a small graph gets CyclicConnectionError')
                break
        return {'lines': [], 'impl': [], 'oracle': oracle, 'nontrivial': True, 'key': f"deep:{case['cls']}:{n}",
                'tags': sorted(tags)}

    READERS = ['isdag', 'fd', 'fu', 'nx', 'adj', 'numpy', 'skel', 'vars', 'ismin', 'isstat', 'lags', 'adjmats']

    def twin_failures(self, g, t, cls, last_rejected):
        """`g` saw rejected calls, the twin `t` only the accepted ones: every answer must be the same"""
        from harness.lanes import c04
        bad = []
        if impl.obs(g) != impl.obs(t):
            bad.append(f'after a rejected {last_rejected} the read views differ from a twin that only saw the accepted calls')
        for name in self.READERS:
            if name not in c04.readers_of(cls):
                continue
            a, b = c04.read(g, name), c04.read(t, name)
            if a != b:
                bad.append(f'after a rejected {last_rejected} `{name}` answers {str(a)[:80]} but {str(b)[:80]} on a twin that '
                           f'only saw the accepted calls')
                break
        return bad

    def run_case(self, case):
        if case.get('kind') == 'exh':
            return self.run_exh(case)
        if case.get('kind') == 'deep':
            return self.run_deep(case)
        g = impl.new_graph(case['cls'], case.get('gmeta') or None)
        twin = impl.new_graph(case['cls'], case.get('gmeta') or None)
        last_rejected = None
        lines = [f"g new h {case['cls']} {impl.enc_meta(case.get('gmeta'))}"]
        out = ['ok']
        oracle = []
        tags = set()
        nontrivial = False
        for op in case['ops']:
            before = impl.snapshot(g)
            had_edge = bool(before['edges'])
            lines.append(impl.op_line('h', op))
            r = impl.apply_op(g, op)
            out.append(r)
            if r == 'ok' and twin is not None:
                if impl.apply_op(twin, op) != 'ok':
                    if last_rejected and not oracle:
                        oracle.append(f'after a rejected {last_rejected}, {op[0]} is accepted although a twin that only saw '
                                      f'the accepted calls refuses it')
                    twin = None
            if r != 'ok':
                last_rejected = op[0]
                tags.add(op[0] + ':' + r[4:])
                after = impl.snapshot(g)
                if had_edge:
                    nontrivial = True
                if after != before and not oracle:
                    what = [k for k in before if before[k] != after[k]]
                    oracle.append(f'{op[0]} raised {r[4:]} and changed the graph ({",".join(what)}): '
                                  f'before={json.dumps(before)[:300]} after={json.dumps(after)[:300]}')
                lines.append('g obs h')
                out.append(impl.obs(g))
            if case.get('warm'):
                histories.warm_caches(g)
        lines.append('g obs h')
        out.append(impl.obs(g))
        if twin is not None and last_rejected and not oracle:
            # "unchanged" includes what cannot be seen at once: the graph must go on behaving like one that never saw the
            # rejected calls (every reader, with whatever the caches hold)
            try:
                oracle += self.twin_failures(g, twin, case['cls'], last_rejected)[:1]
            except RecursionError:
                raise
            except Exception as e:  # noqa: BLE001
                oracle.append(f'comparing with the twin raised {type(e).__name__}')
        key = hashlib.sha1('\n'.join(out).encode()).hexdigest()
        return {'lines': lines, 'impl': out, 'oracle': oracle, 'nontrivial': nontrivial, 'key': key, 'tags': sorted(tags)}

    def signature(self, case, failure):
        head = failure.split(' and changed')[0]
        return 'C03:' + case['cls'] + ':' + head

    def widen(self, case):
        if 'ops' in case and isinstance(case.get('ops'), list) and case.get('kind', 'hist') == 'hist':
            return histories.widen_history(case)
        return []

    def shrink(self, case, still_fails):
        if case.get('kind') == 'exh':
            for op in case['ops']:
                c2 = dict(case, ops=[op])
                if still_fails(c2):
                    return c2
            return case
        if case.get('kind') == 'deep':
            return case
        return histories.shrink_ops(case, still_fails)
