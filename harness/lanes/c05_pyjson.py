"""
C05, third-party half: CPython's `json.dumps` / `json.dumps(sort_keys=True)` / `json.loads` (default arguments) against
their Lean transcription (`CG.PyJson`, handler token `pyjson`).

NOT a full lane: the C05 lane imports

    pyjson_lines(kind, value_or_text)  -> [(line, expected_reply), ...]

and appends every `line` to its `lines` and every `expected_reply` to its `impl`.  `expected_reply` comes from the REAL
`json` module:

    kind       argument   real call                               expected reply
    'dumps'    a value    json.dumps(v)                           hex of the text
    'dumpss'   a value    json.dumps(v, sort_keys=True)           hex of the text
    'cj'       a value    json.dumps(v, sort_keys=True, separators=(',', ':'), ensure_ascii=False)
                                                                  hex of the text (`harness.impl.cj`)
    'dumpsf'   (v, ascii, w1, w2, w3, w4)
                          json.dumps(v, ensure_ascii=ascii, separators=(w1 + ',' + w2, w3 + ':' + w4))
                                                                  hex of the text
    'loads'    a text     json.loads(text)                        hex of the canonical encoding of the value
                                                                  | err JSONDecodeError | unsupported

Canonical encoding of a value (`enc_value`, written WITHOUT `json`; mirrored by lean/CG/Driver/HPyJson.lean):
`n` None, `t` / `f` True / False, `i<str(i)>;` int, `s<N>:<chars>` str of N code points, `a<N>:<items>` list,
`o<N>:<key><value>...` dict in insertion order with keys written `<N>:<chars>`.

`unsupported` (explicit, never silent):
  * 'dumps' / 'dumpss' of a value outside the modelled trees (a float, a dict key that is not a `str`, a `str` with an
    unpaired surrogate, any other type): the line is `pyjson unsupported`, whose reply is `unsupported`;
  * 'loads' of a text that `json.loads` ACCEPTS but whose parse met a float (`1.0`, `1e3`, `NaN`, `Infinity`, `-Infinity`;
    seen through the `parse_float` / `parse_constant` hooks of the real decoder, so also when the float is later dropped by a
    duplicate key) or an unpaired surrogate escape (seen through `object_pairs_hook`).  A text that `json.loads` rejects is
    `err JSONDecodeError` whatever came before the error.
  NOTE: `harness/lanes/c05.py` does send floats: its `NESTED` metadata holds `2.5` (`'w': [1, 2.5, 'x', True]`) and `1e-3`
  (`{'n': -3, 'f': 1e-3}`).  Dictionaries that carry them answer `unsupported` here, i.e. for those two metadata values the
  float half of `json` (`float.__repr__` / `float()`) stays in the trusted base.

Exclusions (`excluded(kind, x)` returns the reason, `pyjson_lines` returns `[]`) -- interpreter limits, not `json` behaviour:
  E1  an int with more than `sys.get_int_max_str_digits()` (4300) digits in the value / text: CPython's int<->str guard
      raises `ValueError` from `json.dumps` and `json.loads`.  With the guard off (`sys.set_int_max_str_digits(0)`) the
      model agrees; `self_test` measures that in its section `hugeint`.
  E2  nesting deeper than `MAX_DEPTH` (200): the real encoder / decoder raise `RecursionError` somewhere beyond that.
  E3  'loads' of a text that contains a literal unpaired surrogate code point: it has no UTF-8 form, so it cannot be sent.

    self_test()   generated trees and hand-made / mutated texts through a `harness.core.ModelClient`; returns the list of
                  disagreements (empty = agreement)
"""
from __future__ import annotations

import json
import random
import sys
import time

from harness.core import hx

MAX_DEPTH = 200


# ----------------------------------------------------------------------------------------------
# canonical encoding (no json here)
# ----------------------------------------------------------------------------------------------

def _has_surrogate(s):
    return any(0xD800 <= ord(c) <= 0xDFFF for c in s)


def _enc_str(s, out):
    out.append('%d:' % len(s))
    out.append(s)


def _enc(v, out):
    if v is None:
        out.append('n')
    elif v is True:
        out.append('t')
    elif v is False:
        out.append('f')
    elif type(v) is int:
        out.append('i' + str(v) + ';')
    elif type(v) is str:
        if _has_surrogate(v):
            raise ValueError('surrogate')
        out.append('s')
        _enc_str(v, out)
    elif type(v) is list:
        out.append('a%d:' % len(v))
        for x in v:
            _enc(x, out)
    elif type(v) is dict:
        out.append('o%d:' % len(v))
        for k, x in v.items():
            if type(k) is not str or _has_surrogate(k):
                raise ValueError('key')
            _enc_str(k, out)
            _enc(x, out)
    else:
        raise ValueError('type ' + type(v).__name__)


def enc_value(v):
    """the canonical encoding; ValueError for a value outside the modelled trees"""
    out = []
    _enc(v, out)
    return ''.join(out)


def dec_value(t):
    """inverse of enc_value (used by the self test to check the encoding itself)"""
    def num(i, stop):
        j = t.index(stop, i)
        return int(t[i:j]), j + 1

    def st(i):
        n, i = num(i, ':')
        return t[i:i + n], i + n

    def go(i):
        c = t[i]
        if c == 'n':
            return None, i + 1
        if c == 't':
            return True, i + 1
        if c == 'f':
            return False, i + 1
        if c == 'i':
            return num(i + 1, ';')
        if c == 's':
            return st(i + 1)
        if c == 'a':
            n, i = num(i + 1, ':')
            xs = []
            for _ in range(n):
                x, i = go(i)
                xs.append(x)
            return xs, i
        if c == 'o':
            n, i = num(i + 1, ':')
            d = {}
            for _ in range(n):
                k, i = st(i)
                x, i = go(i)
                d[k] = x
            return d, i
        raise ValueError(c)
    v, i = go(0)
    assert i == len(t)
    return v


def _depth(v):
    d, stack = 0, [(v, 1)]
    while stack:
        x, k = stack.pop()
        d = max(d, k)
        if isinstance(x, list):
            stack.extend((y, k + 1) for y in x)
        elif isinstance(x, dict):
            stack.extend((y, k + 1) for y in x.values())
    return d


def _max_int_digits(v):
    m, stack = 0, [v]
    while stack:
        x = stack.pop()
        if type(x) is int:
            m = max(m, x.bit_length() * 0.30103)
        elif isinstance(x, list):
            stack.extend(x)
        elif isinstance(x, dict):
            stack.extend(x.values())
    return m


def _int_limit():
    lim = sys.get_int_max_str_digits()
    return lim if lim else float('inf')


def _text_depth(text):
    d = m = 0
    for c in text:
        if c in '[{':
            d += 1
            m = max(m, d)
        elif c in ']}':
            d -= 1
    return m


def _text_digit_run(text):
    m = r = 0
    for c in text:
        r = r + 1 if '0' <= c <= '9' else 0
        m = max(m, r)
    return m


def excluded(kind, x):
    """reason why the input is outside what is compared (E1..E3 of the module docstring), or None"""
    if kind == 'dumpsf':
        x = x[0]
    if kind in ('dumps', 'dumpss', 'cj', 'dumpsf'):
        if _depth(x) > MAX_DEPTH:
            return 'E2 depth'
        if _max_int_digits(x) >= _int_limit() - 1:
            return 'E1 int digits'
        return None
    if _has_surrogate(x):
        return 'E3 literal surrogate'
    if _text_depth(x) > MAX_DEPTH:
        return 'E2 depth'
    if _text_digit_run(x) > _int_limit():
        return 'E1 int digits'
    return None


class _Pairs(list):
    pass


def _raw_has_surrogate(raw):
    stack = [raw]
    while stack:
        x = stack.pop()
        if type(x) is str:
            if _has_surrogate(x):
                return True
        elif isinstance(x, _Pairs):
            for k, y in x:
                if _has_surrogate(k):
                    return True
                stack.append(y)
        elif isinstance(x, list):
            stack.extend(x)
    return False


def loads_expected(text):
    try:
        v = json.loads(text)
    except json.JSONDecodeError:
        return 'err JSONDecodeError'
    seen = []

    def fl(tok):
        seen.append(tok)
        return 0.0
    raw = json.loads(text, parse_float=fl, parse_constant=fl, object_pairs_hook=_Pairs)
    if seen or _raw_has_surrogate(raw):
        return 'unsupported'
    return hx(enc_value(v))


def pyjson_lines(kind, x):
    """[(request line for the Lean driver, reply computed from the real json module)]; [] when `excluded(kind, x)`"""
    if excluded(kind, x):
        return []
    if kind in ('dumps', 'dumpss', 'cj'):
        try:
            t = enc_value(x)
        except ValueError:
            return [('pyjson unsupported', 'unsupported')]
        if kind == 'cj':
            text = json.dumps(x, sort_keys=True, separators=(',', ':'), ensure_ascii=False)
        else:
            text = json.dumps(x) if kind == 'dumps' else json.dumps(x, sort_keys=True)
        return [(f'pyjson {kind} {hx(t)}', hx(text))]
    if kind == 'dumpsf':
        v, ascii_, w1, w2, w3, w4 = x
        try:
            t = enc_value(v)
        except ValueError:
            return [('pyjson unsupported', 'unsupported')]
        text = json.dumps(v, ensure_ascii=bool(ascii_), separators=(w1 + ',' + w2, w3 + ':' + w4))
        return [(f'pyjson dumpsf {int(bool(ascii_))} {hx(w1)} {hx(w2)} {hx(w3)} {hx(w4)} {hx(t)}', hx(text))]
    if kind == 'loads':
        return [(f'pyjson loads {hx(x)}', loads_expected(x))]
    raise ValueError(kind)


def through_json_lines(d):
    """what the C05 lane needs for `json.loads(json.dumps(d))`: the dumps line and the loads line of the produced text"""
    return pyjson_lines('dumps', d) + pyjson_lines('loads', json.dumps(d))


# ----------------------------------------------------------------------------------------------
# self test
# ----------------------------------------------------------------------------------------------

_CHARS = ['a', 'b', 'A', 'B', 'z', '0', '1', ' ', '"', '\\', '/', '\b', '\f', '\n', '\r', '\t', '\x00', '\x01', '\x1f',
          '\x7f', '\x80', 'é', 'ü', 'ÿ', 'Ā', '\u07ff', '\u0800', '\u2028', '\u2029', '\ud7ff', '\ue000', '\ufffd',
          '\uffff', '\U00010000', '\U0001f600', '\U000fffff', '\U00100000', '\U0010ffff', ',', ':', '{', '}', '[', ']',
          'u', 'n', 'e', 'E', '.', '-', '+', "'"]


def _rstr(rng):
    k = rng.choice([0, 0, 1, 1, 2, 3, 5, 8])
    return ''.join(rng.choice(_CHARS) for _ in range(k))


def _rint(rng):
    x = rng.random()
    if x < 0.5:
        return rng.randint(-20, 20)
    if x < 0.7:
        return rng.choice([0, -1, 9, 10, 99, 100, 2 ** 31, -2 ** 31, 2 ** 63, -2 ** 63 - 1, 2 ** 64, 10 ** 18, -10 ** 19])
    if x < 0.95:
        return rng.randint(-10 ** 40, 10 ** 40)
    return rng.choice([1, -1]) * rng.randint(10 ** 300, 10 ** 1000)


def _rval(rng, depth):
    x = rng.random()
    if depth <= 0 or x < 0.45:
        y = rng.random()
        if y < 0.3:
            return _rint(rng)
        if y < 0.65:
            return _rstr(rng)
        return rng.choice([None, True, False])
    if x < 0.72:
        return [_rval(rng, depth - 1) for _ in range(rng.choice([0, 1, 2, 3, 5]))]
    d = {}
    for _ in range(rng.choice([0, 1, 2, 3, 6])):
        k = _rstr(rng) if rng.random() < 0.7 else rng.choice(['a', 'A', 'b', 'B', 'ab', 'aB', 'Ab', 'é', 'É', '', 'key'])
        d[k] = _rval(rng, depth - 1)
    return d


def _permuted(rng, v):
    if isinstance(v, list):
        return [_permuted(rng, x) for x in v]
    if isinstance(v, dict):
        items = list(v.items())
        rng.shuffle(items)
        return {k: _permuted(rng, x) for k, x in items}
    return v


_HAND_TEXTS = [
    '', ' ', '\n', 'null', ' null ', '\tnull\r\n', 'nul', 'nullx', 'null null', 'true', 'false', 'True', 'tru', 'fals', 'NULL',
    '0', '-0', '1', '-1', '+1', '01', '00', '-01', '-', '--1', '1.0', '1.', '.5', '1e3', '1E3', '1e+3', '1e-3', '1e', '1e+',
    '1.5e3', '-1.0', '0.0', '0e0', '1.e3', '1 2', '12a', '1,', '１', '1１', '١', '12٣', '1_000', '0x10', '1e3x', '[1e]', '[1.]',
    '[1.0]', '[1e5]', '[-]', '[-0]', '[01]', '[1 2]', '[1.0, }', '{"a": 1.0, "a": 2}', '{"a": 1.0, "a"}',
    'NaN', 'Infinity', '-Infinity', 'nan', 'Inf', '-Inf', 'infinity', '-infinity', 'NaNx', '[NaN]', '[Infinity, -Infinity]',
    '-NaN', '+Infinity', 'Infinit', '-Infinit', '[NaN',
    '""', '"', '"a', '"a"', '"a" ', ' "a"', '"a""', '"a"b', "'a'", '"\\', '"\\"', '"\\""', '"\\\\"', '"\\/"', '"/"',
    '"\\b\\f\\n\\r\\t"', '"\\a"', '"\\v"', '"\\0"', '"\\x41"', '"\\U00000041"', '"\\ "', '"\\\n"', '"\\N"', '"\\B"', '"\\\'"',
    '"\\u0041"', '"\\u00e9"', '"\\u00E9"', '"\\u00Ee"', '"\\uABCD"', '"\\uabcd"', '"\\uAbCd"', '"\\u004"', '"\\u00"', '"\\u0"',
    '"\\u"', '"\\u', '"\\u0041', '"\\u004', '"\\u004g"', '"\\ug041"', '"\\u0x41"', '"\\u0X41"', '"\\u+041"', '"\\u-041"',
    '"\\u 041"', '"\\u041 "', '"\\u0_41"', '"\\u00_1"', '"\\u１234"', '"\\u00４1"', '"\\U0041"',
    '"\\ud83d\\ude00"', '"\\uD83D\\uDE00"', '"\\ud83d\\uDE00"', '"\\ud800\\udc00"', '"\\udbff\\udfff"', '"\\ud800"',
    '"\\udc00"', '"\\udfff"', '"\\udbff"', '"\\ud800x"', '"\\ud800\\n"', '"\\ud800\\u0041"', '"\\ud800\\ud800"',
    '"\\ud800\\ud800\\udc00"', '"\\udc00\\ud800"', '"\\ud800\\u"', '"\\ud800\\u00"', '"\\ud800\\uzzzz"', '"\\ud800\\udc0"',
    '"\\ud800\\udc00', '"\\ud800\\udc0', '"\\ud800\\u+c00"', '"\\ud800\\u dc0"', '"\\ud800\\udc_0"', '"\\ud800\\\\udc00"',
    '"\\ud800', '"\\ud800\\', '"\\ud800\\u', '"\\ud7ff"', '"\\ue000"', '"\\uffff"', '"\\u0000"', '"\\u001f"', '"\\u007f"',
    '["\\ud800"', '["\\ud800", ]', '{"\\ud800": 1}', '{"a": "\\ud800", "a": 1}', '{"a": ["\\udc00"], "a": 1}',
    '{"\\ud800": 1, "b"}', '[1.5, "\\ud800"]', '"\\ud83d \\ude00"',
    '"\x00"', '"\x01"', '"\t"', '"\n"', '"\r"', '"\x1f"', '"\x7f"', '"\x80"', '"é"', '"\u2028"', '"\U0001f600"', '"a\tb"',
    '[]', '[ ]', '[\n]', '[', ']', '[,]', '[1,]', '[,1]', '[1,,2]', '[1 ,2]', '[1, 2]', '[1,2', '[1,2]]', '[[]]', '[[],[]]',
    '[[[[[[]]]]]]', '[ [ ] , [ ] ]', '[1\t,\n2\r]', '[1]x', '[1] x', '[1] [2]', '[null, true, false]', '[nul]', '["a" "b"]',
    '["a",]', '[:]', '[}', '{]', '[\x0b]', '[\x0c1]', '[\xa01]', '[\u20281]', '\ufeff[]', '[1]\x00',
    '{}', '{ }', '{\n}', '{', '}', '{,}', '{"a"}', '{"a":}', '{"a":1', '{"a":1,}', '{"a":1,,}', '{"a" 1}', '{"a":1 "b":2}',
    '{a:1}', "{'a':1}", '{1:2}', '{null:1}', '{"a":1}', '{"a" :1}', '{"a": 1}', '{"a" : 1}', '{ "a" : 1 }', '{"a"\t:\n1\r}',
    '{"a":  1}', '{"a":\t\t1}', '{"a":1 , "b":2}', '{"a":1,"b":2}', '{"a":1,\n"b":2}', '{"a":1, b:2}', '{"a":1,  }',
    '{"a": 1, "a": 2}', '{"a": 1, "b": 2, "a": 3}', '{"a": 1, "b": 2, "a": 3, "b": 4, "c": 5}', '{"a": {"x": 1, "x": 2}, "a": 3}',
    '{"b": 1, "a": 2, "b": {"a": 1, "a": []}}', '{"": 1, "": 2}', '{"\\u0061": 1, "a": 2}', '{"A": 1, "a": 2}',
    '{"a": {"b": {"c": {}}}}', '{"a": [{"b": []}, {}]}', '{"a":1}}', '{"a":1} {', '{"a":1}x', '{"a"::1}', '{"a":,}',
    '{"a\n": 1}', '{"a": "b\n"}', '{"a": tru}', '{"a": 1.5}', '{"a": -}', '{:1}', '{"a":1;}', '{"a"=1}',
    '  {"a": [1, 2, {"b": null}], "c": "d"}  ', '{"a": [1, 2, {"b": null}], "c": "d"',
]


class _Sink:
    def __init__(self):
        from harness.core import ModelClient
        self.mc = ModelClient()
        self.batch = []
        self.bad = []
        self.total = {}
        self.tag = '?'

    def add(self, pairs):
        for ln, exp in pairs:
            t = self.total.setdefault(self.tag, {'lines': 0, 'err': 0, 'unsupported': 0})
            t['lines'] += 1
            if exp.startswith('err'):
                t['err'] += 1
            if exp == 'unsupported':
                t['unsupported'] += 1
            self.batch.append((ln, exp))
        if len(self.batch) >= 2000:
            self.flush()

    def flush(self):
        if self.batch:
            replies = self.mc.ask([ln for ln, _ in self.batch])
            for (ln, exp), got in zip(self.batch, replies):
                if got != exp:
                    self.bad.append((ln, exp, got))
            self.batch = []

    def close(self):
        try:
            self.flush()
        finally:
            self.mc.close()


_WS = ['', '', ' ', '\n', '\t', '\r', '  ', ' \n\t']


def _value_round(sink, v, rng=None):
    """dumps, dumpss, cj (and dumpsf in a random format) and loads of the produced texts"""
    sink.add(pyjson_lines('dumps', v))
    sink.add(pyjson_lines('dumpss', v))
    sink.add(pyjson_lines('cj', v))
    if excluded('dumps', v):
        return
    try:
        enc_value(v)
    except ValueError:
        return
    sink.add(pyjson_lines('loads', json.dumps(v)))
    sink.add(pyjson_lines('loads', json.dumps(v, sort_keys=True)))
    sink.add(pyjson_lines('loads', json.dumps(v, sort_keys=True, separators=(',', ':'), ensure_ascii=False)))
    if rng is not None:
        a = rng.random() < 0.5
        w = [rng.choice(_WS) for _ in range(4)]
        sink.add(pyjson_lines('dumpsf', (v, a, *w)))
        sink.add(pyjson_lines('loads', json.dumps(v, ensure_ascii=a, separators=(w[0] + ',' + w[1], w[2] + ':' + w[3]))))


_MUT_POOL = list('"\\/,:{}[] \t\n\r0123456789.-+eEnulltruefalsNaInity') + ['\x00', '\x1f', '\x7f', 'é', '\U0001f600', '\\u',
                                                                              '\\ud800', '\\udc00', '\\"', '\\\\', '1.5', ', ']


def _mutate(rng, text):
    if not text:
        return rng.choice(_MUT_POOL)
    i = rng.randrange(len(text) + 1)
    x = rng.random()
    if x < 0.3:
        return text[:i] + text[i + 1:]
    if x < 0.6:
        return text[:i] + rng.choice(_MUT_POOL) + text[i:]
    if x < 0.8:
        return text[:i] + rng.choice(_MUT_POOL) + text[i + 1:]
    if x < 0.9:
        return text[:i]
    j = rng.randrange(len(text) + 1)
    i, j = min(i, j), max(i, j)
    return text[:i] + text[j:] + text[i:j]


def _spaced(rng, text):
    """whitespace sprinkled between the tokens of a text produced by json.dumps (never inside a string)"""
    out, ins = [], False
    i = 0
    while i < len(text):
        c = text[i]
        if ins:
            out.append(c)
            if c == '\\':
                out.append(text[i + 1])
                i += 1
            elif c == '"':
                ins = False
        else:
            if c == '"':
                ins = True
                out.append(c)
            elif c in '[]{},:':
                out.append(''.join(rng.choice(' \t\n\r') for _ in range(rng.choice([0, 0, 1, 2, 3]))))
                out.append(c)
                out.append(''.join(rng.choice(' \t\n\r') for _ in range(rng.choice([0, 0, 1, 2, 3]))))
            elif c == ' ':
                pass
            else:
                out.append(c)
        i += 1
    return ''.join(out)


def self_test(seed=1, verbose=True, trees=6000, mutants=30000):
    """Returns the list of disagreements `(line, reply from the real json module, model reply)`; empty = agreement.

    Sections: `codec` (the canonical encoding decodes back, Python side only), `hand` (the hand-made texts), `allchars`
    (every Unicode scalar value as an element of a str: dumps, loads of the produced text, loads of the raw text; every
    surrogate code unit and every pair of boundary code units as `\\uXXXX` escapes; also `cj` and `dumpsf` with
    ensure_ascii on / off), `escapes` (`\\X` for every ASCII X,
    `\\uXXXX` over an alphabet of digit-like characters), `trees` (random trees incl. deep nesting, empty containers, awkward
    keys / strings, long ints, key order permutations; every tree also through `cj` and through `dumpsf` in a random format
    -- whitespace around `,` and `:`, ensure_ascii on / off -- and `loads` of each produced text), `spaced` (whitespace variants of produced texts), `mutants` (one to
    three random edits of produced texts), `hugeint` (ints beyond the int/str guard with the guard switched off)."""
    t0 = time.time()
    rng = random.Random(seed)
    sink = _Sink()
    try:
        # ---- codec
        sink.tag = 'codec'
        for _ in range(2000):
            v = _rval(rng, 4)
            if dec_value(enc_value(v)) != v or list(_iter_keys(dec_value(enc_value(v)))) != list(_iter_keys(v)):
                sink.bad.append(('codec', repr(v), 'canonical encoding does not decode back'))
        # ---- hand-made texts
        sink.tag = 'hand'
        for t in _HAND_TEXTS:
            sink.add(pyjson_lines('loads', t))
            sink.add(pyjson_lines('loads', '[' + t + ']'))
            sink.add(pyjson_lines('loads', '{"k": ' + t + '}'))
            sink.add(pyjson_lines('loads', ' ' + t + '\n'))
        # ---- every scalar value
        sink.tag = 'allchars'
        scalars = [c for c in range(0x110000) if not 0xD800 <= c <= 0xDFFF]
        for i in range(0, len(scalars), 700):
            s = ''.join(chr(c) for c in scalars[i:i + 700])
            sink.add(pyjson_lines('dumps', s))
            sink.add(pyjson_lines('cj', s))
            sink.add(pyjson_lines('dumpsf', ([s, {s: s}], False, '', ' ', '', ' ')))
            sink.add(pyjson_lines('dumpsf', ([s, {s: s}], True, '', ' ', '', ' ')))
            sink.add(pyjson_lines('loads', json.dumps(s)))
            sink.add(pyjson_lines('loads', json.dumps(s, ensure_ascii=False)))
            sink.add(pyjson_lines('dumps', {s: [s]}))
            raw = ''.join(ch for ch in s if ord(ch) >= 0x20 and ch not in '"\\')
            sink.add(pyjson_lines('loads', '"' + raw + '"'))
        for c in range(0x20):
            sink.add(pyjson_lines('loads', '"a' + chr(c) + 'b"'))
            sink.add(pyjson_lines('loads', '"\\u%04x"' % c))
        for c in range(0xD800, 0xE000, 7):
            sink.add(pyjson_lines('loads', '"\\u%04x"' % c))
            sink.add(pyjson_lines('loads', '"\\u%04X\\u%04x"' % (c, 0xDC00 + (c * 37) % 0x400)))
        edge = [0xD7FF, 0xD800, 0xD801, 0xDBFE, 0xDBFF, 0xDC00, 0xDC01, 0xDFFE, 0xDFFF, 0xE000, 0x0041, 0xFFFF, 0x0000]
        for a in edge:
            for b in edge:
                sink.add(pyjson_lines('loads', '"\\u%04x\\u%04x"' % (a, b)))
                sink.add(pyjson_lines('loads', '"\\u%04x\\u%04X' % (a, b)))
                sink.add(pyjson_lines('loads', '["\\u%04x\\u%04x", 1.0]' % (a, b)))
                for c in (0xD800, 0xDC00, 0x41):
                    sink.add(pyjson_lines('loads', '"\\u%04x\\u%04x\\u%04x"' % (a, b, c)))
        # ---- escapes
        sink.tag = 'escapes'
        for c in range(0x80):
            sink.add(pyjson_lines('loads', '"\\' + chr(c) + '"'))
            sink.add(pyjson_lines('loads', '"\\' + chr(c)))
            sink.add(pyjson_lines('loads', '"x\\' + chr(c) + 'y"'))
        alpha = '09afAFgGxX+- _dD8cC'
        for _ in range(6000):
            h = ''.join(rng.choice(alpha) for _ in range(rng.choice([3, 4, 4, 4, 4, 5])))
            sink.add(pyjson_lines('loads', '"\\u' + h + '"'))
            h2 = ''.join(rng.choice(alpha) for _ in range(4))
            sink.add(pyjson_lines('loads', '"\\ud8' + h[:2] + '\\u' + h2 + '"'))
        # ---- random trees
        sink.tag = 'trees'
        for k in range(trees):
            v = _rval(rng, rng.choice([0, 1, 2, 3, 4, 6]))
            _value_round(sink, v, rng)
            if k % 3 == 0:
                _value_round(sink, _permuted(rng, v), rng)
        for d in (1, 2, 10, 50, 150, MAX_DEPTH - 1):
            v = w = []
            for i in range(d - 1):
                n = [] if i % 2 else {}
                if isinstance(w, list):
                    w.append(n)
                else:
                    w['k%d' % i] = n
                w = n
            _value_round(sink, v)
            _value_round(sink, {'a': v, 'A': v})
        for v in ([], {}, [[]], [{}], {'': {}}, {'': []}, [[], {}, [[]], {'a': {}}], '', [''], {'': ''}, 0, -0, [0], True, None,
                  {'a': 1, 'A': 2, 'b': 3, 'B': 4}, {'B': 4, 'b': 3, 'A': 2, 'a': 1}, {'é': 1, 'e': 2, 'z': 3, 'E': 4, '\U0001f600': 5,
                                                                                     '\uffff': 6, '': 7, 'ab': 8, 'a': 9},
                  {'b': {'z': 1, 'a': 2}, 'a': [{'y': 1, 'x': 2}]}, 10 ** 4000, -10 ** 4000, [2 ** 10000],
                  {'k' * 300: 'v' * 3000}, list(range(-50, 50)), {str(i): i for i in range(200, 0, -1)}):
            _value_round(sink, v)
        for v in (1.5, [1.0], {'a': float('nan')}, {1: 2}, {None: 1}, {'a': {2: 3}}, ['\ud800'], {'\udc00': 1}, (1, 2), {'a': (1,)}):
            sink.add(pyjson_lines('dumps', v))
            sink.add(pyjson_lines('dumpss', v))
            sink.add(pyjson_lines('cj', v))
            sink.add(pyjson_lines('dumpsf', (v, True, '', ' ', '', ' ')))
        # ---- whitespace variants and mutants of produced texts
        for tag, count in (('spaced', 4000), ('mutants', mutants)):
            sink.tag = tag
            for _ in range(count):
                v = _rval(rng, rng.choice([1, 2, 3, 4]))
                text = json.dumps(v, sort_keys=rng.random() < 0.2, ensure_ascii=rng.random() < 0.6)
                if tag == 'spaced':
                    text = _spaced(rng, text)
                    if rng.random() < 0.5:
                        text = rng.choice([' ', '\n', '\t\r', '']) + text + rng.choice([' ', '\n', '\t\r', ''])
                else:
                    for _ in range(rng.choice([1, 1, 2, 3])):
                        text = _mutate(rng, text)
                sink.add(pyjson_lines('loads', text))
        # ---- beyond the int/str guard, guard off
        sink.tag = 'hugeint'
        old = sys.get_int_max_str_digits()
        try:
            sys.set_int_max_str_digits(0)
            for v in (10 ** 4300, -10 ** 4300, 10 ** 5000 + 7, [-(10 ** 6000) + 1, {'a': 3 ** 12000}]):
                _value_round(sink, v)
            sink.add(pyjson_lines('loads', '[' + '9' * 7000 + ', -' + '1' * 4301 + ']'))
            sink.add(pyjson_lines('loads', '9' * 5000 + '.0'))
        finally:
            sys.set_int_max_str_digits(old)
    finally:
        sink.close()
    if verbose:
        for tag, t in sink.total.items():
            print(f'{tag}: {t}', file=sys.stderr)
        print(f'done: {sum(t["lines"] for t in sink.total.values())} lines, disagreements {len(sink.bad)}, '
              f'{time.time() - t0:.1f}s', file=sys.stderr, flush=True)
        for b in sink.bad[:25]:
            print('DISAGREE', tuple(x if len(x) < 300 else x[:300] + '...' for x in b), file=sys.stderr)
    return sink.bad


def _iter_keys(v):
    if isinstance(v, list):
        for x in v:
            yield from _iter_keys(x)
    elif isinstance(v, dict):
        for k, x in v.items():
            yield k
            yield from _iter_keys(x)


if __name__ == '__main__':
    sys.exit(1 if self_test(int(sys.argv[1]) if len(sys.argv) > 1 else 1) else 0)
