"""
C08 lane: matrix / networkx / GML / skeleton interchange and the lagged matrices; also the constructor clause of C02.

Model side: handler token `mx` (lean/CG/Driver/HConv.lean; the line formats are documented there).

Case kinds
  'mat'      a batch of binary n×n matrices (ALL of them for n <= 3 in the quick tier, n <= 4 in the thorough tier; the
             quick tier adds a sample of 4×4 / 5×5 matrices that contain a directed cycle avoiding row 0) through
             `from_adjacency_matrix` with validate on / off; plain class with ordinary names, and for n <= 3 both classes
             with time-series name lists (lagged names, in and out of time order) and with `node_names=None`
  'bad'      malformed input of every kind: non-square, 1-D, 3-D, entries 2 / -1 / 0.5, boolean and float dtype,
             fewer / more names than rows, duplicate names, int names, a name the time-series grammar rejects
  'export'   a batch of mixed graphs on <= 3 nodes (all 13^3 of them) through adjacency_matrix / to_numpy / to_networkx /
             to_gml_string: the refusal class, or the exported value
  'rt'       random graphs over a name pool with spaces, newlines, quotes, ampersands, non-ASCII, the empty string
             (and lagged names for the time-series class), isolated nodes included: to_numpy -> from_adjacency_matrix,
             to_networkx -> from_networkx, to_gml_string -> from_gml_string, from_skeleton, and from_networkx on
             hand-built networkx graphs (shuffled node order, int node names, cycles)
  'lag'      random time-series graphs: adjacency_matrices / to_numpy_by_lag of the implementation against the model
             applied to the implementation's own get_minimal_graph(); from_adjacency_matrices(.., construct_minimal=False)
  'lagin'    random / malformed dictionaries of lag matrices through from_adjacency_matrices(.., construct_minimal=False)

Oracle (implementation alone, computed in plain Python from `g.edges` / `g.nodes`): the entry law, round-trip equality
(same names, same directed edges, same unordered undirected pairs), "nothing converted with an edge dropped or
retyped", malformed input refused, every graph accepted with validation is acyclic and `is_dag()` is exact (brute
force), acyclic matrices are accepted.
"""
from __future__ import annotations

import hashlib
import itertools
import random

import networkx
import numpy

from harness import gen, histories, impl
from harness.lanes import c08_nxgml
from harness.core import LaneBase, hx, hxedges, hxlist
from harness.impl import CausalGraph, EdgeType, TimeSeriesCausalGraph
from harness.lanes.c05 import enc_graph, etext

ENTRY = {0: 0, 1: 1, 2: 2, 3: -1, 4: 0.5}            # digit in a case -> array entry (2, 3, 4: non-binary)
PLAIN_NAMES = ['a', 'b', 'c', 'd', 'e']
TS_NAME_LISTS = {
    1: [['X'], ['X lag(n=1)']],
    2: [['X', 'Y'], ['X lag(n=1)', 'X'], ['X', 'X lag(n=1)'], ['Y future(n=1)', 'X lag(n=2)']],
    3: [['X', 'Y', 'Z'], ['X lag(n=1)', 'X', 'Y'], ['Y', 'X lag(n=1)', 'X future(n=1)'], ['X lag(n=2)', 'Y lag(n=1)', 'X']],
}
POOL = ['a', 'b', 'c', 'x y', 'é', '变量', 'a\nb', '', '"q"', 'a&b', '&amp;', '0', '12', 'node_0', 'Z lag(n=1)',
        '\U0001f600', ' ', 'a ', '[', 'a"b', "a'b", 'a\\b', '\t', '&#38;', '()', '[]']
TS_POOL = [histories.ts_name(v, l) for v in ('X', 'Y', 'a b', '"q"&') for l in (-2, -1, 0, 1)]
KNOWN_GML_MANGLED = {'()', '[]'}      # networkx.parse_gml reads these two labels back as an empty tuple / list


# ----------------------------------------------------------------------------------------------------------
# texts
# ----------------------------------------------------------------------------------------------------------

def digit(x) -> str:
    if x == 0:
        return '0'
    if x == 1:
        return '1'
    return '2'


def rows_text(a) -> str:
    a = numpy.asarray(a)
    if a.shape[0] == 0:
        return '.'
    return ';'.join(''.join(digit(x) for x in row) for row in a.tolist())


def arr_text(a) -> str:
    a = numpy.asarray(a)
    if a.ndim == 1:
        return '1:' + ''.join(digit(x) for x in a.tolist())
    if a.ndim == 2:
        return '2:' + rows_text(a)
    return '3:x'


def names_text(names) -> str:
    return '~' if names is None else hxlist(str(n) for n in names)


def canon_edges(x):
    if x.is_directed():
        es = [(str(a), str(b)) for a, b in x.edges()]
    else:
        es = [tuple(sorted((str(a), str(b)))) for a, b in x.edges()]
    return sorted(set(es))


def nx_text(x) -> str:
    return ('d' if x.is_directed() else 'u') + ' ' + hxlist(str(n) for n in x.nodes()) + ' ' + hxedges(canon_edges(x))


def nx_raw_text(x) -> str:
    """as an argument: edges as networkx lists them"""
    return ('d' if x.is_directed() else 'u') + ' ' + hxlist(str(n) for n in x.nodes()) + ' ' + \
        hxedges((str(a), str(b)) for a, b in x.edges())


def lagdict_text(d) -> str:
    items = [f'{int(k)}={rows_text(v)}' for k, v in d.items()]
    return ','.join(items) if items else '.'


def attempt(f, fmt):
    try:
        v = f()
    except RecursionError:
        raise
    except Exception as e:  # noqa: BLE001
        return 'err ' + type(e).__name__, None
    return 'ok ' + fmt(v), v


# ----------------------------------------------------------------------------------------------------------
# brute-force reference (oracle side)
# ----------------------------------------------------------------------------------------------------------

def parts(g):
    """(names, directed pairs, unordered undirected pairs, other edges) read off g.nodes / g.edges"""
    names = [n.identifier for n in g.nodes]
    di, un, other = set(), set(), set()
    for e in g.edges:
        s, d, t = e.source.identifier, e.destination.identifier, etext(e.get_edge_type())
        if t == '->':
            di.add((s, d))
        elif t == '--':
            un.add(frozenset((s, d)))
        else:
            other.add((s, d, t))
    return names, di, un, other


def acyclic(pairs) -> bool:
    succ = {}
    for a, b in pairs:
        succ.setdefault(a, set()).add(b)
    for start in succ:
        seen, todo = set(), list(succ[start])
        while todo:
            x = todo.pop()
            if x == start:
                return False
            if x not in seen:
                seen.add(x)
                todo.extend(succ.get(x, ()))
    return True


def entry_law(a, names, g):
    """A[i,j] = 1 exactly when names[i] -> names[j] or an undirected edge joins them"""
    _, di, un, other = parts(g)
    bad = []
    if other:
        bad.append('matrix produced for a graph with an edge type other than -> / --')
    for i, x in enumerate(names):
        for j, y in enumerate(names):
            want = 1 if ((x, y) in di or (x != y and frozenset((x, y)) in un)) else 0
            if a[i][j] != want:
                bad.append(f'entry law fails at ({x!r},{y!r}): A={a[i][j]} expected {want}')
    return bad[:3]


def same_graph(g, h, what):
    """same names, same directed edges, same unordered undirected pairs, no other edges"""
    a, b = parts(g), parts(h)
    bad = []
    if sorted(a[0]) != sorted(b[0]):
        bad.append(f'{what}: node names differ {sorted(a[0])[:5]} vs {sorted(b[0])[:5]}')
    if a[1] != b[1]:
        bad.append(f'{what}: directed edges differ {sorted(a[1])[:4]} vs {sorted(b[1])[:4]}')
    if a[2] != b[2]:
        bad.append(f'{what}: undirected pairs differ')
    if b[3]:
        bad.append(f'{what}: result holds an edge of another type')
    return bad


def dag_report(h, validate, what):
    """C02, constructor clause: accepted with validation => acyclic; is_dag() exact in every case"""
    _, di, un, other = parts(h)
    bad = []
    ac = acyclic(di)
    if validate and not ac:
        bad.append(f'{what}: accepted with validation although the directed edges contain a cycle')
    want = ac and not un and not other
    try:
        if h.is_dag() != want:
            bad.append(f'{what}: is_dag() = {h.is_dag()} but fully-directed-and-acyclic = {want}')
    except Exception as e:  # noqa: BLE001
        bad.append(f'{what}: is_dag() raised {type(e).__name__}')
    return bad


def lag_of(name):
    from cai_causal_graph.utils import get_variable_name_and_lag
    return get_variable_name_and_lag(name)[1]


def matrix_expectation(a, names, cls):
    """what the scan should build from a square binary matrix: (directed pairs, undirected pairs) or 'ValueError'"""
    n = len(names)
    di, un = set(), set()
    for i in range(n):
        for j in range(i + 1, n):
            x, y = a[i][j] != 0, a[j][i] != 0
            if x and y:
                un.add(frozenset((names[i], names[j])))
            elif x:
                di.add((names[i], names[j]))
            elif y:
                di.add((names[j], names[i]))
    if cls == 'ts' and any(lag_of(s) > lag_of(d) for s, d in di):
        return 'ValueError'
    return di, un


# ----------------------------------------------------------------------------------------------------------
# case generators
# ----------------------------------------------------------------------------------------------------------

def mask_matrix(n, mask):
    return [[(mask >> (i * n + j)) & 1 for j in range(n)] for i in range(n)]


def cyclic_off_row0(rng, n):
    """a binary matrix whose directed part has a cycle that does not touch node 0"""
    a = [[0] * n for _ in range(n)]
    k = rng.randint(3, n - 1)
    cyc = rng.sample(range(1, n), k)
    for x, y in zip(cyc, cyc[1:] + cyc[:1]):
        a[x][y] = 1
    for i in range(n):
        for j in range(n):
            if a[i][j] == 0 and a[j][i] == 0 and rng.random() < 0.15:
                a[i][j] = 1
    if rng.random() < 0.5:      # node 0 isolated or a pure source
        for j in range(n):
            a[j][0] = 0
    return a


def batches(xs, k):
    xs = list(xs)
    for i in range(0, len(xs), k):
        yield xs[i:i + k]


def mat_cases(tier, rng):
    top = 4 if tier == 'thorough' else 3
    for n in range(0, top + 1):
        masks = range(1 << (n * n))
        for b in batches(masks, 96):
            yield {'kind': 'mat', 'cls': 'plain', 'n': n, 'masks': b, 'names': PLAIN_NAMES[:n]}
        if n <= 3:
            for b in batches(masks, 96):
                yield {'kind': 'mat', 'cls': 'plain', 'n': n, 'masks': b, 'names': None}
                yield {'kind': 'mat', 'cls': 'ts', 'n': n, 'masks': b, 'names': None}
                for nl in TS_NAME_LISTS.get(n, [[]]):
                    yield {'kind': 'mat', 'cls': 'ts', 'n': n, 'masks': b, 'names': nl}
    # cycles that avoid row 0 (also in the quick tier, where n <= 3 cannot hold one)
    k = 1500 if tier == 'thorough' else 400
    ms = [cyclic_off_row0(rng, rng.choice([4, 4, 5])) for _ in range(k)]
    for b in batches(ms, 50):
        yield {'kind': 'mat', 'cls': 'plain', 'n': None, 'mats': b, 'names': 'auto'}
    ms = [[[1 if rng.random() < 0.3 else 0 for _ in range(4)] for _ in range(4)] for _ in range(k)]
    for b in batches(ms, 50):
        yield {'kind': 'mat', 'cls': 'plain', 'n': None, 'mats': b, 'names': 'auto'}


def bad_cases(tier, rng):
    out = []
    for cls in ('plain', 'ts'):
        nm = (lambda k: PLAIN_NAMES[:k]) if cls == 'plain' else (lambda k: ['X lag(n=1)', 'X', 'Y', 'Z', 'W'][:k])
        # non-square, 1-D, 3-D
        for shape in ((2, 3), (3, 2), (1, 2), (2, 1), (1, 3)):
            for fill in (0, 1):
                out.append({'arr': [[fill] * shape[1] for _ in range(shape[0])], 'names': nm(shape[0]), 'why': 'non-square'})
                out.append({'arr': [[fill] * shape[1] for _ in range(shape[0])], 'names': None, 'why': 'non-square'})
                out.append({'arr': [[fill] * shape[1] for _ in range(shape[0])], 'names': nm(shape[1]), 'why': 'non-square'})
        for k in (0, 1, 2, 4):
            out.append({'arr': [1] * k, 'names': nm(k), 'why': '1-D'})
            out.append({'arr': [0] * k, 'names': None, 'why': '1-D'})
        out.append({'arr': [[[0, 1], [0, 0]], [[0, 0], [0, 0]]], 'names': nm(2), 'why': '3-D'})
        out.append({'arr': [[[0]]], 'names': None, 'why': '3-D'})
        # non-binary entries, every position of a 2x2 and some 3x3
        for v in (2, 3, 4):
            for pos in range(4):
                a = [[0, 1], [0, 0]]
                a[pos // 2][pos % 2] = v
                out.append({'arr': a, 'names': nm(2), 'why': 'non-binary'})
            a = [[0, 1, 0], [0, 0, 1], [0, 0, 0]]
            a[2][0] = v
            out.append({'arr': a, 'names': None, 'why': 'non-binary'})
            out.append({'arr': [[v]], 'names': nm(1), 'why': 'non-binary'})
        # dtypes that ARE binary
        out.append({'arr': [[0, 1], [0, 0]], 'names': nm(2), 'dtype': 'bool', 'why': 'ok-bool'})
        out.append({'arr': [[0, 1, 1], [0, 0, 1], [0, 0, 0]], 'names': None, 'dtype': 'bool', 'why': 'ok-bool'})
        out.append({'arr': [[0, 1], [1, 0]], 'names': nm(2), 'dtype': 'float', 'why': 'ok-float'})
        # name count
        for k, a in ((2, [[0, 1], [0, 0]]), (3, [[0, 1, 0], [0, 0, 1], [0, 0, 0]]), (1, [[0]]), (0, [])):
            for delta in (-1, 1, 2):
                if k + delta >= 0:
                    out.append({'arr': a, 'names': nm(5)[:k + delta] if k + delta <= 5 else None, 'why': 'name-count'})
        # duplicate names, int names, rejected names
        out.append({'arr': [[0, 1], [0, 0]], 'names': [nm(1)[0], nm(1)[0]], 'why': 'dup-names'})
        out.append({'arr': [[0, 1, 0], [0, 0, 0], [0, 0, 0]], 'names': [nm(2)[1], nm(2)[0], nm(2)[1]], 'why': 'dup-names'})
        out.append({'arr': [[0, 1], [0, 0]], 'names': [0, 1], 'why': 'int-names'})
        out.append({'arr': [[0, 1, 1], [0, 0, 0], [0, 0, 0]], 'names': [7, 'x', 3], 'why': 'int-names'})
        out.append({'arr': [[0, 1], [0, 0]], 'names': [1, '1'], 'why': 'dup-names'})
        out.append({'arr': [[0, 1], [0, 0]], 'names': ['X lag(n=1) lag(n=2)', 'Y'], 'why': 'odd-names'})
        out.append({'arr': [[0, 1], [0, 0]], 'names': ['', 'Y'], 'why': 'odd-names'})
        out.append({'arr': [[0, 1], [1, 0]], 'names': ['X', 'X lag(n=0)'], 'why': 'odd-names'})
        for c in out:
            c.setdefault('cls', cls)
    for b in batches(out, 20):
        yield {'kind': 'bad', 'items': b}


def export_cases(tier, rng):
    for cls, names in (('plain', ['a', 'b', 'c']), ('ts', ['X lag(n=1)', 'X', 'Y'])):
        for n in (0, 1, 2, 3):
            for b in batches(gen.all_mixed_graphs(n), 60):
                yield {'kind': 'export', 'cls': cls, 'names': names[:n], 'graphs': [list(map(list, es)) for es in b]}


def random_graph_ops(rng, cls, flavour):
    """operation list for a random graph; flavour: 'du' (-> and --), 'd', 'u', 'any'"""
    pool = TS_POOL if cls == 'ts' else POOL
    names = rng.sample(pool, rng.randint(0, min(6, len(pool))))
    ops = [['add_node', n, 'unspecified', {}] for n in names]
    pairs = [(a, b) for i, a in enumerate(names) for b in names[i + 1:]]
    dense = rng.random()
    validate = rng.random() < 0.8
    for a, b in pairs:
        if rng.random() < dense:
            s, d = (a, b) if rng.random() < 0.5 else (b, a)
            t = {'du': rng.choice(['->', '->', '--']), 'd': '->', 'u': '--',
                 'any': rng.choice(['->', '->', '--', '--', '<>', 'oo', 'o>', 'o-'])}[flavour]
            ops.append(['add_edge', s, d, t, {}, validate])
    rng.shuffle(ops)
    # a tail of edits that keep the node names and (mostly) the number of edges: an edge moved to another pair, deleted
    # and re-added elsewhere, retyped -- what a cache keyed too weakly would not notice
    added = [o for o in ops if o[0] == 'add_edge']
    for _ in range(rng.choice([0, 0, 1, 2, 3])):
        if not added or len(names) < 3:
            break
        _, s, d, t, _, _ = rng.choice(added)
        a, b = rng.sample(names, 2)
        kind = rng.choice(['replace', 'retarget', 'retype'])
        if kind == 'replace':
            ops.append(['replace_edge', s, d, a, b, None, None])
        elif kind == 'retarget':
            ops += [['delete_edge', s, d, None], ['add_edge', a, b, t, {}, validate]]
        else:
            other = {'du': '--' if t == '->' else '->', 'd': '->', 'u': '--',
                     'any': rng.choice(['->', '--', '<>', 'oo', 'o>', 'o-'])}[flavour]
            ops.append(['change_edge_type', s, d, other])
    return ops


def rt_cases(tier, rng):
    n = 6000 if tier == 'thorough' else 900
    for _ in range(n):
        cls = 'ts' if rng.random() < 0.4 else 'plain'
        yield {'kind': 'rt', 'cls': cls, 'ops': random_graph_ops(rng, cls, rng.choice(['du', 'du', 'd', 'u', 'any'])),
               'seed': rng.randrange(1 << 30)}


def lag_cases(tier, rng):
    n = 4000 if tier == 'thorough' else 500
    for _ in range(n):
        if rng.random() < 0.35:
            g = histories.Gen(rng, 'ts')
            ops = g.history(rng.randint(2, 14))
        else:
            names = rng.sample(TS_POOL[:12], rng.randint(2, 7))
            ops = []
            for i, a in enumerate(names):
                for b in names[i + 1:]:
                    if rng.random() < 0.35:
                        s, d = (a, b) if rng.random() < 0.5 else (b, a)
                        t = rng.choice(['->', '->', '->', '--', '--', 'o>'] if rng.random() < 0.2 else ['->', '->', '->', '--'])
                        ops.append(['add_edge', s, d, t, {}, rng.random() < 0.85])
            if rng.random() < 0.3:
                ops.append(['add_node', rng.choice(TS_POOL), 'unspecified', {}])
        yield {'kind': 'lag', 'cls': 'ts', 'ops': ops}
    for _ in range(n):
        V = rng.choice([1, 2, 2, 3])
        shape = (V, V) if rng.random() < 0.9 else rng.choice([(V, V + 1), (V + 1, V)])
        keys = rng.sample([-3, -2, -1, 0, 1], rng.randint(0, 3))
        mats = []
        for k in keys:
            sh = shape if rng.random() < 0.95 else (shape[0] + 1, shape[1] + 1)
            p = rng.choice([0.15, 0.3, 0.6])
            mats.append([k, [[(1 if rng.random() < 0.97 else rng.choice([2, 3, 4])) if rng.random() < p else 0
                              for _ in range(sh[1])] for _ in range(sh[0])]])
        r = rng.random()
        if r < 0.5:
            names = ['X', 'Y', 'Z', 'W'][:shape[0]]
        elif r < 0.6:
            names = None
        elif r < 0.7:
            names = ['X', 'Y', 'Z', 'W'][:shape[0] + rng.choice([-1, 1])]
        elif r < 0.8:
            names = [rng.choice(['X', 'X lag(n=1)', 'Y future(n=2)', 'a b', '"q"&']) for _ in range(shape[0])]
        elif r < 0.9:
            names = [rng.choice(['X', 'Y', 'Q lag(n=1) lag(n=2)', '', 5]) for _ in range(shape[0])]
        else:
            names = list(range(shape[0]))
        yield {'kind': 'lagin', 'mats': mats, 'names': names, 'validate': rng.random() < 0.6}


# ----------------------------------------------------------------------------------------------------------
# the lane
# ----------------------------------------------------------------------------------------------------------

class Lane(LaneBase):
    PROP = 'C08'
    THEOREMS = 'auto'
    AUDIT = 'CG/Audit/C08.lean'
    EXHAUSTIVE = {'quick': True, 'thorough': True}
    RULE = ('every binary matrix up to 3x3 (quick) / 4x4 (thorough) with validation on and off, both classes up to 3x3, '
            'plus sampled 4x4 / 5x5 matrices with a directed cycle avoiding row 0; every mixed graph on <= 3 nodes through '
            'every exporter; malformed arrays of every kind; random graphs over a name pool with spaces, newlines, quotes, '
            'ampersands, non-ASCII and the empty string through every round trip; random time-series graphs and random lag '
            'dictionaries through the lagged-matrix API. Non-trivial: the input holds at least one edge / non-zero entry, '
            'or is a malformed input; distinct by the hash of the protocol lines.')
    TRUSTED = ['networkx.to_numpy_array: node order = g.nodes(), entry 1 per edge, both entries for an undirected edge '
               '(measured on every networkx value the lane sees: `mx nx_numpy`)',
               'networkx.generate_gml / parse_gml: transcribed and PROVED mutually inverse on node labels and edges, node and '
               'edge order included (CG.C08Gml, 17 audited theorems; the labels "()" and "[]" are exactly the ones read back '
               'as an empty tuple / refused); trusted: that the transcribed lines are what networkx 3.2.1 runs (the text the '
               'code hands out and what parse_gml reads in it are compared with the transcription on every export)',
               'numpy: shape, array_equal(a, a.astype(bool)), indexing, numpy.where',
               'str(int) for integer node names; edge weights other than 1 in a networkx graph are outside the model',
               'get_minimal_graph() itself is modelled elsewhere (CG/Model/TS.lean): here the lagged matrices are compared '
               'on the implementation\'s own minimal graph and from_adjacency_matrices is compared with construct_minimal=False']
    PARTIAL = ['CG.C08.fromAdjMatrices_toNumpyByLag_statement (C08Lagged.lean, written before the block-matrix layer existed) '
               'stays a `def … : Prop` and is NOT claimed: its name hypothesis (`parse var = (var, 0)`) is weaker than the C12 '
               'domain and the statement is false for a variable such as \'a lag(n=1)x\' next to a lagged edge (re-lagging it '
               'gives a name the node constructor rejects: ValueError in implementation and model alike). It is superseded by '
               'the proved CG.C08.fromAdjMatrices_toNumpyByLag_full (same conclusion plus node set and the refusal of a '
               'cyclic minimal graph, hypothesis = canonical names) and CG.C08.fromAdjMatrices_toNumpyByLag (the property '
               'clause: import with minimisation equals the minimal graph)',
               'lagged round trip: the theorems conclude LagImage (same node identifiers, same directed edges, same '
               'unordered undirected pairs, fresh attributes, nothing else) and graphEq false = library == both ways; variable '
               'types / metadata of the minimal graph and the stored orientation of `--` are not carried by the matrices. '
               'Domain = canonical names (C12 domain), consistent templates, only -> / --, undirected edges contemporaneous, '
               '>= 1 edge; outside it only correspondence (`lag from_min`, `lag rt`) is checked',
               'GML: fromGml_toGml is the round trip on the abstract networkx value; the TEXT layer is a separate, full result: '
               'generate_gml / parse_gml / escape / unescape are transcribed (CG.NxGml) and parse (generate G) = G is proved for '
               'every (di)graph with duplicate-free string labels other than `[]` (`()` comes back as the empty tuple; '
               'CG.C08Gml.parse_generate, survives_iff: exactly these two labels do not survive) -- a node named `()` or `[]` '
               'therefore cannot make the library round trip (observation, with networkx as the cause)',
               'round-trip theorems (fromAdj_toNumpy, fromNetworkx_toNetworkx, …) conclude MatrixImage: same names, same '
               'directed edges, same unordered undirected pairs, nothing else; variable types, metadata and the stored '
               'orientation of undirected edges are not carried by a matrix (stated in the structure)']

    def cases(self, tier, rng):
        yield from mat_cases(tier, rng)
        yield from bad_cases(tier, rng)
        yield from export_cases(tier, rng)
        yield from rt_cases(tier, rng)
        yield from lag_cases(tier, rng)

    def run_case(self, case):
        r = getattr(self, 'run_' + case['kind'])(case)
        r.setdefault('key', hashlib.sha1('\n'.join(r['lines']).encode()).hexdigest())
        r['tags'] = sorted(set(r.get('tags', [])))
        return r

    # -- from_adjacency_matrix over matrices --------------------------------------------------------------
    def run_mat(self, case):
        cls = case['cls']
        Cls = TimeSeriesCausalGraph if cls == 'ts' else CausalGraph
        lines, out, oracle, tags = [], [], [], set()
        mats = case.get('mats') or [mask_matrix(case['n'], m) for m in case['masks']]
        nontrivial = False
        for a in mats:
            n = len(a)
            names = case['names']
            if names == 'auto':
                names = PLAIN_NAMES[:n]
            eff = names if names is not None else [f'node_{i}' for i in range(n)]
            arr = numpy.array(a, dtype=int).reshape(n, n)
            exp = matrix_expectation(a, eff, cls)
            nontrivial = nontrivial or any(any(r) for r in a)
            for v in (0, 1):
                r, h = attempt(lambda: Cls.from_adjacency_matrix(arr, None if names is None else list(names), validate=bool(v)),
                               enc_graph)
                lines.append(f'mx from_adj {cls} {v} {arr_text(arr)} {names_text(names)}')
                out.append(r)
                tags.add(f'{cls}:n={n}:' + ('ok' if h is not None else r[4:]))
                # oracle
                if exp == 'ValueError':
                    if r != 'err ValueError':
                        oracle.append(f'matrix with a directed entry against time: {r} (names {eff})')
                    continue
                di, un = exp
                cyc = not acyclic(di)
                if h is None:
                    if not (v and cyc and r == 'err CyclicConnectionError'):
                        oracle.append(f'from_adjacency_matrix({a}, validate={bool(v)}) raised {r[4:]}; directed part '
                                      f'{"cyclic" if cyc else "acyclic"}')
                    continue
                if v and cyc:
                    oracle.append(f'from_adjacency_matrix({a}) accepted a directed cycle with validation on')
                hn, hdi, hun, hother = parts(h)
                if sorted(hn) != sorted(eff) or hdi != di or hun != un or hother:
                    oracle.append(f'from_adjacency_matrix({a}): edges {sorted(hdi)} / {sorted(map(sorted, hun))} expected '
                                  f'{sorted(di)} / {sorted(map(sorted, un))}')
                oracle += dag_report(h, v, f'from_adjacency_matrix({a})')
        return {'lines': lines, 'impl': out, 'oracle': oracle[:5], 'nontrivial': nontrivial, 'tags': tags}

    # -- malformed input -----------------------------------------------------------------------------------
    def run_bad(self, case):
        lines, out, oracle, tags = [], [], [], set()
        for it in case['items']:
            cls = it['cls']
            Cls = TimeSeriesCausalGraph if cls == 'ts' else CausalGraph
            raw = it['arr']
            dt = it.get('dtype')
            if dt == 'bool':
                arr = numpy.array(raw, dtype=bool)
            elif dt == 'float':
                arr = numpy.array(raw, dtype=float)
            else:
                def conv(x):
                    return [conv(y) for y in x] if isinstance(x, list) else ENTRY[x]
                arr = numpy.array(conv(raw))
                if raw == [] and it['why'] != '1-D':
                    arr = arr.reshape(0, 0)
            names = it['names']
            for v in (0, 1):
                r, h = attempt(lambda: Cls.from_adjacency_matrix(arr, None if names is None else list(names), validate=bool(v)),
                               enc_graph)
                lines.append(f'mx from_adj {cls} {v} {arr_text(arr)} {names_text(names)}')
                out.append(r)
                tags.add(it['why'] + ':' + ('ok' if h is not None else r[4:]))
                why = it['why']
                if why in ('non-square', '1-D', '3-D', 'non-binary') and r != 'err InvalidAdjacencyMatrixError':
                    oracle.append(f'{why} array {raw} with names {names}: {r[:60]}')
                if why == 'name-count' and h is not None:
                    oracle.append(f'{len(names) if names is not None else None} names for a {arr.shape} matrix accepted')
                if why == 'dup-names' and h is not None:
                    oracle.append(f'duplicate names {names} accepted')
                if why.startswith('ok-') and h is None:
                    oracle.append(f'binary {dt} matrix refused: {r}')
        return {'lines': lines, 'impl': out, 'oracle': oracle[:5], 'nontrivial': True, 'tags': tags}

    # -- exporters on all small mixed graphs ---------------------------------------------------------------
    def run_export(self, case):
        cls = case['cls']
        names = case['names']
        lines, out, oracle, tags = [], [], [], set()
        for es in case['graphs']:
            g = impl.new_graph(cls)
            for x in names:
                g.add_node(x)
            try:
                for i, j, t in es:
                    g.add_edge(names[i], names[j], edge_type=EdgeType(t), validate=False)
            except ValueError:
                continue                      # time-series class: directed edge against time cannot be built
            self.export_checks(g, lines, out, oracle, tags)
        return {'lines': lines, 'impl': out, 'oracle': oracle[:5], 'nontrivial': True, 'tags': tags}

    def export_checks(self, g, lines, out, oracle, tags, gml=True):
        tok = enc_graph(g)
        names, di, un, other = parts(g)
        # adjacency_matrix / to_numpy
        r, a = attempt(lambda: g.adjacency_matrix, rows_text)
        lines.append(f'mx adjacency {tok}')
        out.append(r)
        r, res = attempt(lambda: g.to_numpy(), lambda p: rows_text(p[0]) + ' ' + hxlist(p[1]))
        lines.append(f'mx to_numpy {tok}')
        out.append(r)
        tags.add('to_numpy:' + ('ok' if res is not None else r[4:]))
        if other and res is not None:
            oracle.append('to_numpy converted a graph holding an edge type other than -> / --')
        if not other and res is None:
            oracle.append(f'to_numpy refused a graph made of -> and -- only: {r}')
        if res is not None:
            if list(res[1]) != sorted(names):
                oracle.append('to_numpy: returned names are not the sorted node names')
            oracle += entry_law(res[0].tolist(), list(res[1]), g)
        # to_networkx
        r, x = attempt(lambda: g.to_networkx(), nx_text)
        lines.append(f'mx to_networkx {tok}')
        out.append(r)
        tags.add('to_networkx:' + ('ok' if x is not None else r[4:]))
        representable = not other and (not di or not un)
        if x is not None:
            if not representable:
                oracle.append('to_networkx converted a graph that is neither fully directed nor fully undirected')
            oracle += self.nx_faithful(g, x, 'to_networkx')
            lines.append(f'mx nx_numpy {nx_raw_text(x)}')
            out.append(rows_text(networkx.to_numpy_array(x)))
        elif representable or r != 'err GraphConversionError':
            oracle.append(f'to_networkx refused / failed oddly: {r} (representable={representable})')
        # to_gml_string
        if gml:
            try:
                txt = g.to_gml_string()
                r = 'ok'
            except Exception as e:  # noqa: BLE001
                txt, r = None, 'err ' + type(e).__name__
            if txt is not None:
                # the TEXT the code hands out against the transcription of networkx.generate_gml (CG.NxGml, proved to be read
                # back by the transcription of parse_gml: CG.C08Gml.parse_generate) run on the code's own export, and what
                # the real parse_gml reads in it against the transcription of parse_gml
                try:
                    nxg = g.to_networkx()
                    gl = c08_nxgml.nxgml_lines('gen', nxg.is_directed(), [str(n) for n in nxg.nodes],
                                               [(str(a), str(b)) for a, b in nxg.edges])
                    lines.append(gl[0][0])
                    out.append(hx(txt))
                    for ln, exp in c08_nxgml.nxgml_lines('parse', txt):
                        lines.append(ln)
                        out.append(exp)
                    tags.add('gml-text-tied')
                except ValueError:
                    pass
                if set(names) & KNOWN_GML_MANGLED:
                    tags.add('gml:excluded-name')
                    return x
                y = networkx.parse_gml(txt)
                r = 'ok ' + nx_text(y)
                if not representable:
                    oracle.append('to_gml_string converted a graph that is neither fully directed nor fully undirected')
                oracle += self.nx_faithful(g, y, 'to_gml_string')
            elif representable or r != 'err GraphConversionError':
                oracle.append(f'to_gml_string refused / failed oddly: {r} (representable={representable})')
            lines.append(f'mx to_gml {tok}')
            out.append(r)
            tags.add('to_gml:' + r.split(' ')[0] + (r[3:] if txt is None else ''))
        return x

    def nx_faithful(self, g, x, what):
        names, di, un, other = parts(g)
        bad = []
        if [str(n) for n in x.nodes()] != sorted(names) and sorted(str(n) for n in x.nodes()) != sorted(names):
            bad.append(f'{what}: node set differs (isolated node lost?)')
        if x.is_directed():
            if un or other or {(str(a), str(b)) for a, b in x.edges()} != di:
                bad.append(f'{what}: DiGraph edges are not exactly the directed edges')
        else:
            if di or other or {frozenset((str(a), str(b))) for a, b in x.edges()} != un:
                bad.append(f'{what}: Graph edges are not exactly the undirected pairs')
        return bad

    # -- round trips ---------------------------------------------------------------------------------------
    def run_rt(self, case):
        cls = case['cls']
        Cls = TimeSeriesCausalGraph if cls == 'ts' else CausalGraph
        rng = random.Random(case['seed'])
        g = impl.new_graph(cls)
        for op in case['ops']:
            impl.apply_op(g, op)
            if case['seed'] % 2:
                # every cached export is queried between the calls: a later export must still be the current state
                histories.warm_caches(g)
                for f in (g.to_numpy, g.to_gml_string, lambda: g.skeleton.to_numpy()):
                    try:
                        f()
                    except Exception:  # noqa: BLE001
                        pass
        lines, out, oracle, tags = [], [], [], set()
        from harness import gen as _gen0
        _gen0.query_noise(g, ('c08-rt', case['seed']))      # read-only look-ups, some about names that are not nodes
        if case['seed'] % 3 == 0:
            # every export is taken and vandalised twice (first from whatever the caches hold, then from warm caches): the
            # exports used for the round trips below must still describe the graph
            from harness import gen as _gen
            _gen.export_abuse(g)
            _gen.export_abuse(g)
            tags.add('exports-vandalised-first')
        names, di, un, other = parts(g)
        cyc = not acyclic(di)
        x = self.export_checks(g, lines, out, oracle, tags)
        tok = enc_graph(g)
        for v in (0, 1):
            # matrix round trip
            if not other:
                a, nm = g.to_numpy()
                r, h = attempt(lambda: Cls.from_adjacency_matrix(a, nm, validate=bool(v)), enc_graph)
                lines.append(f'mx from_adj {cls} {v} {arr_text(a)} {names_text(nm)}')
                out.append(r)
                oracle += self.rt_oracle(g, h, r, v, cyc, 'from_adjacency_matrix(*to_numpy())')
            # networkx round trip
            if x is not None:
                r, h = attempt(lambda: Cls.from_networkx(x, validate=bool(v)), enc_graph)
                lines.append(f'mx from_nx {cls} {v} {nx_raw_text(x)}')
                out.append(r)
                oracle += self.rt_oracle(g, h, r, v, cyc, 'from_networkx(to_networkx())')
                # GML round trip (the text layer is networkx's; the parsed value goes to the model)
                txt = None
                if not (set(names) & KNOWN_GML_MANGLED):
                    try:
                        txt = g.to_gml_string()
                    except Exception as e:  # noqa: BLE001
                        oracle.append(f'to_gml_string raised {type(e).__name__} on a graph that to_networkx converts')
                if txt is not None:
                    y = networkx.parse_gml(txt)
                    if nx_text(y) != nx_text(x) or [str(n) for n in y.nodes()] != [str(n) for n in x.nodes()]:
                        oracle.append(f'GML text layer is not faithful on names {names}')
                    r, h = attempt(lambda: Cls.from_gml_string(txt, validate=bool(v)), enc_graph)
                    lines.append(f'mx from_nx {cls} {v} {nx_raw_text(y)}')
                    out.append(r)
                    oracle += self.rt_oracle(g, h, r, v, cyc, 'from_gml_string(to_gml_string())')
            # skeleton
            try:
                sa, snm = g.skeleton.to_numpy()
                adjp = {frozenset((e.source.identifier, e.destination.identifier)) for e in g.edges}
                if list(snm) != sorted(names) or any(
                        int(sa[i][j]) != (1 if frozenset((a, b)) in adjp and a != b else 0)
                        for i, a in enumerate(snm) for j, b in enumerate(snm)):
                    oracle.append('skeleton.to_numpy(): A[i,j] = 1 is not exactly "adjacent in the graph" under the returned names')
            except Exception as e:  # noqa: BLE001
                oracle.append(f'skeleton.to_numpy() raised {type(e).__name__}')
            r, h = attempt(lambda: Cls.from_skeleton(g.skeleton, validate=bool(v)), enc_graph)
            lines.append(f'mx from_skel {cls} {v} {tok}')
            out.append(r)
            if h is None:
                oracle.append(f'from_skeleton raised {r[4:]}')
            else:
                hn, hdi, hun, hother = parts(h)
                allpairs = {frozenset((e.source.identifier, e.destination.identifier)) for e in g.edges}
                if sorted(hn) != sorted(names) or hdi or hother or hun != allpairs:
                    oracle.append('from_skeleton: result is not the undirected image of the graph')
        # hand-built networkx graphs: shuffled node order, int names, cycles, isolated nodes
        k = rng.randint(0, 5)
        labels = rng.sample([0, 1, 2, 3, 'a', 'b', 'x y', 'é', ''] if cls == 'plain' else [0, 1, 'X', 'Y', 'X lag(n=1)', 'Y lag(n=2)'], k)
        directed = rng.random() < 0.6
        y = (networkx.DiGraph if directed else networkx.Graph)()
        y.add_nodes_from(labels)
        for a in labels:
            for b in labels:
                if a != b and rng.random() < 0.3:
                    y.add_edge(a, b)
        lines.append(f'mx nx_numpy {nx_raw_text(y)}')
        out.append(rows_text(networkx.to_numpy_array(y)))
        for v in (0, 1):
            r, h = attempt(lambda: Cls.from_networkx(y, validate=bool(v)), enc_graph)
            lines.append(f'mx from_nx {cls} {v} {nx_raw_text(y)}')
            out.append(r)
            tags.add('from_nx:' + ('ok' if h is not None else r[4:]))
            if h is not None:
                oracle += dag_report(h, v, 'from_networkx(hand-built)')
                hn, hdi, hun, hother = parts(h)
                if sorted(hn) != sorted(str(n) for n in y.nodes()):
                    oracle.append('from_networkx: node set differs (isolated node lost?)')
                if directed:
                    sym = {frozenset((str(a), str(b))) for a, b in y.edges() if y.has_edge(b, a)}
                    one = {(str(a), str(b)) for a, b in y.edges() if not y.has_edge(b, a)}
                    if hdi != one or hun != sym or hother:
                        oracle.append('from_networkx(DiGraph): edges are not the one-way arcs + symmetric pairs')
                elif hdi or hother or hun != {frozenset((str(a), str(b))) for a, b in y.edges()}:
                    oracle.append('from_networkx(Graph): edges are not the undirected pairs')
            elif cls == 'plain':
                one = {(str(a), str(b)) for a, b in y.edges() if not y.has_edge(b, a)} if directed else set()
                if not (v and not acyclic(one) and r == 'err CyclicConnectionError'):
                    oracle.append(f'from_networkx(hand-built) raised {r[4:]}')
        nontrivial = bool(g.edges)
        return {'lines': lines, 'impl': out, 'oracle': oracle[:5], 'nontrivial': nontrivial, 'tags': tags | {cls}}

    def rt_oracle(self, g, h, r, v, cyc, what):
        if h is None:
            if v and cyc and r == 'err CyclicConnectionError':
                return []
            return [f'{what} raised {r[4:]} (validate={bool(v)}, cyclic={cyc})']
        bad = same_graph(g, h, what)
        if v and cyc:
            bad.append(f'{what}: validated import accepted a directed cycle')
        try:
            if not (h == g and g == h):
                bad.append(f'{what}: result != original (library ==)')
        except Exception as e:  # noqa: BLE001
            bad.append(f'{what}: == raised {type(e).__name__}')
        bad += dag_report(h, v, what)
        return bad

    # -- lagged matrices -----------------------------------------------------------------------------------
    def run_lag(self, case):
        g = impl.new_graph('ts')
        for op in case['ops']:
            impl.apply_op(g, op)
        res = self._lag_graph(g)
        # a DAG whose MINIMAL graph is cyclic (DESIGN C16), derived from the variables of the case: a ring over k >= 3 of
        # them, edge i placed alone in its own time slice; to_numpy_by_lag() describes the cyclic minimal graph, so the
        # validated re-import must be refused (C02) and the unvalidated one must re-create the ring at lag 0
        vs = sorted({n.variable_name for n in g.nodes})
        if len(vs) >= 3:
            k = 3 + len(case['ops']) % (len(vs) - 2)
            g2 = impl.new_graph('ts')
            try:
                for i in range(k):
                    lag = -(k - 1 - i)
                    g2.add_edge(histories.ts_name(vs[i], lag), histories.ts_name(vs[(i + 1) % k], lag))
                if len(case['ops']) % 2:        # plus a lagged chord and a floating variable at a lag
                    g2.add_edge(histories.ts_name(vs[0], -k), histories.ts_name(vs[1], -1))
                    if len(vs) > k:
                        g2.add_node(histories.ts_name(vs[k], -2))
            except Exception:  # noqa: BLE001 - a variable name the grammar cannot re-lag: no ring for this case
                g2 = None
            if g2 is not None:
                res2 = self._lag_graph(g2)
                res = {'lines': res['lines'] + res2['lines'], 'impl': res['impl'] + res2['impl'],
                       'oracle': (res['oracle'] + ['ring: ' + x for x in res2['oracle']])[:5],
                       'nontrivial': res['nontrivial'] or res2['nontrivial'],
                       'tags': set(res['tags']) | {'ring:' + t for t in res2['tags']}}
        return res

    def _lag_graph(self, g):
        lines, out, oracle, tags = [], [], [], set()
        try:
            m = g.get_minimal_graph()
        except Exception as e:  # noqa: BLE001 - inconsistent templates: no minimal graph (see DESIGN section 7)
            return {'lines': [], 'impl': [], 'oracle': [], 'nontrivial': False, 'tags': {'minimal:' + type(e).__name__}}
        tokm = enc_graph(m)
        fmt = lambda p: lagdict_text(p[0]) + ' ' + hxlist(p[1])     # noqa: E731
        r, res = attempt(lambda: g.to_numpy_by_lag(), fmt)
        lines.append(f'mx lagged {tokm}')
        out.append(r)
        tags.add('lagged:' + ('ok' if res is not None else r[4:]))
        names, di, un, other = parts(m)
        if other and res is not None:
            oracle.append('to_numpy_by_lag converted a minimal graph holding an edge type other than -> / --')
        if not other and res is None:
            oracle.append(f'to_numpy_by_lag failed on a minimal graph of -> / -- edges: {r}')
        if res is None:
            return {'lines': lines, 'impl': out, 'oracle': oracle, 'nontrivial': bool(m.edges), 'tags': tags}
        mats, vars_ = res
        am = g.adjacency_matrices
        if lagdict_text(am) != lagdict_text(mats):
            oracle.append('adjacency_matrices differs from to_numpy_by_lag()[0]')
        # entry law, computed from the minimal graph's edges
        want = {}
        for e in m.edges:
            s, d = e.source, e.destination
            want.setdefault(s.time_lag, set()).add((s.variable_name, d.variable_name))
            if etext(e.get_edge_type()) == '--':
                want[s.time_lag].add((d.variable_name, s.variable_name))
        if vars_ != sorted({n.variable_name for n in m.nodes}):
            oracle.append('to_numpy_by_lag: variables are not the sorted variable names of the minimal graph')
        if set(mats) != set(want):
            oracle.append(f'lag keys {sorted(mats)} expected {sorted(want)}')
        else:
            for k, a in mats.items():
                got = {(vars_[i], vars_[j]) for i in range(len(vars_)) for j in range(len(vars_)) if a[i][j] != 0}
                if got != want[k] or not numpy.array_equal(a, a.astype(bool)):
                    oracle.append(f'lag {k}: entries {sorted(got)} expected {sorted(want[k])}')
        # import without minimisation against the model (`mx from_lagged`); import WITH minimisation (the default
        # `construct_minimal=True`) against the model's composition fromAdjacencyMatricesFull ; minimalGraph
        # (`lag from_min` on the exported dictionary, `lag rt` on the minimal graph itself) and, on the property's
        # domain (at least one edge, only -> / --, undirected edges contemporaneous), against the property:
        # the round trip equals get_minimal_graph() — same node names, same directed edges, same unordered undirected
        # pairs, nothing else, fresh attributes (a matrix carries none), library == both ways; a cyclic minimal graph
        # is refused by the validated import (C02)
        contemporaneous_un = all(e.source.time_lag == e.destination.time_lag for e in m.edges
                                 if etext(e.get_edge_type()) == '--')
        in_domain = bool(m.edges) and contemporaneous_un and not other
        tags.add('lag-domain:' + ('in' if in_domain else 'out'))
        cyc = not acyclic(di)
        for v in (0, 1):
            r, h = attempt(lambda: TimeSeriesCausalGraph.from_adjacency_matrices(mats, vars_, construct_minimal=False,
                                                                                 validate=bool(v)), enc_graph)
            lines.append(f'mx from_lagged {v} {lagdict_text(mats)} {names_text(vars_)}')
            out.append(r)
            tags.add('from_lagged:' + ('ok' if h is not None else r[4:]))
            if h is not None:
                oracle += dag_report(h, v, 'from_adjacency_matrices(construct_minimal=False)')
            r2, h2 = attempt(lambda: TimeSeriesCausalGraph.from_adjacency_matrices(mats, vars_, validate=bool(v)), enc_graph)
            lines.append(f'lag from_min {v} {lagdict_text(mats)} {names_text(vars_)}')
            out.append(r2)
            lines.append(f'lag rt {v} {tokm}')
            out.append(r2)
            tags.add('from_min:' + ('ok' if h2 is not None else r2[4:]))
            if h2 is not None:
                oracle += dag_report(h2, 0, 'from_adjacency_matrices(construct_minimal=True)')
            if in_domain:
                what = 'from_adjacency_matrices(*to_numpy_by_lag())'
                if h2 is None:
                    if not (v and cyc and r2 == 'err CyclicConnectionError'):
                        oracle.append(f'{what} raised {r2[4:]} (validate={bool(v)}, cyclic minimal graph={cyc})')
                    else:
                        tags.add('lag-rt:cyclic-minimal-refused')
                else:
                    oracle += same_graph(m, h2, what + ' vs get_minimal_graph()')
                    if v and cyc:
                        oracle.append(f'{what}: validated import accepted a cyclic minimal graph')
                    try:
                        if not (h2 == m and m == h2) or (h2 != m) or (m != h2):
                            oracle.append(f'{what} != get_minimal_graph() (library ==)')
                    except Exception as e:  # noqa: BLE001
                        oracle.append(f'{what}: == raised {type(e).__name__}')
                    for n in h2.nodes:
                        if n.variable_type.name != 'UNSPECIFIED' or {k: x for k, x in n.meta.items()
                                                                    if k not in ('variable_name', 'time_lag')}:
                            oracle.append(f'{what}: node {n.identifier!r} carries a variable type / metadata no matrix holds')
                            break
                    if any(e.meta for e in h2.edges) or h2.meta:
                        oracle.append(f'{what}: an edge or the graph carries metadata no matrix holds')
                    try:
                        if not h2.is_minimal_graph():
                            oracle.append(f'{what}: the result is not a minimal graph')
                    except Exception as e:  # noqa: BLE001
                        oracle.append(f'{what}: is_minimal_graph raised {type(e).__name__}')
                    tags.add('lag-rt:equal')
        return {'lines': lines, 'impl': out, 'oracle': oracle[:5], 'nontrivial': bool(m.edges), 'tags': tags}

    def run_lagin(self, case):
        lines, out, oracle, tags = [], [], [], set()

        def conv(x):
            return [conv(y) for y in x] if isinstance(x, list) else ENTRY[x]
        mats = {k: numpy.array(conv(a)) for k, a in case['mats']}
        names = case['names']
        v = case['validate']
        r, h = attempt(lambda: TimeSeriesCausalGraph.from_adjacency_matrices(
            mats, None if names is None else list(names), construct_minimal=False, validate=v), enc_graph)
        lines.append(f'mx from_lagged {int(v)} {lagdict_text(mats)} {names_text(names)}')
        out.append(r)
        tags.add('lagin:' + ('ok' if h is not None else r[4:]))
        if h is not None:
            oracle += dag_report(h, v, 'from_adjacency_matrices(random input)')
        # the same input with the default construct_minimal=True: the model composes the two functions
        r2, h2 = attempt(lambda: TimeSeriesCausalGraph.from_adjacency_matrices(
            mats, None if names is None else list(names), validate=v), enc_graph)
        lines.append(f'lag from_min {int(v)} {lagdict_text(mats)} {names_text(names)}')
        out.append(r2)
        tags.add('lagin-min:' + ('ok' if h2 is not None else r2[4:]))
        if h is None and h2 is not None:
            oracle.append('from_adjacency_matrices: construct_minimal=True succeeded where construct_minimal=False raised')
        if h2 is not None:
            oracle += dag_report(h2, 0, 'from_adjacency_matrices(random input, construct_minimal=True)')
            try:
                # the result of the minimising import is a minimal graph, and it is the minimal graph of the
                # non-minimised import
                if not h2.is_minimal_graph():
                    oracle.append('from_adjacency_matrices(random input): the result is not a minimal graph')
                hm = h.get_minimal_graph()
                if not (hm == h2 and h2 == hm):
                    oracle.append('from_adjacency_matrices(random input): construct_minimal=True differs from the minimal '
                                  'graph of the construct_minimal=False result')
            except Exception as e:  # noqa: BLE001
                oracle.append(f'from_adjacency_matrices(random input): minimal-graph checks raised {type(e).__name__}')
        return {'lines': lines, 'impl': out, 'oracle': oracle, 'nontrivial': any(any(any(r) for r in a) for _, a in case['mats']),
                'tags': tags}

    def signature(self, case, failure):
        return 'C08:' + case['kind'] + ':' + failure.split(':')[0][:80]
