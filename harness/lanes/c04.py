"""
C04 lane: cached and derived answers always reflect the current graph.

A case is a list of steps on one object, each a public mutator call or a reader call.  Three families:

  triple    [prefix history with readers sprinkled] + readers + ONE aimed mutator call + readers: every public
            mutator (every entry point of `impl.apply_op`, both classes) in the middle position, aimed at a
            returning instance, a raising one, and one that raises after a nested decorated call has returned, with every reader on both sides (all of them, or one chosen pair);
  history   long random histories (`harness/histories.py`) with readers sprinkled between the mutators;
  derived   a step `['d', [route, pick]]` replaces the live object by a graph the library derived from it (minimal,
            stationary, extended, summary, sub-graphs, conversions): an ordinary graph whose readers must answer as on a
            fresh reconstruction.  The model starts again from a construction sequence of that graph's structure.
  constructed  a step `['c', route]` replaces the live object by the same graph built through a public constructor
            (`reconstruct`), followed by readers with no mutator in between: a constructor that leaves a memoised
            attribute filled shows here.  The model sees no event (same state, and its answers do not depend on what
            is memoised).

Every reader answer on the live object is compared
  (a) with the same reader on a freshly reconstructed, never queried copy `from_dict(to_dict(g), validate=False)` of
      the implementation -- the oracle, exactly the property's statement; answers for which several values are right
      (topological order, identifier, GML text) are VALIDATED against the current node / edge set instead;
  (b) with the Lean cache model (`cache run …`, lean/CG/Driver/HCache.lean): every modelled answer must be equal.

After every call the memoised attributes themselves are inspected (white box): a filled attribute must hold what the
reader computes on a fresh copy (`stale_caches`: the coherence invariant of CG.C04, checked on the implementation).

The model also predicts after EVERY call which of the eight memoised attributes are filled (`cache runocc …`); this
ties the decorator / nesting model (where a raising call has or has not been followed by a reset) to the code.  The
prediction is MEASURED (tags `occupancy:*`, zero disagreements on the unchanged tree) but a disagreement alone is not
a failure: which attribute is filled when is not public behaviour, and harmless changes move it (a decorator removed
from a method that only delegates to decorated ones, an extra reset, a reader that memoises less).  Set
C04_OCCUPANCY=strict to make the check compare it like an answer.
"""
import hashlib
import json
import os

from harness import gen as _gen
from harness import histories, impl
from harness.core import LaneBase, hx, hxlist

ATTRS = ['_is_dag', '_networkx', '_adjacency', '_is_fully_directed_cached', '_is_fully_undirected_cached',
         '_variables', '_is_minimal_graph', '_is_stationary_graph']

PLAIN_READERS = ['isdag', 'fd', 'fu', 'nx', 'adj', 'numpy', 'skel', 'ident', 'topo', 'gml']
TS_READERS = PLAIN_READERS + ['vars', 'ismin', 'isstat', 'lags', 'adjmats']
UNMODELLED = {'skel'}                       # live view, nothing memoised: compared with the fresh copy only

PLAIN_KINDS = ['add_node', 'add_node_obj', 'add_nodes_from', 'add_fully_connected', 'delete_node', 'remove_node',
               'replace_node', 'change_edge_type', 'add_edge', 'add_edge_by_pair', 'add_edge_obj', 'add_edges_from',
               'add_path', 'add_paths', 'remove_edge_by_pair', 'delete_edge', 'remove_edge', 'replace_edge']
TS_KINDS = PLAIN_KINDS + ['ts_add_node', 'add_time_edge']


def readers_of(cls):
    return TS_READERS if cls == 'ts' else PLAIN_READERS


def kinds_of(cls):
    return TS_KINDS if cls == 'ts' else PLAIN_KINDS


# ------------------------------------------------------------------------------------------------------------
# implementation side
# ------------------------------------------------------------------------------------------------------------

def occupancy(g):
    return ''.join('1' if getattr(g, a, None) is not None else '0' for a in ATTRS)


def fresh_copy(g):
    return type(g).from_dict(g.to_dict(), validate=False)


ROUTES = ['dict', 'copy', 'matrix', 'nx', 'gml', 'skeleton', 'numpy_by_lag', 'from_causal_graph']


def reconstruct(g, route):
    """the same graph built through a public constructor (validation on, the default), or None when the route cannot
    carry this graph (other edge types, mangled labels, non-minimal graph, ...): the result is accepted only when it has
    the class, node names and typed edges of `g`.  Attributes may be lost; no C04 answer the model gives depends on them."""
    from cai_causal_graph import CausalGraph, Skeleton, TimeSeriesCausalGraph
    C = type(g)
    src = fresh_copy(g)
    try:
        if route == 'dict':
            h = C.from_dict(src.to_dict())
        elif route == 'copy':
            h = src.copy()
        elif route == 'matrix':
            h = C.from_adjacency_matrix(*src.to_numpy())
        elif route == 'nx':
            h = C.from_networkx(src.to_networkx())
        elif route == 'gml':
            h = C.from_gml_string(src.to_gml_string())
        elif route == 'skeleton':
            h = C.from_skeleton(src.skeleton)
        elif route == 'numpy_by_lag':
            h = C.from_adjacency_matrices(*src.to_numpy_by_lag())
        elif route == 'from_causal_graph':
            h = TimeSeriesCausalGraph.from_causal_graph(CausalGraph.from_dict(src.to_dict()))
        else:
            return None
        if type(h) is not C or h.get_node_names() != g.get_node_names() or _unoriented(h) != _unoriented(g):
            return None
        return h
    except RecursionError:
        raise
    except Exception:  # noqa: BLE001 -- a route that refuses this graph
        return None


DERIVE_TS = ['minimal', 'stationary', 'extend11', 'extend20', 'summary', 'from_matrices', 'copy']
DERIVE_PLAIN = ['ancestral', 'descendant', 'parents', 'children', 'from_skeleton', 'to_ts', 'skeleton_rt']


def derive(g, route, pick=0):
    """a graph object the library itself hands out (derived graph, conversion): it is an ordinary graph, every reader on
    it must answer as on a fresh reconstruction.  None when the route does not apply to this graph."""
    from cai_causal_graph import CausalGraph, Skeleton, TimeSeriesCausalGraph
    try:
        names = g.get_node_names()
        node = names[pick % len(names)] if names else None
        if route == 'minimal':
            return g.get_minimal_graph()
        if route == 'stationary':
            return g.get_stationary_graph()
        if route == 'extend11':
            return g.extend_graph(1, 1)
        if route == 'extend20':
            return g.extend_graph(2, 0, include_all_parents=False)
        if route == 'summary':
            return g.get_summary_graph()
        if route == 'from_matrices':
            return type(g).from_adjacency_matrices(*g.to_numpy_by_lag())
        if route == 'copy':
            return g.copy()
        if route == 'ancestral':
            return g.get_ancestral_graph(node)
        if route == 'descendant':
            return g.get_descendant_graph(node)
        if route == 'parents':
            return g.get_parents_graph(node)
        if route == 'children':
            return g.get_children_graph(node)
        if route == 'from_skeleton':
            return type(g).from_skeleton(g.skeleton)
        if route == 'skeleton_rt':
            return type(g).from_skeleton(Skeleton.from_dict(g.skeleton.to_dict(), graph_class=type(g)))
        if route == 'to_ts':
            return TimeSeriesCausalGraph.from_causal_graph(g)
    except RecursionError:
        raise
    except Exception:  # noqa: BLE001 -- the route refuses this graph (not a DAG, odd names, ...)
        return None
    return None


def rebuild_ops(h):
    """a construction sequence for the structure of `h` (names, typed oriented edges): what the model is told"""
    ops = [['add_node', n, 'unspecified', {}] for n in h.get_node_names()]
    ops += [['add_edge', a, b, t, {}, False] for a, b, t in _edges_of(h)]
    return ops


def _unoriented(g):
    """typed edges, a symmetric type regardless of its stored orientation (the matrix routes store a -- b sorted)"""
    return sorted((min(s, d), max(s, d), t) if t in ('--', '<>', 'oo') else (s, d, t) for s, d, t in _edges_of(g))


def _rows(m):
    rows = [''.join(str(int(x)) for x in row) for row in m]
    return ';'.join(rows) if rows else '.'


def _edges_of(g):
    return [(e.source.identifier, e.destination.identifier, impl.ety(e)) for e in g.get_edges()]


def brute_is_dag(g):
    """every edge directed and no directed cycle (plain DFS on the edge list; no networkx)"""
    es = _edges_of(g)
    if any(t != '->' for _, _, t in es):
        return False
    succ = {}
    for s, d, _ in es:
        succ.setdefault(s, []).append(d)
    state = {}

    def visit(n):
        state[n] = 1
        for m in succ.get(n, []):
            if state.get(m) == 1 or (state.get(m) is None and not visit(m)):
                return False
        state[n] = 2
        return True

    return all(state.get(n) == 2 or visit(n) for n in list(succ))


def valid_topological_order(g, order):
    names = g.get_node_names()
    if sorted(order) != sorted(names) or len(set(order)) != len(order):
        return 'is not a permutation of the current nodes'
    pos = {n: i for i, n in enumerate(order)}
    for s, d, t in _edges_of(g):
        if t == '->' and not pos[s] < pos[d]:
            return f'puts {d!r} before its parent {s!r}'
    return None


def valid_identifier(g, ident):
    names = g.get_node_names()
    if not brute_is_dag(g):
        want = '<' + '>_<'.join(sorted(names)) + '>'
        return None if ident == want else f'graph is not a DAG but the identifier is not the sorted node list {want!r}'
    if not names:
        return None if ident == '<>' else 'empty graph but identifier is not <>'
    parents = {n: set() for n in names}
    for s, d, _ in _edges_of(g):
        parents[d].add(s)
    if not ident.startswith('<'):
        return 'does not start with <'

    def rec(pos, done):
        if len(done) == len(names):
            return pos == len(ident)
        for n in names:
            if n in done or not parents[n] <= done:
                continue
            last = len(done) + 1 == len(names)
            piece = n + ('>' if last else '>_<')
            if ident.startswith(piece, pos) and rec(pos + len(piece), done | {n}):
                return True
        return False

    return None if rec(1, frozenset()) else 'is not <n1>_<n2>… for any topological order of the current graph'


def valid_gml(g, text):
    import networkx
    try:
        h = networkx.parse_gml(text)
    except Exception as e:  # noqa: BLE001
        return f'GML text does not parse ({type(e).__name__})'
    es = _edges_of(g)
    directed = all(t == '->' for _, _, t in es)
    if h.is_directed() != directed:
        return f'GML says directed={h.is_directed()} but the graph has {"only" if directed else "not only"} directed edges'
    if sorted(h.nodes) != g.get_node_names():
        return f'GML nodes {sorted(h.nodes)!r} are not the current nodes'
    if directed:
        ok = sorted(h.edges) == sorted((s, d) for s, d, _ in es)
    else:
        ok = sorted(tuple(sorted(e)) for e in h.edges) == sorted(tuple(sorted((s, d))) for s, d, _ in es)
    return None if ok else f'GML edges {sorted(h.edges)!r} are not the current edges'


def _outcome(f):
    """('ok', value) or ('!Class', None)"""
    try:
        return 'ok', f()
    except RecursionError:
        raise
    except Exception as e:  # noqa: BLE001
        return '!' + impl.err_name(e), None


def _nx_canon(h):
    nodes = sorted(h.nodes)
    if h.is_directed():
        es = sorted(h.edges)
        return 'D;' + hxlist(nodes) + ';' + (','.join(hx(a) + '>' + hx(b) for a, b in es) if es else '.')
    es = sorted(tuple(sorted(e)) for e in h.edges)
    return 'U;' + hxlist(nodes) + ';' + (','.join(hx(a) + '>' + hx(b) for a, b in es) if es else '.')


def _skeleton_value(g):
    sk = g.skeleton
    names = g.get_node_names()
    return json.dumps({
        'nodes': [[n.identifier, n.variable_type.value, impl.cj(n.meta)] for n in sk.nodes],
        'edges': [[e.source.identifier, e.destination.identifier, impl.ety(e)] for e in sk.edges],
        'adj': _rows(sk.adjacency_matrix),
        'nb': [sorted(sk.get_neighbors(n)) for n in names],
        'pairs': [list(p) for p in sk.get_edge_pairs()],
    }, sort_keys=True)


def _adjmats_value(g):
    d = g.adjacency_matrices
    return json.dumps({str(k): _rows(v) for k, v in sorted(d.items())}, sort_keys=True)


def read(g, name):
    """run one reader on the object: (outcome, canonical value or None).  outcome is 'ok' or '!ExceptionClass'."""
    if name == 'isdag':
        return _outcome(lambda: '1' if g.is_dag() else '0')
    if name == 'fd':
        return _outcome(lambda: '1' if g._is_fully_directed() else '0')
    if name == 'fu':
        return _outcome(lambda: '1' if g._is_fully_undirected() else '0')
    # (what an export hands out is the caller's: it is changed in place right after it has been read -- adding a cycle to
    #  the networkx graph, flipping the matrix -- and the next answers must not care)
    if name == 'nx':
        def f():
            x = g.to_networkx()
            v = _nx_canon(x)
            _gen._abuse_nx(x)
            return v
        return _outcome(f)
    if name == 'adj':
        def f():
            a = g.adjacency_matrix
            v = _rows(a)
            _gen._abuse_arr(a)
            return v
        return _outcome(f)
    if name == 'numpy':
        def f():
            m, names = g.to_numpy()
            v = _rows(m) + '|' + hxlist(names)
            _gen._abuse_arr(m)
            names.clear()
            return v
        return _outcome(f)
    if name == 'skel':
        return _outcome(lambda: _skeleton_value(g))
    if name == 'ident':
        return _outcome(lambda: g.identifier)
    if name == 'topo':
        return _outcome(lambda: list(g.get_topological_order()))
    if name == 'gml':
        return _outcome(lambda: g.to_gml_string())
    if name == 'vars':
        return _outcome(lambda: hxlist(g.variables or []))
    if name == 'ismin':
        return _outcome(lambda: '1' if g.is_minimal_graph() else '0')
    if name == 'isstat':
        return _outcome(lambda: '1' if g.is_stationary_graph() else '0')
    if name == 'lags':
        def f():
            a, b = g.max_forward_lag, g.max_backward_lag
            return ('~' if a is None else str(a)) + '/' + ('~' if b is None else str(b))
        return _outcome(f)
    if name == 'adjmats':
        return _outcome(lambda: _adjmats_value(g))
    raise ValueError(name)


VALIDATED = {'ident': valid_identifier, 'topo': valid_topological_order, 'gml': valid_gml}


def ts_parameters(g, name):
    """the time-series computations the model takes as parameters, measured on fresh copies of the current graph"""
    oc, _ = _outcome(lambda: fresh_copy(g).get_minimal_graph())
    minerr = '~' if oc == 'ok' else oc[1:]
    if name == 'ismin':
        oc2, v = read(fresh_copy(g), 'ismin')
        return [minerr, v if oc2 == 'ok' else '0']
    if name == 'isstat':
        oc2, v = read(fresh_copy(g), 'isstat')
        return [minerr, v if oc2 == 'ok' else oc2]
    return [minerr]


def do_reader(g, name):
    """returns (protocol tokens or None, expected model answer, [oracle failures])"""
    params = ts_parameters(g, name) if name in ('ismin', 'isstat', 'adjmats') else []
    f = fresh_copy(g)
    oc, v = read(g, name)
    ocf, vf = read(f, name)
    bad = []
    if oc != ocf:
        bad.append(f'{name}: live object {"returns" if oc == "ok" else "raises " + oc[1:]} but a freshly reconstructed '
                   f'copy {"returns" if ocf == "ok" else "raises " + ocf[1:]}')
    elif oc == 'ok':
        if name in VALIDATED:
            why = VALIDATED[name](g, v)
            if why:
                bad.append(f'{name}: answer {str(v)[:120]!r} is not valid for the current graph: {why}')
        elif v != vf:
            bad.append(f'{name}: live object answers {str(v)[:160]!r} but a freshly reconstructed copy answers '
                       f'{str(vf)[:160]!r}')
    if name == 'isdag' and oc == 'ok' and (v == '1') != brute_is_dag(g):
        bad.append(f'isdag: is_dag() = {v} but a cycle search on the current edges says {brute_is_dag(g)}')
    if name in UNMODELLED:
        return None, None, bad
    if name in VALIDATED:
        ans = 'ok' if oc == 'ok' else oc
    elif name == 'adjmats':
        ans = 'ok' if params[0] == '~' else '!' + params[0]
    else:
        ans = v if oc == 'ok' else oc
    return ['r', name] + params, ans, bad


def stale_caches(g):
    """white-box coherence: every memoised attribute that is filled holds what a fresh copy computes"""
    bad = []
    try:
        attrs = {a: getattr(g, a, None) for a in ATTRS}
        if all(v is None for v in attrs.values()):
            return bad
        f = fresh_copy(g)

        def expect(attr, got, name):
            oc, want = read(fresh_copy(g) if name in ('ismin', 'isstat') else f, name)
            if oc != 'ok':
                bad.append(f'{attr} is filled but a fresh copy raises {oc[1:]} for it')
            elif got != want:
                bad.append(f'{attr} holds {str(got)[:100]!r} but a fresh copy computes {str(want)[:100]!r}')

        if attrs['_is_dag'] is not None:
            expect('_is_dag', '1' if attrs['_is_dag'] else '0', 'isdag')
        if attrs['_is_fully_directed_cached'] is not None:
            expect('_is_fully_directed_cached', '1' if attrs['_is_fully_directed_cached'] else '0', 'fd')
        if attrs['_is_fully_undirected_cached'] is not None:
            expect('_is_fully_undirected_cached', '1' if attrs['_is_fully_undirected_cached'] else '0', 'fu')
        if attrs['_networkx'] is not None:
            expect('_networkx', _nx_canon(attrs['_networkx']), 'nx')
        if attrs['_adjacency'] is not None:
            expect('_adjacency', _rows(attrs['_adjacency']), 'adj')
        if attrs['_variables'] is not None:
            expect('_variables', hxlist(attrs['_variables']), 'vars')
        if attrs['_is_minimal_graph'] is not None:
            expect('_is_minimal_graph', '1' if attrs['_is_minimal_graph'] else '0', 'ismin')
        if attrs['_is_stationary_graph'] is not None and brute_is_dag(g):
            # (the memoised value is only ever returned when the graph is a DAG)
            expect('_is_stationary_graph', '1' if attrs['_is_stationary_graph'] else '0', 'isstat')
    except RecursionError:
        raise
    except Exception:  # noqa: BLE001 -- the attributes are private: if their shape changes this check says nothing
        return []
    return bad


def op_tokens(op):
    return impl.op_line('h', op).split(' ')[3:]


# ------------------------------------------------------------------------------------------------------------
# generation
# ------------------------------------------------------------------------------------------------------------

def _plain_id(e):
    return e if isinstance(e, str) else e['id']


def candidate(gen, kind):
    """one random call of the given public mutator, shaped by the current graph"""
    r = gen.r
    if kind in ('add_edge', 'add_edge_by_pair', 'add_edge_obj'):
        op = gen.gen_add_edge()
        p = gen.cycle_closing_pair() if r.random() < 0.25 else None
        if p:
            op = ['add_edge', p[0], p[1], '->', gen.meta(), True]
        if kind == 'add_edge':
            return ['add_edge', op[1], op[2]] + op[3:]
        return [kind, _plain_id(op[1]), _plain_id(op[2])] + op[3:]
    if kind in ('delete_edge', 'remove_edge', 'remove_edge_by_pair'):
        op = gen.gen_delete_edge()
        return [kind] + op[1:]
    if kind in ('delete_node', 'remove_node'):
        return [kind] + gen.gen_delete_node()[1:]
    if kind == 'change_edge_type':
        if r.random() < 0.3:
            # a non-directed edge whose destination already reaches its source: directing it closes a cycle
            hits = [(a, b) for a, b, t in gen.edges() if t != '->' and a in gen.reach(b)]
            if hits:
                a, b = r.choice(hits)
                return ['change_edge_type', a, b, '->']
        return gen.gen_change_type()
    if kind == 'replace_edge':
        return gen.gen_replace_edge()
    if kind == 'replace_node':
        return gen.gen_replace_node()
    if kind == 'add_time_edge':
        return gen.gen_time_edge()
    if kind in ('add_node', 'add_node_obj', 'ts_add_node'):
        for _ in range(30):
            op = gen.gen_add_node()
            if op[0] == kind:
                return op
        name = gen.fresh()
        if kind == 'ts_add_node':
            return ['ts_add_node', None, r.choice(histories.TS_VARS), r.choice(histories.TS_LAGS), 'unspecified', {}]
        return [kind, name, 'unspecified', {}]
    k = r.randint(1, 4)
    if kind == 'add_nodes_from':
        return ['add_nodes_from', [gen.fresh() if r.random() < 0.6 else gen.any_name() for _ in range(k)]]
    if kind == 'add_edges_from':
        return ['add_edges_from', [[gen.any_name(), gen.any_name()] for _ in range(k)], r.random() < 0.9]
    if kind == 'add_path':
        return ['add_path', [gen.any_name() for _ in range(r.randint(0, 5))], r.random() < 0.85]
    if kind == 'add_paths':
        return ['add_paths', [[gen.any_name() for _ in range(r.randint(0, 4))] for _ in range(r.randint(0, 3))]]
    if kind == 'add_fully_connected':
        return ['add_fully_connected', [gen.any_name() for _ in range(r.randint(0, 2))],
                [gen.any_name() for _ in range(r.randint(0, 3))]]
    raise ValueError(kind)


def aimed(gen, kind, want, tries=40):
    """a call of `kind` that (on a copy of the current graph) does what is wanted, if one is found:
    'ok' returns, 'raise' raises, 'raise-reset' raises after a nested decorated call has already returned"""
    op = fallback = None
    for _ in range(tries):
        op = candidate(gen, kind)
        c = fresh_copy(gen.g)
        c.is_dag()                                  # warm, to see whether the call resets
        res = impl.apply_op(c, op)
        if want == 'ok' and res == 'ok':
            return op
        if want != 'ok' and res != 'ok':
            if want == 'raise' or getattr(c, '_is_dag', None) is None:
                return op
            fallback = op
    return fallback or op


def sprinkle(gen, n_ops, p_reader=0.5):
    """a history of n_ops mutators with readers in between"""
    rs = readers_of(gen.cls)
    steps = []
    for _ in range(n_ops):
        if gen.r.random() < p_reader:
            for _ in range(gen.r.randint(1, 3)):
                steps.append(['r', gen.r.choice(rs)])
        op = gen.next_op()
        impl.apply_op(gen.g, op)
        steps.append(['m', op])
    return steps


def triple_case(rng, cls, kind, want, before, after, prefix_len):
    gen = histories.Gen(rng, cls)
    steps = []
    if want == 'raise-reset' and rng.random() < 0.6:
        # a directed chain p0 -> p1 -> p2 and an undirected edge p2 -- p0: material for cycle-closing calls
        p = ['X', 'Y', 'Z'] if cls == 'ts' else ['a', 'b', 'c']
        rng.shuffle(p)
        seed = [['add_edge', p[0], p[1], '->', {}, True], ['add_edge', p[1], p[2], '->', {}, True]]
        if kind not in ('add_edge', 'add_edge_by_pair', 'add_edge_obj', 'add_time_edge') or rng.random() < 0.3:
            seed.append(['add_edge', p[2], p[0], rng.choice(['--', '<>', 'oo']), {}, True])
        for op in seed:
            impl.apply_op(gen.g, op)
            steps.append(['m', op])
    steps += sprinkle(gen, prefix_len)
    steps += [['r', x] for x in before]
    op = aimed(gen, kind, want)
    steps.append(['m', op])
    steps += [['r', x] for x in after]
    return {'cls': cls, 'gmeta': dict(rng.choice(histories.METAS)), 'steps': steps, 'family': 'triple',
            'middle': len(steps) - len(after) - 1}


def history_case(rng, cls, length):
    gen = histories.Gen(rng, cls)
    steps = sprinkle(gen, length)
    for _ in range(rng.randint(1, 4)):
        steps.append(['r', rng.choice(readers_of(cls))])
    return {'cls': cls, 'gmeta': dict(rng.choice(histories.METAS)), 'steps': steps, 'family': 'history'}


def constructed_case(rng, cls):
    """a graph that reaches the reader straight out of a public constructor: [edges of a restricted palette] + construct
    + readers with NO mutator in between (a constructor that leaves a memoised attribute filled shows here and nowhere
    else) + sometimes one mutator and the readers again"""
    gen = histories.Gen(rng, cls)
    palette = rng.choice([['->'], ['--'], ['->', '--'], ['->', '--'], ['->', '--', '--'], histories.TYPES])
    steps = []
    minimal_shape = cls == 'ts' and rng.random() < 0.4          # every edge ends at lag 0: from_adjacency_matrices applies
    lag0 = [histories.ts_name(v, 0) for v in histories.TS_VARS]
    past = [histories.ts_name(v, l) for v in histories.TS_VARS[:3] for l in (-2, -1, 0)]
    for _ in range(rng.randint(1, 7)):
        a, b = (rng.choice(past), rng.choice(lag0)) if minimal_shape else (rng.choice(gen.pool), rng.choice(gen.pool))
        op = ['add_edge', a, b, rng.choice(palette), gen.meta() if rng.random() < 0.2 else {}, True]
        impl.apply_op(gen.g, op)
        steps.append(['m', op])
    if rng.random() < 0.5:
        op = ['add_node', rng.choice(lag0) if minimal_shape else gen.fresh(), 'unspecified', {}]
        impl.apply_op(gen.g, op)
        steps.append(['m', op])
    if rng.random() < 0.3:
        steps += [['r', x] for x in rng.sample(readers_of(cls), 2)]
    routes = [r for r in ROUTES if (cls == 'ts' or r not in ('numpy_by_lag', 'from_causal_graph'))
              and reconstruct(gen.g, r) is not None]
    rare = [r for r in routes if r not in ('dict', 'copy', 'from_causal_graph')]
    steps.append(['c', rng.choice(rare if rare and rng.random() < 0.75 else routes) if routes else 'dict'])
    rs = readers_of(cls)[:]
    rng.shuffle(rs)
    steps += [['r', x] for x in (rs if rng.random() < 0.6 else rs[:rng.randint(1, 3)])]
    route = [x for x in steps if x[0] == 'c'][0][1]
    h = reconstruct(gen.g, route)
    if rng.random() < 0.4 and h is not None and _edges_of(h) == _edges_of(gen.g):
        # (a mutator follows only when the route keeps the stored orientation of every edge: the model keeps its state)
        op = gen.next_op()
        steps.append(['m', op])
        rng.shuffle(rs)
        steps += [['r', x] for x in rs[:rng.randint(1, len(rs))]]
    return {'cls': cls, 'gmeta': {}, 'steps': steps, 'family': 'constructed'}


def derived_case(rng, cls):
    """[a small history] + derive (the object is replaced by a derived graph / conversion the library hands out) + readers
    with no mutator in between + sometimes one mutator and readers again"""
    gen = histories.Gen(rng, cls)
    steps = []
    dagish = rng.random() < 0.7
    lag0 = [histories.ts_name(v, 0) for v in histories.TS_VARS]
    past = [histories.ts_name(v, l) for v in histories.TS_VARS[:3] for l in (-2, -1, 0)]
    for _ in range(rng.randint(1, 7)):
        if cls == 'ts' and rng.random() < 0.7:
            a, b = rng.choice(past), rng.choice(lag0 if rng.random() < 0.6 else past)
        else:
            a, b = rng.choice(gen.pool), rng.choice(gen.pool)
        op = ['add_edge', a, b, '->' if dagish or rng.random() < 0.5 else rng.choice(histories.TYPES), {}, True]
        impl.apply_op(gen.g, op)
        steps.append(['m', op])
    if rng.random() < 0.4:
        op = ['add_node', gen.fresh(), 'unspecified', {}]
        impl.apply_op(gen.g, op)
        steps.append(['m', op])
    if rng.random() < 0.3:
        steps += [['r', x] for x in rng.sample(readers_of(cls), 2)]
    pick = rng.randrange(8)
    routes = [r for r in (DERIVE_TS if cls == 'ts' else DERIVE_PLAIN) if derive(gen.g, r, pick) is not None]
    if not routes:
        routes = ['copy'] if cls == 'ts' else ['parents']
    route = rng.choice(routes)
    h = derive(gen.g, route, pick)
    cls2 = cls if h is None else ('ts' if impl.is_ts(h) else 'plain')
    steps.append(['d', [route, pick]])
    rs = readers_of(cls2)[:]
    rng.shuffle(rs)
    steps += [['r', x] for x in (rs if rng.random() < 0.6 else rs[:rng.randint(1, 3)])]
    if h is not None and rng.random() < 0.4:
        gen2 = histories.Gen(rng, cls2)
        gen2.g = h
        steps.append(['m', gen2.next_op()])
        rng.shuffle(rs)
        steps += [['r', x] for x in rs[:rng.randint(1, len(rs))]]
    return {'cls': cls, 'gmeta': {}, 'steps': steps, 'family': 'derived'}


class Lane(LaneBase):
    PROP = 'C04'
    THEOREMS = 'auto'
    AUDIT = 'CG/Audit/C04.lean'
    RULE = ('query -> mutate -> query interleavings on both classes: every public mutator entry point (18 plain, 20 '
            'time-series) in the middle position, aimed at a returning instance, a raising one and one that raises after a '
            'nested decorated call has returned (cycle rollback, implicit nodes, restore paths), after a random prefix '
            'history, with all readers or one chosen reader on each side (is_dag, _is_fully_directed/_undirected, '
            'to_networkx, adjacency_matrix, to_numpy, skeleton views, identifier, get_topological_order, '
            'to_gml_string; ts: variables, is_minimal_graph, is_stationary_graph, max lags, adjacency_matrices); plus '
            'long random histories with readers sprinkled in; plus graphs that reach the readers straight out of a public '
            'constructor (from_dict, copy, from_adjacency_matrix, from_networkx, from_gml_string, from_skeleton, '
            'from_adjacency_matrices, from_causal_graph; validation on) or as a derived graph the library hands out '
            '(minimal, stationary, extended, summary, ancestral / descendant / parents / children sub-graphs, '
            'from_skeleton, class conversion) with no mutator in between. Every answer is compared with a freshly reconstructed '
            'never-queried copy (multi-valued answers are validated) and with the Lean cache model, which also '
            'predicts after every call which of the 8 memoised attributes are filled. Non-trivial: some cache was '
            'warm when a mutator changed the graph or raised, and a reader ran afterwards; distinct by (class, '
            'mutator, outcome, warm caches before, readers after) for triples and by the reply stream for histories.')
    TRUSTED = ['the networkx graph / numpy matrix are modelled by their canonical values (directed?, nodes, edges / 0-1 '
               'rows); networkx.topological_sort, generate_gml and the time-series computations behind '
               'is_minimal_graph / is_stationary_graph are parameters of the model (their results on a fresh copy are '
               'what the model is given), their answers on the live object are compared with the fresh copy',
               'source extraction harness/srcgen/c04_table.py (ast patterns for decorators, index writes, self-calls, '
               'memoising readers, reset lists)',
               'which attribute is filled when (the nesting model) is measured against the private attributes of the '
               'implementation after every call, reported in the input distribution (occupancy:*), not enforced']
    PARTIAL = []

    # -- cases --------------------------------------------------------------------------------------------
    def cases(self, tier, rng):
        quick = tier == 'quick'
        for cls in ('plain', 'ts'):
            rs = readers_of(cls)
            # every mutator, returning and raising, all readers on both sides
            for kind in kinds_of(cls):
                for want in ('ok', 'raise', 'raise-reset'):
                    for _ in range(4 if quick else 10):
                        before = rs[:]
                        after = rs[:]
                        rng.shuffle(before)
                        rng.shuffle(after)
                        yield triple_case(rng, cls, kind, want, before, after, rng.randint(0, 8))
            # chosen (reader, mutator, reader) triples: only ONE cache family warm
            if quick:
                for _ in range(500):
                    yield triple_case(rng, cls, rng.choice(kinds_of(cls)), rng.choice(['ok', 'ok', 'raise', 'raise-reset']),
                                      [rng.choice(rs)], [rng.choice(rs)] if rng.random() < 0.5 else rs[:],
                                      rng.randint(1, 7))
            else:
                for r1 in rs:
                    for kind in kinds_of(cls):
                        for want in ('ok', 'raise', 'raise-reset'):
                            for r2 in rs:
                                yield triple_case(rng, cls, kind, want, [r1], [r2], rng.randint(1, 7))
        for i in range(400 if quick else 4000):
            yield constructed_case(rng, 'ts' if i % 2 else 'plain')
        for i in range(500 if quick else 5000):
            yield derived_case(rng, 'plain' if i % 3 == 0 else 'ts')
        for _ in range(600 if quick else 5000):
            yield history_case(rng, 'ts' if rng.random() < 0.5 else 'plain', rng.randint(8, 30))

    # -- one case -----------------------------------------------------------------------------------------
    _own_client = None

    def _model_occupancy(self, toks):
        """the model's prediction of which attributes are filled after every call (soft check, own driver process)"""
        from harness import core
        if Lane._own_client is None:
            Lane._own_client = core.ModelClient()
        reply = Lane._own_client.ask([' '.join(['cache', 'runocc'] + toks)])[0]
        return [item.rsplit('@', 1)[-1] for item in reply.split(' ')] if '@' in reply else None

    def _model_accepts(self, cls, ops):
        """does the model build this structure (every op answers ok)?  -- own driver process"""
        from harness import core
        try:
            if Lane._own_client is None:
                Lane._own_client = core.ModelClient()
            toks = [cls, impl.enc_meta({})]
            for o in ops:
                toks += ['|'] + op_tokens(o)
            if not ops:
                return True
            reply = Lane._own_client.ask([' '.join(['cache', 'run'] + toks)])[0]
            return reply.split(' ') == ['ok'] * len(ops)
        except Exception:  # noqa: BLE001
            return False

    def run_case(self, case):
        cls = case['cls']
        strict = os.environ.get('C04_OCCUPANCY', 'soft') == 'strict'
        g = impl.new_graph(cls, case.get('gmeta') or None)
        toks = [cls, impl.enc_meta(case.get('gmeta'))]
        expected = []
        occs = []
        oracle = []
        tags = set()
        keys = []
        nontrivial = False
        last_mut = None
        warm_at_mut = None
        constructed = False
        segments = []
        for i, (what, arg) in enumerate(case['steps']):
            if what == 'm':
                occ_before = occupancy(g)
                before = impl.cj(g.to_dict())          # (to_dict touches no memoised attribute)
                res = impl.apply_op(g, arg)
                changed = impl.cj(g.to_dict()) != before
                outcome = 'ok' if res == 'ok' else res[4:]
                toks += ['|'] + op_tokens(arg)
                expected.append('ok' if res == 'ok' else '!' + outcome)
                occs.append(occupancy(g))
                how = 'ok' if res == 'ok' else 'raise'
                if res != 'ok' and '1' in occ_before:
                    # a raising call on warm caches: did a nested decorated call return (and reset) on the way?
                    how += '-reset' if '1' not in occupancy(g) else '-kept'
                tags.add(f'{cls}:{arg[0]}:{how}')
                last_mut = (arg[0], outcome)
                warm_at_mut = occ_before if ('1' in occ_before and (changed or res != 'ok')) else None
            elif what == 'd':
                # the object is replaced by a graph the library derived from it; the model starts again from a
                # construction sequence of that graph's structure (second protocol line of the case)
                h = None if strict else derive(g, arg[0], arg[1])
                ops2 = rebuild_ops(h) if h is not None else None
                cls2 = None if h is None else ('ts' if impl.is_ts(h) else 'plain')
                if h is not None and not self._model_accepts(cls2, ops2):
                    h = None
                    tags.add('derived:model-cannot-rebuild')
                if h is None:
                    tags.add('derived:route-not-applicable')
                else:
                    segments.append((toks, expected))
                    g, cls = h, cls2
                    toks = [cls2, impl.enc_meta({})]
                    for o in ops2:
                        toks += ['|'] + op_tokens(o)
                    expected = ['ok'] * len(ops2)
                    occs = []
                    constructed = True
                    tags.add(f"{case['cls']}:derived:{arg[0]}")
                    last_mut = ('derive:' + arg[0], 'ok')
                    warm_at_mut = None
            elif what == 'c':
                # the object is replaced by the same graph out of a public constructor; for the model nothing happens
                # (same state; its answers do not depend on what is memoised -- that is the theorem)
                h = None if strict else reconstruct(g, arg)
                if h is None:
                    tags.add('constructed:route-not-applicable')
                else:
                    g = h
                    constructed = True
                    tags.add(f'{cls}:constructed:{arg}')
                    last_mut = ('construct:' + arg, 'ok')
                    warm_at_mut = None
            else:
                if (i + len(case['steps'])) % 3 == 0:
                    # read-only look-ups of things that are not there (they touch no memoised attribute, so the model
                    # has no event for them): they must not change any later answer
                    for f in (lambda: g.get_nodes_for_variable_name('__absent'), lambda: g.get_nodes_at_lag(-97),
                              lambda: g.edge_exists('__absent', '__absent2'), lambda: g.get_edges(source='__absent'),
                              lambda: g.get_edges(destination='__absent'), lambda: g.node_exists('__absent')):
                        try:
                            f()
                        except Exception:  # noqa: BLE001
                            pass
                if arg not in readers_of(cls):
                    continue                # (the derived object turned out to be of another class than predicted)
                call, ans, bad = do_reader(g, arg)
                tags.add('reader:' + arg)
                if call is not None:
                    toks += ['|'] + call
                    expected.append(ans)
                    occs.append(occupancy(g))
                for b in bad:
                    where = f' (after {last_mut[0]} -> {last_mut[1]})' if last_mut else ' (no mutator yet)'
                    if len(oracle) < 3:
                        oracle.append(f'{cls} step {i}: {b}{where}')
                if warm_at_mut is not None:
                    nontrivial = True
                    keys.append((cls,) + last_mut + (warm_at_mut, arg))
                elif constructed and last_mut and last_mut[0].startswith(('construct:', 'derive:')):
                    nontrivial = True
                    keys.append((cls,) + last_mut + ('fresh-from-constructor', arg))
            for b in stale_caches(g):
                if len(oracle) < 3:
                    what = arg if what in ('r', 'c') else arg[0]
                    oracle.append(f'{cls} step {i}: memo: after {what}: {b} (after {last_mut[0]} -> {last_mut[1]})'
                                  if last_mut else f'{cls} step {i}: memo: after {what}: {b} (no mutator yet)')
        if strict:
            line = ' '.join(['cache', 'runocc'] + toks)
            impl_reply = ' '.join(a + '@' + o for a, o in zip(expected, occs)) if expected else '.'
        else:
            line = ' '.join(['cache', 'run'] + toks)
            impl_reply = ' '.join(expected) if expected else '.'
            try:
                mocc = None if constructed else (self._model_occupancy(toks) if expected else [])
            except Exception:  # noqa: BLE001
                mocc = None
            if mocc is None or len(mocc) != len(occs):
                tags.add('occupancy:not-measured')
            elif mocc == occs:
                tags.add('occupancy:agrees-on-every-call')
            else:
                more = any(a == '1' and b == '0' for o, m in zip(occs, mocc) for a, b in zip(o, m))
                tags.add('occupancy:code-keeps-a-cache-the-model-resets' if more else
                         'occupancy:code-resets-or-skips-a-cache-the-model-keeps')
        if case.get('family') in ('triple', 'constructed', 'derived'):
            key = hashlib.sha1(json.dumps(sorted(set(keys))).encode()).hexdigest()
        else:
            key = hashlib.sha1(impl_reply.encode()).hexdigest()
        lines, impls = [line], [impl_reply]
        for t, e in segments:
            lines.insert(len(lines) - 1, ' '.join(['cache', 'run'] + t))
            impls.insert(len(impls) - 1, ' '.join(e) if e else '.')
        return {'lines': lines, 'impl': impls, 'oracle': oracle, 'nontrivial': nontrivial, 'key': key,
                'tags': sorted(tags)}

    # -- reporting ----------------------------------------------------------------------------------------
    def signature(self, case, failure):
        # "<cls> step i: <reader>: … (after <mutator> -> <outcome>)"
        body = failure.split(': ', 1)[1] if ': ' in failure else failure
        reader = body.split(':', 1)[0]
        after = failure.rsplit('(', 1)[1].rstrip(')') if '(' in failure else ''
        return f"C04:{case['cls']}:{reader}:{after}"

    def shrink(self, case, still_fails):
        steps = list(case['steps'])
        budget = 150
        changed = True
        while changed and budget > 0:
            changed = False
            i = len(steps) - 1
            while i >= 0 and budget > 0:
                trial = steps[:i] + steps[i + 1:]
                budget -= 1
                if trial and still_fails(dict(case, steps=trial)):
                    steps = trial
                    changed = True
                i -= 1
        return dict(case, steps=steps)

    def describe(self, case):
        return {'cls': case['cls'], 'family': case.get('family'),
                'steps': [s[1] if s[0] in ('r', 'c') else s[1][0] for s in case['steps']][:40]}

    def source_obligations(self):
        from harness.srcgen import c04_table
        try:
            return c04_table.check_tables()
        except Exception as e:  # noqa: BLE001
            return [('C04 source extraction', False, f'{type(e).__name__}: {e}')]
