"""
Lane C20 -- Markov boundaries shield their node; colliders are the nodes with two arrowheads pointing in.

One case = one graph with all its queries.

* kind 'dag': every labelled DAG on <= 5 nodes (both tiers) plus seeded samples on 6-7 nodes: `identify_markov_boundary` for every node (identifier and Node-object form, unknown node), and the boundary of
  the graph's Skeleton.  Oracle: the returned set is parents + children + co-parents computed from the edge list, it
  d-separates the node from every other node by brute-force path blocking, and dropping any one member breaks that.
* kind 'mixed': every mixed graph on 3 nodes and samples on 4-5 nodes, each unordered pair being one of
  {none, ->, <-, <> stored either way, --, o>} (thorough: oo and o- as well on the samples): `identify_colliders` with
  both flags, the Skeleton boundary of every node, and the `TypeError` of `identify_markov_boundary` on a non-DAG.
  Oracle: arrowhead counting and pairwise adjacency straight from the edge list.
"""
from __future__ import annotations

import itertools

from harness import gen
from harness.core import LaneBase, hx, hxedges, hxlist
from harness.lanes.c11 import BF

NAMES = gen.NAMES
PAIR_OPTS = [None, (0, '->'), (1, '->'), (0, '<>'), (1, '<>'), (0, '--'), (0, 'o>')]
PAIR_OPTS_WIDE = PAIR_OPTS + [(1, '--'), (1, 'o>'), (0, 'oo'), (0, 'o-'), (1, 'o-')]


def call_list(f, *a, **kw):
    try:
        r = f(*a, **kw)
    except Exception as e:  # noqa: BLE001
        return 'err ' + type(e).__name__, None
    return hxlist(sorted(r)), r


def hxtyped(tedges):
    return ','.join(f'{hx(a)}>{hx(b)}:{t}' for a, b, t in tedges) or '.'


def mixed_from_choice(n, choice):
    pairs = [(i, j) for i in range(n) for j in range(i + 1, n)]
    out = []
    for (i, j), c in zip(pairs, choice):
        if c is None:
            continue
        o, t = c
        out.append([i, j, t] if o == 0 else [j, i, t])
    return out


class Lane(LaneBase):
    PROP = 'C20'
    THEOREMS = 'auto'
    AUDIT = 'CG/Audit/C20.lean'
    RULE = ('dag case: some node has a non-empty boundary and a node outside boundary + itself (the shielding claim is '
            'not vacuous); mixed case: identify_colliders returned at least one node; distinct by labelled typed edge set')
    TRUSTED = [
        'get_parents / get_children / get_neighbors / edge_exists / get_edge of the graph class return what the edge '
        'list says (the model works on the edge list; the graph-state model of C01 is not re-used here) -- measured',
        'd-separation in the theorems is CG.DSepDec.DSep, the definition C11 ties is_d_separated to',
    ]
    PARTIAL = []
    EXHAUSTIVE = {'quick': True, 'thorough': True}

    # ---- cases ---------------------------------------------------------------------------------
    def cases(self, tier, rng):
        for n in range(1, 6):           # the boundary part is cheap: all 29 281 + 543 + 25 + 3 + 1 DAGs in both tiers
            for edges in gen.all_labelled_dags(n):
                yield {'kind': 'dag', 'n': n, 'edges': [list(e) for e in edges], 'seed': rng.randrange(1 << 30)}
        for _ in range(300 if tier == 'quick' else 3000):
            n = rng.choice([6, 6, 7])
            yield {'kind': 'dag', 'n': n, 'seed': rng.randrange(1 << 30),
                   'edges': [list(e) for e in gen.random_dag(rng, n, p=rng.choice([.25, .4, .55]))]}
        for n in (2, 3):
            for choice in itertools.product(PAIR_OPTS, repeat=n * (n - 1) // 2):
                yield {'kind': 'mixed', 'n': n, 'tedges': mixed_from_choice(n, choice), 'seed': rng.randrange(1 << 30)}
        for n, k in ((4, 30000), (5, 15000)) if tier == 'quick' else ((4, 60000), (5, 40000), (6, 10000)):
            opts = PAIR_OPTS if tier == 'quick' else PAIR_OPTS_WIDE
            for _ in range(k):
                # bias towards sparse graphs now and then so that unshielded colliders are common
                w = rng.choice([0.2, 0.45, 0.7])
                choice = [rng.choice(opts[1:]) if rng.random() < w else None for _ in range(n * (n - 1) // 2)]
                yield {'kind': 'mixed', 'n': n, 'tedges': mixed_from_choice(n, choice), 'seed': rng.randrange(1 << 30)}

    def describe(self, case):
        if case['kind'] == 'mixed':
            return {'kind': 'mixed', 'n': case['n'], 'edges': [f'{NAMES[a]} {t} {NAMES[b]}' for a, b, t in case['tedges']]}
        return {'kind': 'dag', 'n': case['n'], 'edges': [f'{NAMES[a]}->{NAMES[b]}' for a, b in case['edges']]}

    # ---- one case ------------------------------------------------------------------------------
    def run_case(self, case):
        import random
        rng = random.Random(case['seed'])
        if case['kind'] == 'mixed':
            return self._run_mixed(case, rng)
        from cai_causal_graph.identify_utils import identify_markov_boundary
        n = case['n']
        names = NAMES[:n]
        ts_cls = None
        if case['kind'] == 'dag' and case['seed'] % 4 == 0 and n >= 2:
            # the same DAG as a time-series graph: names whose lags grow with depth, so that every edge respects time
            from cai_causal_graph import TimeSeriesCausalGraph as ts_cls
            names = gen.ts_names(n, [tuple(e) for e in case['edges']])
        edges = [(names[a], names[b]) for a, b in case['edges']]
        g = gen.build_dag(n, case['edges'], names=names, cls=ts_cls)
        sk = g.skeleton
        from cai_causal_graph.identify_utils import identify_colliders as _ic
        _nf = gen.nodeform_agree(g, names, [
            ('identify_markov_boundary', lambda x, y: identify_markov_boundary(g, x)),
            ('identify_markov_boundary(skeleton)', lambda x, y: identify_markov_boundary(g.skeleton, x)),
            ('get_parents', lambda x, y: g.get_parents(x)), ('get_children', lambda x, y: g.get_children(x)),
            ('get_neighbors', lambda x, y: g.get_neighbors(x))], key=('c20', n, tuple(map(tuple, case['edges']))))
        hn, he = hxlist(names), hxedges(edges)
        ht = hxtyped([(a, b, '->') for a, b in edges])
        bf = BF(names, edges)
        lines, impl, oracle = [], [], list(_nf)
        nontrivial = False
        coparent = False
        for i, x in enumerate(names):
            arg = x if (i + case['seed']) % 2 else g.get_node(x)
            rep, mb = call_list(identify_markov_boundary, g, arg)
            lines.append(f'dsep mb {hn} {he} {hx(x)}')
            impl.append(rep)
            if mb is None:
                oracle.append(f'identify_markov_boundary({x}) raised {rep}; edges {edges}')
                continue
            if not isinstance(mb, list) or len(set(mb)) != len(mb):
                oracle.append(f'identify_markov_boundary({x}) returned {mb!r}: not a duplicate-free list')
            mbs = set(mb)
            pa = {a for a, b in edges if b == x}
            ch = {b for a, b in edges if a == x}
            co = {a for a, b in edges if b in ch and a != x}
            if mbs != pa | ch | co:
                oracle.append(f'identify_markov_boundary({x}) = {sorted(mbs)}, parents+children+co-parents = '
                              f'{sorted(pa | ch | co)}; edges {edges}')
            if co - pa - ch:
                coparent = True
            outside = [w for w in names if w != x and w not in mbs]
            if mbs and outside:
                nontrivial = True
            # shielding and drop-one minimality of what was returned, by brute-force path blocking
            if x in mbs:
                oracle.append(f'identify_markov_boundary({x}) contains the node itself; edges {edges}')
            else:
                for w in outside:
                    if not bf.dsep(x, w, mbs):
                        oracle.append(f'boundary {sorted(mbs)} of {x} does not d-separate it from {w}; edges {edges}')
                for m in sorted(mbs):
                    rest = mbs - {m}
                    if all(bf.dsep(x, w, rest) for w in names if w != x and w not in rest):
                        oracle.append(f'{m} can be dropped from the boundary {sorted(mbs)} of {x}; edges {edges}')
            # Skeleton: the neighbours
            rep, nb = call_list(identify_markov_boundary, sk, arg)
            lines.append(f'dsep skmb {hn} {ht} {hx(x)}')
            impl.append(rep)
            if nb is None or set(nb) != pa | ch:
                oracle.append(f'skeleton boundary of {x} = {nb}, neighbours are {sorted(pa | ch)}; edges {edges}')
        # unknown node
        for graph, line in ((g, f'dsep mb {hn} {he} {hx("zz")}'), (sk, f'dsep skmb {hn} {ht} {hx("zz")}')):
            rep, _ = call_list(identify_markov_boundary, graph, 'zz')
            lines.append(line)
            impl.append(rep)
        tags = ['kind=dag', f'n={n}', f'm={len(edges)}'] + (['has-nonadjacent-coparent'] if coparent else [])
        return {'lines': lines, 'impl': impl, 'oracle': oracle, 'nontrivial': nontrivial, 'key': f'dag:{n}:{he}',
                'tags': tags}

    def _run_mixed(self, case, rng):
        from cai_causal_graph.identify_utils import identify_colliders, identify_markov_boundary
        n = case['n']
        names = NAMES[:n]
        tedges = [(NAMES[a], NAMES[b], t) for a, b, t in case['tedges']]
        g = gen.build_mixed(names, tedges, validate=False)
        hn, ht = hxlist(names), hxtyped(tedges)
        lines, impl, oracle = [], [], []
        # arrowhead counting straight from the typed edge list
        into = {x: set() for x in names}
        adj = set()
        for a, b, t in tedges:
            adj.add(frozenset((a, b)))
            if t == '->':
                into[b].add(a)
            elif t == '<>':
                into[b].add(a)
                into[a].add(b)
        want_all = sorted(x for x in names if len(into[x]) >= 2)
        want_uns = sorted(x for x in want_all
                          if not any(frozenset(p) in adj for p in itertools.combinations(sorted(into[x]), 2)))
        got = {}
        for flag, want in ((False, want_all), (True, want_uns)):
            if flag is False and case['seed'] % 2:
                rep, r = call_list(identify_colliders, g)                  # default argument
            else:
                rep, r = call_list(identify_colliders, g, unshielded_only=flag)
            lines.append(f'dsep colliders {hn} {ht} {int(flag)}')
            impl.append(rep)
            got[flag] = r
            if r is None or sorted(r) != want or len(set(r)) != len(r):
                oracle.append(f'identify_colliders(unshielded_only={flag}) = {r if r is None else sorted(r)}, arrowhead '
                              f'counting says {want}; edges {[f"{a} {t} {b}" for a, b, t in tedges]}')
        # Skeleton boundary = neighbours
        sk = g.skeleton
        for x in names:
            rep, nb = call_list(identify_markov_boundary, sk, x)
            lines.append(f'dsep skmb {hn} {ht} {hx(x)}')
            impl.append(rep)
            want = sorted(y for y in names if y != x and frozenset((x, y)) in adj)
            if nb is None or sorted(nb) != want:
                oracle.append(f'skeleton boundary of {x} = {nb}, neighbours are {want}')
        # identify_markov_boundary on the mixed graph itself: TypeError unless it happens to be a DAG
        x = names[case['seed'] % n]
        rep, _ = call_list(identify_markov_boundary, g, x)
        lines.append(f'dsep mbt {hn} {ht} {hx(x)}')
        impl.append(rep)
        kinds = sorted({t for _, _, t in tedges})
        tags = ['kind=mixed', f'n={n}'] + [f'type:{t}' for t in kinds]
        if got.get(True):
            tags.append('has-unshielded-collider')
        if got.get(False) and got.get(True) is not None and set(got[False]) - set(got[True]):
            tags.append('has-shielded-collider')
        return {'lines': lines, 'impl': impl, 'oracle': oracle, 'nontrivial': bool(got.get(False)),
                'key': f'mixed:{n}:{ht}', 'tags': tags}
