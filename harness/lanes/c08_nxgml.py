"""
C08 / C09, third-party half: the GML TEXT layer of networkx 3.2.1 (`networkx.readwrite.gml`: `escape`, `unescape`,
`generate_gml`, `parse_gml`) against its Lean transcription (`CG.NxGml`, handler token `nxgml`).

`CausalGraph.to_gml_string()` is `'\\n'.join(networkx.generate_gml(self.to_networkx()))`, `from_gml_string(gml)` calls
`networkx.parse_gml(gml)`.  NOT a full lane: the C08 / C09 lanes import

    nxgml_lines(kind, *args)  -> [(line, expected_reply), ...]

and append every `line` to their `lines` and every `expected_reply` to their `impl`.  `expected_reply` comes from the REAL
networkx routine:

    kind      args                      real call                                                expected reply
    'gen'     directed, names, edges    '\\n'.join(generate_gml(G)), G = fresh DiGraph / Graph    hex of the text
                                        with the names and the edges added in that order         (the request carries list(G.edges))
    'parse'   text                      G = parse_gml(text)                                      `<0|1> <items> <item>item,...`
                                                                                                 | err <Class> | unsupported
    'esc'     text                      gml.escape(text)                                         hex
    'unesc'   text                      gml.unescape(text)                                       hex | err ValueError | unsupported

An item is the hex of a `str` node (`-` = empty), `i<decimal>` for an `int` node, `t` for the node `()`; when every node
is a string this is `hxlist` / `hxedges`.

EXCLUSIONS (explicit, counted, never silent):
  * `can_send(text)`: a text with a lone surrogate has no UTF-8 form, so it cannot travel over the protocol (and is not a
    Lean `String`); `nxgml_lines` raises ValueError on it.
  * model reply `unsupported` (the model documents exactly when: a float that is needed as a value, a true `multigraph`,
    a character reference to a surrogate): such a pair is not a disagreement IF `may_be_unsupported(text)` holds (the
    text has a `.`, `INF`, `NAN`, `multigraph`, or a surrogate character reference); an `unsupported` on any other text IS a disagreement.  When networkx answers with a node that is
    not a `str` / `int` / `()` (a float) the expected reply is `unsupported` as well.
  * nesting deeper than Python's recursion limit (`RecursionError`) is never generated.

    self_test()   label pools x random (di)graphs -> gen, parse of the generated text (round trip), esc / unesc; hand-made
                  texts; mutated texts (token-level fuzzing of generated texts); grammar-based random texts (mostly
                  broken: `_rand_gml`, mostly valid in free layout: `_valid_gml`); returns the list of disagreements.
"""
from __future__ import annotations

import random
import re
import sys
import time

from harness.core import hx, hxedges, hxlist

_SURR_REF = re.compile(r'&#(?:([0-9]+)|x([0-9A-Fa-f]+));')


def can_send(text):
    try:
        text.encode('utf-8')
        return True
    except UnicodeEncodeError:
        return False


def _has_surrogate_ref(text):
    for m in _SURR_REF.finditer(text):
        try:
            code = int(m.group(1)) if m.group(1) is not None else int(m.group(2), 16)
        except ValueError:
            continue
        if 0xD800 <= code <= 0xDFFF:
            return True
    return False


def may_be_unsupported(text):
    """the documented circumstances in which the model may answer `unsupported`"""
    return '.' in text or 'INF' in text or 'NAN' in text or 'multigraph' in text or _has_surrogate_ref(text)


def _graph(names, edges, directed=True):
    import networkx as nx
    G = nx.DiGraph() if directed else nx.Graph()
    G.add_nodes_from(names)
    G.add_edges_from(edges)
    return G


def _item(x):
    if isinstance(x, str):
        if not can_send(x):
            raise _Unsupported()
        return hx(x)
    if isinstance(x, bool):
        raise _Unsupported()
    if isinstance(x, int):
        return 'i%d' % x
    if x == () and isinstance(x, tuple):
        return 't'
    raise _Unsupported()


class _Unsupported(Exception):
    pass


def _join(xs):
    xs = list(xs)
    return ','.join(xs) if xs else '.'


def gen_expected(directed, names, edges):
    """(list(G.edges), the text networkx writes)"""
    import networkx as nx
    G = _graph(names, edges, directed)
    return list(G.edges), '\n'.join(nx.generate_gml(G))


def parse_expected(text):
    import networkx as nx
    try:
        G = nx.parse_gml(text)
    except RecursionError:
        raise
    except Exception as e:  # noqa: BLE001 - the class name is the observation
        return 'err ' + type(e).__name__
    if G.is_multigraph():
        return 'unsupported'
    try:
        nodes = _join(_item(n) for n in G.nodes)
        edges = _join(_item(u) + '>' + _item(v) for u, v in G.edges)
    except _Unsupported:
        return 'unsupported'
    return f'{1 if G.is_directed() else 0} {nodes} {edges}'


def esc_expected(text):
    from networkx.readwrite import gml
    return hx(gml.escape(text))


def unesc_expected(text):
    from networkx.readwrite import gml
    try:
        r = gml.unescape(text)
    except Exception as e:  # noqa: BLE001
        return 'err ' + type(e).__name__
    return hx(r) if can_send(r) else 'unsupported'


def nxgml_lines(kind, *args):
    """[(request line for the Lean driver, reply the real networkx routine gives)]"""
    if kind == 'gen':
        directed, names, edges = args
        names, edges = list(names), [tuple(e) for e in edges]
        if not all(can_send(n) for n in names):
            raise ValueError('label with a lone surrogate cannot be sent')
        view, text = gen_expected(directed, names, edges)
        return [(f'nxgml gen {1 if directed else 0} {hxlist(names)} {hxedges(view)}', hx(text))]
    if kind == 'parse':
        (text,) = args
        if not can_send(text):
            raise ValueError('text with a lone surrogate cannot be sent')
        return [(f'nxgml parse {hx(text)}', parse_expected(text))]
    if kind == 'esc':
        (text,) = args
        return [(f'nxgml esc {hx(text)}', esc_expected(text))]
    if kind == 'unesc':
        (text,) = args
        return [(f'nxgml unesc {hx(text)}', unesc_expected(text))]
    raise ValueError(kind)


# ----------------------------------------------------------------------------------------------
# self test
# ----------------------------------------------------------------------------------------------

POOLS = {
    'ascii': ['a', 'b', 'c', 'x1', 'Y_2', 'node', 'foo bar', 'Z'],
    'blanks': [' ', '  ', ' a', 'a ', 'a b', '\t', ' \t '],
    'digits': ['0', '1', '2', '10', '007', '-1', '+1', '42'],
    'quotes': ['"', '""', 'a"b', "'", '"a"', 'a\\"b', '\\'],
    'amp': ['&', '&&', 'a&b', '&;', '&#;', '&#x;', '& #38;'],
    'entities': ['&amp;', '&lt;', '&quot;', '&#38;', '&#x26;', '&amp;amp;', '&nbsp;', '&bogus;', '&#1114112;', '&#0;',
                 '&amp', 'amp;', '&#65', '&#x41;', '&AMP;', '&#X41;', '&Alpha;', '&#00065;'],
    'hash': ['#', '# c', 'a#b', '#"', '"#'],
    'brackets': ['[', ']', '[]', '[ ]', '()', '( )', '[x]', '(1, 2)', '[1]', ']['],
    'unicode': ['é', 'ß', 'Ω', '日本', 'a b', ' ', '\u0085', '😀', '𝔘', '\U0010ffff', 'é', '\x7f', '\x00',
                '\x1b'],
    'newlines': ['\n', 'a\nb', '\r\n', '\r', 'a\tb', '\x0b', '\x0c', '\x1c', '\x1e', 'x\n'],
    'numbers': ['1', '1.5', '1e5', 'nan', 'inf', 'NAN', 'INF', '+INF', '-INF', '0x10', '1_000', 'None', 'True', '1.', '.5',
                '1E+5', '-0'],
    'literals': ['(1, 2)', '()', '[]', '{}', "''", '""', 'None', '_networkx_list_start', 'label', 'id'],
    'empty': ['', 'a', ' '],
}


def _rand_graph(rng, pool, directed):
    n = rng.choice([0, 0, 1, 1, 2, 3, 4, 5, 6]) if rng.random() < 0.7 else rng.randint(0, min(len(pool), 12))
    n = min(n, len(pool))
    names = rng.sample(pool, n)
    dens = rng.choice([0.0, 0.1, 0.3, 0.6, 1.0])
    edges = [(a, b) for a in names for b in names if rng.random() < dens]
    rng.shuffle(edges)
    if directed is False:
        seen, es = set(), []
        for a, b in edges:
            if frozenset((a, b)) not in seen:
                seen.add(frozenset((a, b)))
                es.append((a, b))
        edges = es
    return names, edges


HAND = [
    '',
    'graph [ ]',
    'graph []',
    'graph [\n]',
    'graph [ directed 1 ]',
    'graph [ directed 0 node [ id 0 label "a" ] ]',
    '# a comment\ngraph [ # another\n node [ id 0 label "a" ] # c\n]',
    'graph [\r\n  node [\r\n    id 0\r\n    label "a"\r\n  ]\r\n]\r\n',
    'graph [\r  node [ id 0 label "a" ]\r]',
    '   graph   [   node   [   id   0   label   "a"   ]   ]   ',
    '\tgraph\t[\tnode\t[\tid\t0\tlabel\t"a"\t]\t]',
    'graph [ node [ id 0 label "a" ] node [ id 1 label "b" ] edge [ source 0 target 1 ] ]',
    'graph [ node [ id 0 label "a" ] node [ id 1 label "b" ] edge [ source 1 target 0 ] edge [ source 0 target 1 ] ]',
    'graph [ directed 1 node [ id 0 label "a" ] node [ id 1 label "b" ] edge [ source 1 target 0 ] edge [ source 0 target 1 ] ]',
    'graph [ node [ id 0 label "a" ] node [ id 0 label "b" ] ]',
    'graph [ node [ id 0 label "a" ] node [ id 1 label "a" ] ]',
    'graph [ node [ id 0 ] ]',
    'graph [ node [ label "a" ] ]',
    'graph [ node [ id 0 label "a" ] edge [ source 0 target 1 ] ]',
    'graph [ node [ id 0 label "a" ] edge [ source 1 target 0 ] ]',
    'graph [ node [ id 0 label "a" ] edge [ target 0 ] ]',
    'graph [ node [ id 0 label "a" ] edge [ source 0 ] ]',
    'graph [ node [ id 0 label "a" ] edge [ source 0 target 0 ] edge [ source 0 target 0 ] ]',
    'graph [ node [ id 0 label "a" ] node [ id 1 label "b" ] edge [ source 0 target 1 ] edge [ source 1 target 0 ] ]',
    'graph [ directed 1 node [ id 0 label "a" ] node [ id 1 label "b" ] edge [ source 0 target 1 ] edge [ source 0 target 1 ] ]',
    'graph [ node [ id 0 label "a" graphics [ x 1 y 2 fill "#ff0000" w [ q 1 ] ] ] ]',
    'graph [ node [ id 0 label "a" foo 1 foo 2 foo 3 ] ]',
    'graph [ node [ id 0 label "a" foo "_networkx_list_start" foo 2 ] ]',
    'graph [ comment "x" creator "me" node [ id 0 label "a" ] ]',
    'graph [ node [ id 0 label "a" ] ] graph [ ]',
    'node [ id 0 label "a" ]',
    'graph 5',
    'graph "x"',
    'graph "[]"',
    'graph "()"',
    'graph [ node 5 ]',
    'graph [ node "x" ]',
    'graph [ node "[]" ]',
    'graph [ node "()" ]',
    'graph [ node [ ] ]',
    'graph [ edge 5 ]',
    'graph [ edge "[]" ]',
    'graph [ edge "[]" edge [ source 0 target 0 ] ]',
    'graph [ node [ id 0 label "a" ] node "[]" ]',
    'graph [ node "[]" node "[]" ]',
    'graph [ node "()" node [ id 0 label "a" ] ]',
    'graph [ node [ id 0 label "()" ] ]',
    'graph [ node [ id 0 label "[]" ] ]',
    'graph [ node [ id "()" label "a" ] ]',
    'graph [ node [ id "[]" label "a" ] ]',
    'graph [ node [ id [ ] label "a" ] ]',
    'graph [ node [ id 0 label [ ] ] ]',
    'graph [ node [ id 0 label [ a 1 ] ] ]',
    'graph [ node [ id 0 id 1 label "a" ] ]',
    'graph [ node [ id 0 label "a" label "b" ] ]',
    'graph [ node [ id 0 label 5 ] ]',
    'graph [ directed 1 node [ id 0 label 1 ] node [ id 1 label 0 ] edge [ source 0 target 1 ] ]',
    'graph [ node [ id 0 label 1 ] node [ id 1 label 2 ] node [ id 2 label 0 ] edge [ source 2 target 1 ] edge [ source 0 target 2 ] ]',
    'graph [ node [ id 5 label "a" ] node [ id 3 label "b" ] node [ id 4 label "c" ] edge [ source 4 target 5 ] edge [ source 3 target 4 ] edge [ source 5 target 3 ] edge [ source 4 target 4 ] ]',
    'graph [ directed 1 node [ id 5 label "a" ] node [ id 3 label "b" ] node [ id 4 label "c" ] edge [ source 4 target 5 ] edge [ source 3 target 4 ] edge [ source 5 target 3 ] edge [ source 4 target 4 ] edge [ source 5 target 4 ] ]',
    'graph [ node [ id "a" label "b" ] node [ id "b" label "a" ] edge [ source "a" target "b" ] edge [ source "b" target "b" ] ]',
    'graph [ node [ id 0 label 5 ] node [ id 1 label "5" ] ]',
    'graph [ node [ id 0 label 5 ] node [ id 1 label 5 ] ]',
    'graph [ node [ id 0 label +5 ] node [ id 1 label -5 ] node [ id 2 label -0 ] ]',
    'graph [ node [ id "0" label "a" ] node [ id 0 label "b" ] edge [ source "0" target 0 ] ]',
    'graph [ node [ id abc label def ] edge [ source abc target abc ] ]',
    'graph [ node [ id 0 label ] ]',
    'graph [ node [ id 0 label ] ] ]',
    'graph [ node [ id 0 label',
    'graph [ node [ id',
    'graph [ node [ id ] label "a" ]',
    'graph [ node [ id 0 label NAN ] ]',
    'graph [ node [ id 0 label INF ] ]',
    'graph [ node [ id 0 label "a" w NAN ] ]',
    'graph [ node [ id 0 label "a" w INF ] ]',
    'graph [ node [ id 0 label "a" w nan ] ]',
    'graph [ node [ id 0 label "a" w +INF ] ]',
    'graph [ node [ id 0 label "a" w -INF ] ]',
    'graph [ node [ id 0 label "a" w +INFe5 ] ]',
    'graph [ node [ id 0 label "a" w 1.5 ] ]',
    'graph [ node [ id 0 label "a" w 1.5e10 w2 .5 w3 5. w4 1.e5 w5 1e5 ] ]',
    'graph [ node [ id 1.5 label "a" ] ]',
    'graph [ node [ id 0 label 1.5 ] ]',
    'graph [ directed 1.5 ]',
    'graph [ directed 0.0 ]',
    'graph [ directed "" ]',
    'graph [ directed "x" ]',
    'graph [ directed "()" ]',
    'graph [ directed "[]" ]',
    'graph [ directed [ ] ]',
    'graph [ directed [ a 1 ] ]',
    'graph [ directed 1 directed 0 ]',
    'graph [ directed -1 ]',
    'graph [ directed 00 ]',
    'graph [ multigraph 1 ]',
    'graph [ multigraph 0 node [ id 0 label "a" ] ]',
    'graph [ multigraph "" ]',
    'graph [ node [ id 0 label "a" self 1 ] ]',
    'graph [ node [ id 0 label "a" node_for_adding 1 ] ]',
    'graph [ node [ id 0 label "a" attr 1 ] ]',
    'graph [ node [ id 0 label "a" ] edge [ source 0 target 0 self 1 ] ]',
    'graph [ node [ id 0 label "a" ] edge [ source 0 target 0 u_of_edge 1 ] ]',
    'graph [ node [ id 0 label "a" ] edge [ source 0 target 0 v_of_edge 1 ] ]',
    'graph [ node [ id 0 label "a" ] edge [ source 0 target 0 weight 3 ] ]',
    'graph [ node [ id 0 label "a" ] edge [ source [ ] target 0 ] ]',
    'graph [ node [ id 0 label "a" ] edge [ source "[]" target 0 ] ]',
    'graph [ node [ id 0 label "a" ] edge [ source 0 target "()" ] ]',
    'graph [ node [ id 0 label "a\nb" ] ]',
    'graph [ node [ id 0 label "a   \n   b" ] ]',
    'graph [ node [ id 0 label "a   \n   b"\n ] ]',
    'graph [ node [ id 0 label "a \t \n \t b  \n  c"\n] ]  ',
    'graph [ node [ id 0 label "a\n\n\nb"\n] ]',
    'graph [ node [ id 0 label "a\nb"\n] ]',
    'graph [ node [ id 0 label "a\n  "\n] ]',
    'graph [ node [ id 0 label "a\n  " \n] ]',
    'graph [ node [ id 0 label "a\xa0\n\xa0b"\n] ]',
    'graph [ node [ id 0 label "a\n b w "c"\n] ]',
    'graph [\n node [ id 0 label "a\n b"\n ]\n node [ id 1 label "c\n\td"\n ]\n]',
    'graph [ node [ id 0 label "a \t \n \t b  \n  c" ] ]  ',
    '  graph [ node [ id 0 label "  a\xa0\n\xa0b  " ] ]',
    'graph [ node [ id 0 label x ' + '1' * 4301 + ' ] ]',
    'graph [ node [ id 0 label x +INFe5 ] ]',
    'graph [ node [ id ] +INFe5 label "a" ] ]',
    'graph [ node [ id 0 label x $ ] ]',
    'graph [ node [ id 0 label x\nw "a\n\nb" ] ]',
    'graph [ node [ id 0 label x w "a\n\nb" ] ]',
    'graph [ node [ id 0 label "a" w x\nw "a\n\nb" ] ]',
    'graph [ node "_networkx_list_start" node [ id 0 label "a" ] ]',
    'graph [ node [ id 0 label "a" ] edge "_networkx_list_start" edge [ source 0 target 0 ] ]',
    'graph [ node "_networkx_list_start" node [ id 0 label "a" ] node [ id 1 label "b" ] ]',
    'graph [ node [ id 0 label "a" ] node "_networkx_list_start" ]',
    'graph [ node "_networkx_list_start" ]',
    'graph [ directed "_networkx_list_start" directed 0 ]',
    'graph [ node [ id "_networkx_list_start" id 0 label "a" ] ]',
    'graph [ node [ id 0 label "a\n\nb" ] ]',
    'graph [ node [ id 0 label "a\n b \nc" ] ]',
    'graph [ node [ id 0 label "a\n" ] ]',
    'graph [ node [ id 0 label "\nb" ] ]',
    'graph [ node [ id 0 label "a',
    'graph [ node [ id 0 label "a\nb',
    '"a\nb"',
    'graph [ node [ id 0 label "a" ] ] "',
    'graph [ node [ id 0 label "a"x ] ]',
    'graph [ node [ id 0 label "a""b" ] ]',
    'graph [ node [ id 0 label "&amp;&lt;&#65;&#x42;&bogus;&#1114112;&#xFFFFFFFFFF;" ] ]',
    'graph [ node [ id 0 label "&#55296;" ] ]',
    'graph [ node [ id 0 label "&#xD800;" ] ]',
    'graph [ node [ id 0 label "&#' + '1' * 4301 + ';" ] ]',
    'graph [ node [ id 0 label "&#' + '0' * 4300 + ';" ] ]',
    'graph [ node [ id 0 label "&#x' + '0' * 5000 + '41;" ] ]',
    'graph [ node [ id ' + '1' * 4301 + ' label "a" ] ]',
    'graph [ node [ id ' + '1' * 4300 + ' label "a" ] ]',
    'graph [ node [ id -' + '0' * 4301 + ' label "a" ] ]',
    'graph [ node [ id 0 label ' + '1' * 4301 + ' ] ]',
    'graph [ x ' + '1' * 4301 + ' ]',
    'graph [ x ] y ' + '1' * 4301,
    'graph [ node [ id 0 label "a" ] ] ' + '1' * 4301,
    'graph [ node [ id 0 label "a" ] ] $',
    'graph [ node [ id 0 label "a" ] $ ]',
    'graph $',
    '$',
    'graph [ 5 ]',
    'graph [ "x" ]',
    'graph [ [ ] ]',
    'graph [ ] ]',
    'graph [ [',
    'graph [ a [ b [ c [ d 1 ] ] ] ]',
    'graph [ a [ b [ c [ d 1 ] ] ]',
    'graph [ node [ id 0 label "a" ] Node [ id 1 label "b" ] ]',
    'graph [ node_ 1 n0de 2 _x 3 ]',
    'graph [ 1x 2 ]',
    'graph [ x1 2 ]',
    'graph [ x 1y ]',
    'graph [ x 1 y ]',
    'graph [ x -  1 ]',
    'graph [ x - ]',
    'graph [ x 1e5 ]',
    'graph [ x 1e ]',
    'graph [ x 1.e ]',
    'graph [ x . ]',
    'graph [ x .e5 ]',
    'graph[node[id 0label"a"]]',
    'graph[node[id 0 label"a"]edge[source 0target 0]]',
    'graph [ node [ id 0 label "a" ] ]#',
    'graph [ node [ id 0 label "a#b" ] ]',
    'graph [ node [ id 0 # label "zz"\n label "a" ] ]',
    'graph [ node [ id 0 label "a" ] ]',
    'graph [ node [ id 0 label "é" ] ]',
    'graph [ nodé 1 ]',
    'graph [ node [ id 0 label "a" ] ]',
    'graph [ node [ id 0 label "a" ] ]',
    'graph [ x 1é ]',
    'graph [ é 1 ]',
    'graph [ node [ id 0 label "a" ] ]\x0c\x0b\x1c\x1d\x1e\x85 ',
    'graph [ node [ id 0 label "a\x1fb" ] ]\x1f',
    'graph [ node [ id 0 label "a\x0bb" ] ]',
    'graph [ node [ id 0 label "a\x0b\x0bb" ] ]',
    'graph [ node [ id 0 label "a\r\nb" ] ]',
    'graph [ node [ id 0 label "a\n\rb" ] ]',
]

_PIECES = ['"', '[', ']', '#', ' ', ' ', '\n', '\r\n', '\t', '0', '1', '7', '.', 'e', 'E', '+', '-', 'INF', 'NAN', '&amp;',
           '&#65;', '&#x41;', '&', ';', 'id', 'label', 'source', 'target', 'node', 'edge', 'graph', ' directed 0 ',
           ' directed 1 ', ' multigraph 1 ', '"()"', '"[]"', '"_networkx_list_start"', ' ', ' ', 'é', '_', 'x',
           ' w 3 ', ' w "s" ', ' w [ q 1 ] ', ' id 0 ', ' label "a" ', ' node [ id 9 label "n9" ] ',
           ' edge [ source 0 target 0 ] ', '\x0b', '\x1f', '&#55296;', ' self 1 ', '\u2028', '\u3000', '\x85', '\x1c',
           '\xa0', '\r', '#x', '# "', 'label "a\nb"\n', ' \n b"\n', '9' * 20, '-', '+5', '00', ' 1.5 ', '()', '[]']


def _mutate(rng, text):
    k = rng.choice([1, 1, 1, 2, 2, 3, 5])
    s = text
    for _ in range(k):
        op = rng.random()
        i = rng.randint(0, len(s))
        if op < 0.45:
            s = s[:i] + rng.choice(_PIECES) + s[i:]
        elif op < 0.75 and s:
            j = min(len(s), i + rng.choice([1, 1, 2, 4, 8]))
            s = s[:i] + s[j:]
        elif op < 0.9 and s:
            j = min(len(s), i + rng.choice([1, 2, 4]))
            s = s[:i] + rng.choice(_PIECES) + s[j:]
        else:
            # swap two lines
            ls = s.split('\n')
            if len(ls) > 2:
                a, b = rng.sample(range(len(ls)), 2)
                ls[a], ls[b] = ls[b], ls[a]
                s = '\n'.join(ls)
    return s


def _rand_value(rng, depth):
    r = rng.random()
    if r < 0.3:
        return str(rng.choice([0, 1, 2, 3, -1, 10, '+4', '007']))
    if r < 0.55:
        return '"' + rng.choice(['a', 'b', '', '()', '[]', 'a b', '&amp;', '&#66;', '_networkx_list_start', '1', 'x"'[:1]]) + '"'
    if r < 0.65:
        return rng.choice(['1.5', '.5', '2.', '1e3', '+INF', '-INF', 'NAN', 'INF', 'abc', ']', ''])
    if depth > 3:
        return '1'
    return '[ ' + _rand_kvs(rng, depth + 1) + ' ]'


def _rand_kvs(rng, depth):
    keys = ['id', 'label', 'source', 'target', 'node', 'edge', 'graph', 'directed', 'multigraph', 'w', 'x', 'self']
    return ' '.join(rng.choice(keys) + ' ' + _rand_value(rng, depth) for _ in range(rng.randint(0, 4)))


def _rand_gml(rng):
    """grammar-based random GML: mostly well-formed key/value structure with odd values in odd places"""
    n = rng.randint(0, 4)
    ids = [rng.choice([str(i), str(i), '"%d"' % i, 'n%d' % i, '"()"']) for i in range(n)]
    parts = []
    if rng.random() < 0.5:
        parts.append('directed ' + rng.choice(['0', '1', '1', '"x"', '""', '[ ]', '2', '-0']))
    if rng.random() < 0.1:
        parts.append('multigraph ' + rng.choice(['0', '1', '""']))
    for i in range(n):
        lab = rng.choice(['"L%d"' % i, '"L%d"' % i, '"L%d"' % (i // 2), str(i), '"()"', '"[]"', 'k%d' % i, '[ ]'])
        extra = _rand_kvs(rng, 2) if rng.random() < 0.2 else ''
        fields = ['id ' + ids[i], 'label ' + lab, extra]
        if rng.random() < 0.1:
            fields.pop(rng.randint(0, 1))
        if rng.random() < 0.2:
            rng.shuffle(fields)
        parts.append('node [ ' + ' '.join(fields) + ' ]')
    for _ in range(rng.randint(0, 5)):
        pool = ids + ['99', '"zz"']
        fields = ['source ' + rng.choice(pool), 'target ' + rng.choice(pool)]
        if rng.random() < 0.1:
            fields.pop(rng.randint(0, 1))
        if rng.random() < 0.15:
            fields.append(_rand_kvs(rng, 2))
        parts.append('edge [ ' + ' '.join(fields) + ' ]')
    if rng.random() < 0.3:
        rng.shuffle(parts)
    sep = rng.choice([' ', '\n', '\n  ', '\r\n', ' # c\n'])
    return 'graph [' + sep + sep.join(parts) + sep + ']'


def _valid_gml(rng):
    """mostly VALID texts in free layout: ids that are ints / strings / keys, labels of several types, attributes, comments,
    odd white space and line ends; a few defects (duplicate, unknown end point) at the end"""
    n = rng.randint(0, 6)
    style = rng.choice(['int', 'int', 'str', 'key', 'mixed'])

    def mkid(i):
        st = style if style != 'mixed' else rng.choice(['int', 'str', 'key'])
        return {'int': str(i * rng.choice([1, 1, 3]) if style != 'mixed' else i), 'str': '"n%d"' % i, 'key': 'k%d' % i}[st]
    ids = [mkid(i) for i in range(n)]
    if len(set(ids)) < n:
        ids = [str(i) for i in range(n)]
    labs = rng.sample(['"a"', '"b"', '"c d"', '"&amp;"', '"&#65;&#x42;"', '"e#f"', '"[x]"', '""', '7', '-3', 'z9', '"()"',
                       '"0"', '"g\\h"', '"i;"', 'INF', 'NAN', 'None'], n)
    ws = lambda: rng.choice([' ', ' ', '  ', '\n', '\n    ', '\t', '\r\n', ' # note\n', '\u2028', '\x0c', '\xa0', '\x1f'])
    parts = []
    if rng.random() < 0.6:
        parts.append('directed' + ws() + rng.choice(['1', '1', '0', '"y"', '7', '-1', '""', '00']))
    if rng.random() < 0.2:
        parts.append('name' + ws() + rng.choice(['"g"', '5', '[ a 1 ]', '1.5']))
    for i in range(n):
        fields = ['id' + ws() + ids[i], 'label' + ws() + labs[i]]
        if rng.random() < 0.3:
            fields.append(rng.choice(['w 1', 'w "x"', 'g [ x 1 y [ z 2 ] ]', 'w 1 w 2', 'w 2.5', 'w -INF', 'w NAN']))
        rng.shuffle(fields)
        parts.append('node' + ws() + '[' + ws() + ws().join(fields) + ws() + ']')
    es = []
    if n:
        for _ in range(rng.randint(0, 2 * n)):
            a, b = rng.randrange(n), rng.randrange(n)
            if (a, b) not in es and (rng.random() < 0.1 or (b, a) not in es):
                es.append((a, b))
    for a, b in es:
        fields = ['source' + ws() + ids[a], 'target' + ws() + ids[b]]
        if rng.random() < 0.2:
            fields.append(rng.choice(['weight 3', 'label "e"', 'k [ ]']))
        rng.shuffle(fields)
        parts.append('edge' + ws() + '[' + ws() + ws().join(fields) + ws() + ']')
    if rng.random() < 0.3:
        rng.shuffle(parts)
    r = rng.random()
    if r < 0.05 and n:
        parts.append('node [ id ' + ids[0] + ' label "dup" ]')
    elif r < 0.1 and n:
        parts.append('node [ id 999 label ' + labs[0] + ' ]')
    elif r < 0.15:
        parts.append('edge [ source 0 target 12345 ]')
    return rng.choice(['', '# head\n', ' ']) + 'graph' + ws() + '[' + ws() + ws().join(parts) + ws() + ']' + rng.choice(['', '\n', ' # end'])


def self_test(seed=1, verbose=True, rounds=1200, fuzz=25000, grammar=12000, valid=12000):
    """returns the list of disagreements `(line, networkx reply, model reply)`; empty = agreement"""
    from harness.core import ModelClient
    t0 = time.time()
    rng = random.Random(seed)
    mc = ModelClient()
    bad = []
    stats = {'gen': 0, 'parse': 0, 'esc': 0, 'unesc': 0, 'err': 0, 'unsupported_ok': 0, 'roundtrip_same': 0,
             'roundtrip_mangled': 0}
    batch = []

    def flush():
        if not batch:
            return
        replies = mc.ask([ln for ln, _, _ in batch])
        for (ln, exp, text), got in zip(batch, replies):
            k = ln.split(' ')[1]
            stats[k] += 1
            if exp.startswith('err'):
                stats['err'] += 1
            if got == 'unsupported' and (exp == 'unsupported' or (text is not None and may_be_unsupported(text))):
                stats['unsupported_ok'] += 1
                continue
            if got != exp:
                bad.append((ln if len(ln) < 600 else ln[:600] + '...', exp, got))
        batch.clear()

    def add(pairs, text=None):
        for ln, exp in pairs:
            batch.append((ln, exp, text))
        if len(batch) >= 500:
            flush()

    try:
        texts = []
        pools = dict(POOLS)
        pools['mixed'] = sorted({x for p in POOLS.values() for x in p})
        for name, pool in pools.items():
            for x in pool:
                add(nxgml_lines('esc', x))
                add(nxgml_lines('unesc', x), x)
                from networkx.readwrite import gml as _g
                add(nxgml_lines('unesc', _g.escape(x)), x)
            for _ in range(rounds if name == 'mixed' else max(20, rounds // 8)):
                directed = rng.random() < 0.6
                names, edges = _rand_graph(rng, pool, directed)
                add(nxgml_lines('gen', directed, names, edges))
                view, text = gen_expected(directed, names, edges)
                pairs = nxgml_lines('parse', text)
                want = f'{1 if directed else 0} {hxlist(names)} {hxedges(view)}'
                if pairs[0][1] == want:
                    stats['roundtrip_same'] += 1
                else:
                    stats['roundtrip_mangled'] += 1
                    if not ({'()', '[]'} & set(names)):
                        bad.append(('round trip differs without a mangled label', want, pairs[0][1]))
                add(pairs, text)
                texts.append(text)
        for t in HAND:
            add(nxgml_lines('parse', t), t)
        for _ in range(fuzz):
            base = rng.choice(texts) if rng.random() < 0.8 else rng.choice(HAND)
            if len(base) > 3000:
                continue
            t = _mutate(rng, base)
            if can_send(t):
                add(nxgml_lines('parse', t), t)
        for _ in range(grammar):
            t = _rand_gml(rng)
            if rng.random() < 0.15:
                t = _mutate(rng, t)
            add(nxgml_lines('parse', t), t)
        n_ok = 0
        for _ in range(valid):
            t = _valid_gml(rng)
            pairs = nxgml_lines('parse', t)
            n_ok += not pairs[0][1].startswith(('err', 'unsupported'))
            add(pairs, t)
            if rng.random() < 0.3:
                t2 = _mutate(rng, t)
                if can_send(t2):
                    add(nxgml_lines('parse', t2), t2)
        stats['valid_ok'] = n_ok
        # `\\b` after a key: `INFe5<ch>` is a REALS token on which float() raises ValueError iff <ch> is a word character
        # (otherwise it is the key `INFe5`, and the text ends in NetworkXError): every boundary of str.isalnum() and a sample
        pts = set(range(0x7b, 0x180)) | {rng.randrange(128, 0x110000) for _ in range(3000)}
        prev = False
        for c in range(128, 0x110000):
            w = chr(c).isalnum()
            if w != prev:
                pts.update((c - 1, c, c + 1))
                prev = w
        n_word = 0
        for c in sorted(pts):
            if 0xD800 <= c <= 0xDFFF or c >= 0x110000:
                continue
            t = 'graph [ x INFe5' + chr(c) + ' ]'
            pairs = nxgml_lines('parse', t)
            n_word += pairs[0][1] == 'err ValueError'
            add(pairs, None)
        stats['word_boundary_points'] = len(pts)
        stats['word_chars'] = n_word
        for _ in range(1500):
            t = ''.join(rng.choice(['&', '#', 'x', ';', 'a', '1', 'F', 'g', 'amp', 'lt', '38', ' ', '"', 'é', 'X', '0'])
                        for _ in range(rng.randint(0, 9)))
            add(nxgml_lines('unesc', t), t)
            add(nxgml_lines('esc', t))
        flush()
    finally:
        mc.close()
    if verbose:
        print(f'nxgml self_test: {stats}, disagreements {len(bad)}, {time.time() - t0:.1f}s', file=sys.stderr, flush=True)
        for b in bad[:25]:
            print('DISAGREE', b, file=sys.stderr)
    return bad


if __name__ == '__main__':
    sys.exit(1 if self_test(seed=int(sys.argv[1]) if len(sys.argv) > 1 else 1) else 0)
