"""
C11, third-party half, part 2: `networkx.minimal_d_separator` / `networkx.is_minimal_d_separator` (3.2.1) against their
Lean transcription (`CG.NxMinSep`, handler token `nxmin`).

NOT a full lane: the C11 lane imports

    nxmin_lines(names, edges, u, v, Z=None)  -> [(line, expected_reply), ...]

and appends every `line` to its `lines` and every `expected_reply` to its `impl`.  With `Z is None` the pair list holds
the one query `nxmin sep` (what `minimal_d_separator(G, u, v)` returns, sorted); with a collection `Z` it holds the one
query `nxmin ismin` (what `is_minimal_d_separator(G, u, v, set(Z))` returns).  `expected_reply` comes from the REAL
networkx function on a fresh `DiGraph` holding `names` (in that order) and `edges` (in that order): the sorted hex list /
`1` / `0`, or `err <ExceptionClassName>` (`NetworkXError` for a cyclic graph, `NodeNotFound` for an unknown node, in the
order networkx makes the checks).

Model side (lean/CG/Driver/HNxMin.lean):

    nxmin sep   <nodes> <edges> <u> <v>                  -> sorted hxlist | err NetworkXError | err NodeNotFound
    nxmin ismin <nodes> <edges> <u> <v> <Z>              -> 1 | 0 | err NetworkXError | err NodeNotFound
    nxmin marks <nodes> <edges> <u> <v> <start> <check>  -> sorted hxlist | err NetworkXError
    nxmin moral <nodes> <edges> <u> <v>                  -> sorted hxedges (smaller end first) | err NetworkXError

What is proved about the model (lean/CG/Proofs/C11MinSep.lean): see the header of that file.

Extra helpers for a stronger tie (optional):

    nxmin_marks_lines(names, edges, u, v, start, check) -> [(line, expected)]  the private `_bfs_with_marks` on the moral
                                                           graph of the ancestral sub-graph of {u, v}
    nxmin_moral_lines(names, edges, u, v)               -> [(line, expected)]  the edges of that moral graph

    self_test(n_max=5)   every labelled DAG with at most n_max nodes (plus cyclic graphs and unknown nodes) through a
                         `harness.core.ModelClient`; returns the list of disagreements (empty = agreement)
"""
from __future__ import annotations

import itertools
import random
import sys
import time

from harness.core import hx, hxedges, hxlist


def _graph(names, edges):
    import networkx as nx
    G = nx.DiGraph()
    G.add_nodes_from(names)
    G.add_edges_from(edges)
    return G


def _reply(f):
    try:
        r = f()
    except Exception as e:  # noqa: BLE001 - the class name is the observation
        return 'err ' + type(e).__name__
    if r is True:
        return '1'
    if r is False:
        return '0'
    return r


def sep_expected(names, edges, u, v):
    """canonical reply of the real networkx.minimal_d_separator"""
    import networkx as nx
    G = _graph(names, edges)
    return _reply(lambda: hxlist(sorted(nx.minimal_d_separator(G, u, v))))


def ismin_expected(names, edges, u, v, Z):
    """canonical reply of the real networkx.is_minimal_d_separator"""
    import networkx as nx
    G = _graph(names, edges)
    return _reply(lambda: nx.is_minimal_d_separator(G, u, v, set(Z)))


def _moral(G, u, v):
    """the first lines of minimal_d_separator, verbatim"""
    import networkx as nx
    x_anc = nx.ancestors(G, u)
    y_anc = nx.ancestors(G, v)
    D_anc_xy = x_anc.union(y_anc)
    D_anc_xy.update((u, v))
    return nx.moral_graph(G.subgraph(D_anc_xy))


def marks_expected(names, edges, u, v, start, check):
    from networkx.algorithms.d_separation import _bfs_with_marks
    G = _graph(names, edges)
    return _reply(lambda: hxlist(sorted(_bfs_with_marks(_moral(G, u, v), start, set(check)))))


def moral_expected(names, edges, u, v):
    G = _graph(names, edges)
    return _reply(lambda: hxedges(sorted({(min(a, b), max(a, b)) for a, b in _moral(G, u, v).edges})))


def nxmin_lines(names, edges, u, v, Z=None):
    """[(request line for the Lean driver, reply the real networkx function gives)]"""
    names, edges = list(names), [tuple(e) for e in edges]
    head = f'{hxlist(names)} {hxedges(edges)} {hx(u)} {hx(v)}'
    if Z is None:
        return [(f'nxmin sep {head}', sep_expected(names, edges, u, v))]
    Z = list(Z)
    return [(f'nxmin ismin {head} {hxlist(Z)}', ismin_expected(names, edges, u, v, Z))]


def nxmin_marks_lines(names, edges, u, v, start, check):
    names, edges, check = list(names), [tuple(e) for e in edges], list(check)
    return [(f'nxmin marks {hxlist(names)} {hxedges(edges)} {hx(u)} {hx(v)} {hx(start)} {hxlist(check)}',
             marks_expected(names, edges, u, v, start, check))]


def nxmin_moral_lines(names, edges, u, v):
    names, edges = list(names), [tuple(e) for e in edges]
    return [(f'nxmin moral {hxlist(names)} {hxedges(edges)} {hx(u)} {hx(v)}', moral_expected(names, edges, u, v))]


# ----------------------------------------------------------------------------------------------
# self test
# ----------------------------------------------------------------------------------------------

def _acyclic(n, edges):
    indeg = [0] * n
    out = [[] for _ in range(n)]
    for a, b in edges:
        indeg[b] += 1
        out[a].append(b)
    todo = [i for i in range(n) if indeg[i] == 0]
    seen = 0
    while todo:
        a = todo.pop()
        seen += 1
        for b in out[a]:
            indeg[b] -= 1
            if indeg[b] == 0:
                todo.append(b)
    return seen == n


def labelled_dags(n):
    """every DAG on the nodes 0..n-1 (edge sets), each once"""
    pairs = [(a, b) for a in range(n) for b in range(n) if a != b]
    ups = [(a, b) for a in range(n) for b in range(a + 1, n)]
    seen = set()
    for perm in itertools.permutations(range(n)):
        for mask in range(1 << len(ups)):
            es = frozenset((perm[a], perm[b]) for i, (a, b) in enumerate(ups) if mask >> i & 1)
            if es not in seen:
                seen.add(es)
                yield sorted(es)
    del pairs


def _subsets(xs):
    xs = list(xs)
    for r in range(len(xs) + 1):
        yield from itertools.combinations(xs, r)


class _Sink:
    """collects (line, expected) pairs, asks the driver in batches, keeps the disagreements"""

    def __init__(self):
        from harness.core import ModelClient
        self.mc = ModelClient()
        self.batch = []
        self.bad = []
        self.total = {'sep': 0, 'ismin': 0, 'marks': 0, 'moral': 0, 'err': 0}

    def add(self, pairs):
        for ln, exp in pairs:
            self.total[ln.split(' ')[1]] += 1
            if exp.startswith('err'):
                self.total['err'] += 1
            self.batch.append((ln, exp))
        if len(self.batch) >= 2000:
            self.flush()

    def flush(self):
        if self.batch:
            replies = self.mc.ask([ln for ln, _ in self.batch])
            for (ln, exp), got in zip(self.batch, replies):
                if got != exp:
                    self.bad.append((ln, exp, got))
            self.batch = []

    def close(self):
        try:
            self.flush()
        finally:
            self.mc.close()


_NAMES = ['a', 'b', 'c', 'd', 'e', 'f', 'g']


def _dag_share(args):
    """the DAGs on n nodes whose running number is idx modulo procs"""
    n, idx, procs, seed, full_z_upto = args
    import networkx as nx
    rng = random.Random(seed * 1000003 + n * 101 + idx)
    sink = _Sink()
    cnt = 0
    try:
        for k, es in enumerate(labelled_dags(n)):
            if k % procs != idx:
                continue
            cnt += 1
            names = _NAMES[:n]
            rng.shuffle(names)
            edges = [(_NAMES[a], _NAMES[b]) for a, b in es]
            rng.shuffle(edges)
            for u in names:
                for v in names:
                    sink.add(nxmin_lines(names, edges, u, v))
                    if n <= full_z_upto:
                        zs = list(_subsets(names))
                    else:
                        z0 = sorted(nx.minimal_d_separator(_graph(names, edges), u, v))
                        zs = {tuple(z0)}
                        for x in names:
                            zs.add(tuple(sorted(set(z0) ^ {x})))
                        for _ in range(3):
                            zs.add(tuple(sorted(x for x in names if rng.random() < 0.4)))
                        zs = sorted(zs)
                    for z in zs:
                        sink.add(nxmin_lines(names, edges, u, v, list(z)))
                    if n <= 3 or rng.random() < 0.05:
                        sink.add(nxmin_moral_lines(names, edges, u, v))
                        for _ in range(2):
                            start = rng.choice(names)
                            check = [x for x in names if rng.random() < 0.5]
                            sink.add(nxmin_marks_lines(names, edges, u, v, start, check))
    finally:
        sink.close()
    return cnt, sink.total, sink.bad


def _odd_share(args):
    """cyclic graphs (self loops included), unknown nodes, duplicates in Z"""
    count, seed = args
    rng = random.Random(seed * 7919 + 5)
    sink = _Sink()
    try:
        for _ in range(count):
            n = rng.randint(1, 5)
            names = _NAMES[:n]
            rng.shuffle(names)
            dens = rng.choice([0.05, 0.12, 0.3])
            edges = [(a, b) for a in names for b in names if rng.random() < dens]
            pool = names + ['zz']
            u, v = rng.choice(pool), rng.choice(pool)
            sink.add(nxmin_lines(names, edges, u, v))
            z = [x for x in pool if rng.random() < 0.35]
            if z and rng.random() < 0.3:
                z = z + [z[0]]
            sink.add(nxmin_lines(names, edges, u, v, z))
            sink.add(nxmin_moral_lines(names, edges, u, v))
            sink.add(nxmin_marks_lines(names, edges, u, v, rng.choice(pool), [x for x in pool if rng.random() < 0.5]))
    finally:
        sink.close()
    return count, sink.total, sink.bad


def _big_share(args):
    """random DAGs with 6..9 nodes: a few pairs each, Z = the returned set, its one-element variations, random sets"""
    count, seed, idx = args
    import networkx as nx
    rng = random.Random(seed * 104729 + idx)
    sink = _Sink()
    names9 = ['n%d' % i for i in range(9)]
    try:
        for _ in range(count):
            n = rng.randint(6, 9)
            order = names9[:n]
            rng.shuffle(order)
            dens = rng.choice([0.2, 0.35, 0.5])
            edges = [(order[i], order[j]) for i in range(n) for j in range(i + 1, n) if rng.random() < dens]
            rng.shuffle(edges)
            names = order[:]
            rng.shuffle(names)
            for _ in range(6):
                u, v = rng.choice(names), rng.choice(names)
                sink.add(nxmin_lines(names, edges, u, v))
                z0 = sorted(nx.minimal_d_separator(_graph(names, edges), u, v))
                zs = {tuple(z0)}
                for x in names:
                    zs.add(tuple(sorted(set(z0) ^ {x})))
                for _ in range(3):
                    zs.add(tuple(sorted(x for x in names if rng.random() < 0.3)))
                for z in sorted(zs):
                    sink.add(nxmin_lines(names, edges, u, v, list(z)))
                sink.add(nxmin_moral_lines(names, edges, u, v))
                sink.add(nxmin_marks_lines(names, edges, u, v, rng.choice(names),
                                           [x for x in names if rng.random() < 0.4]))
    finally:
        sink.close()
    return count, sink.total, sink.bad


def self_test(n_max=5, seed=1, verbose=True, full_z_upto=4, procs=8, big=1600):
    """Every labelled DAG with at most `n_max` nodes (1, 3, 25, 543, 29281, ... of them), node and edge order shuffled:
    `sep` for every ordered pair (u, v) -- adjacent pairs and u == v included --, `ismin` for every pair and every Z
    (all subsets when the graph has at most `full_z_upto` nodes; beyond that the returned set, its one-element
    variations and three random sets), `marks` / `moral` on a sample.  Then 3000 random digraphs that may be cyclic
    (self loops included) with unknown nodes and duplicated members of Z, then `big` random DAGs with 6..9 nodes (six
    pairs each).  Returns the list of disagreements
    `(line, networkx reply, model reply)` -- empty means agreement."""
    import multiprocessing as mp
    t0 = time.time()
    bad = []
    total = {'sep': 0, 'ismin': 0, 'marks': 0, 'moral': 0, 'err': 0}

    def merge(results):
        c = 0
        for cnt, tot, b in results:
            c += cnt
            for k, x in tot.items():
                total[k] += x
            bad.extend(b)
        return c

    with mp.Pool(procs) as pool:
        for n in range(1, n_max + 1):
            p = procs if n >= 4 else 1
            c = merge(pool.map(_dag_share, [(n, i, p, seed, full_z_upto) for i in range(p)]))
            if verbose:
                print(f'n={n}: {c} DAGs, totals {total}, disagreements {len(bad)}, {time.time() - t0:.1f}s',
                      file=sys.stderr, flush=True)
        merge(pool.map(_odd_share, [(3000, seed)]))
        merge(pool.map(_big_share, [(max(1, big // procs), seed, i) for i in range(procs)]))
    if verbose:
        print(f'done: totals {total}, disagreements {len(bad)}, {time.time() - t0:.1f}s', file=sys.stderr, flush=True)
        for b in bad[:20]:
            print('DISAGREE', b, file=sys.stderr)
    return bad


if __name__ == '__main__':
    nm = int(sys.argv[1]) if len(sys.argv) > 1 else 5
    sys.exit(1 if self_test(nm) else 0)
