"""
C10 / C13, third-party half: the topological-order routines of networkx 3.2.1 (`networkx/algorithms/dag.py`) against
their Lean transcription (`CG.NxTopo`, handler token `nxtopo`).

NOT a full lane: the C10 / C13 lanes import

    nxtopo_lines(names, edges, keys=None)  -> [(line, expected_reply), ...]

and append every `line` to their `lines` and every `expected_reply` to their `impl`.  `expected_reply` is what the REAL
networkx function answers on a fresh `DiGraph` holding `names` (in that order) and `edges` (in that order); NOTHING is
sorted: the order of every list is networkx's, which is defined by node / edge insertion order.  The pair list holds

    nxtopo sort  <nodes> <edges>          list(networkx.topological_sort(G))                -> hxlist | err NetworkXUnfeasible
    nxtopo gens  <nodes> <edges>          list(networkx.topological_generations(G))         -> hxlistlist | err ...
    nxtopo isdag <nodes> <edges>          networkx.is_directed_acyclic_graph(G)             -> 1 | 0
    nxtopo all   <nodes> <edges>          list(networkx.all_topological_sorts(G))           -> hxlistlist | err ...
                                          (only when the graph has at most `all_upto` nodes, default 7)
    nxtopo lex   <nodes> <edges> <keys>   list(networkx.lexicographical_topological_sort(G, key=keys.get))
                                          (only when `keys` -- a dict node -> int, or a list in node order -- is given)

`<nodes>` is `list(G.nodes)` (so a node that only occurs in an edge is there too, as networkx adds it), `<edges>` the
edges as given (the adjacency order of every node is the order of its edges in that list).

Model side: lean/CG/Driver/HNxTopo.lean.  What is proved about the model (lean/CG/Proofs/C10NxTopo.lean), for a node list
without repetition and edges within it: `isdag` answers 1 exactly on acyclic graphs (it is `CG.DSepDec.acyclicB`); `sort`,
`gens` (concatenated) and `lex` return a valid topological order (`CG.Topo.isTopoOrder`) on an acyclic graph and
`err NetworkXUnfeasible` exactly on a cyclic one; `lex` returns the very list `CG.Topo.kahnByLag` (= `topo kahn`)
computes, with non-decreasing keys when no edge goes from a larger key to a smaller one; `all` returns every linear
extension exactly once (a rearrangement of `CG.Topo.allTopo` = `topo all`), `err NetworkXUnfeasible` on a cyclic graph;
none of the other `err ...` replies of the handler can occur.

    self_test(n_max=5)   every labelled DAG with at most n_max nodes in shuffled node / edge orders (plus cyclic graphs,
                         self loops, isolated nodes, repeated edges, duplicate keys, bigger random DAGs) through a
                         `harness.core.ModelClient`; returns the list of disagreements (empty = agreement)
"""
from __future__ import annotations

import itertools
import random
import sys
import time

from harness.core import hxedges, hxlist, hxlistlist


def _graph(names, edges):
    import networkx as nx
    G = nx.DiGraph()
    G.add_nodes_from(names)
    G.add_edges_from(edges)
    return G


def _reply(f):
    try:
        r = f()
    except Exception as e:  # noqa: BLE001 - the class name is the observation
        return 'err ' + type(e).__name__
    if r is True:
        return '1'
    if r is False:
        return '0'
    return r


def _keys_list(G, keys):
    nodes = list(G.nodes)
    if isinstance(keys, dict):
        return [int(keys[n]) for n in nodes]
    keys = [int(k) for k in keys]
    if len(keys) != len(nodes):
        raise ValueError('one key per node of the graph is needed')
    return keys


def _hxints(ks):
    return ','.join(str(k) for k in ks) if ks else '.'


def sort_expected(names, edges):
    import networkx as nx
    G = _graph(names, edges)
    return _reply(lambda: hxlist(list(nx.topological_sort(G))))


def gens_expected(names, edges):
    import networkx as nx
    G = _graph(names, edges)
    return _reply(lambda: hxlistlist(list(nx.topological_generations(G))))


def isdag_expected(names, edges):
    import networkx as nx
    G = _graph(names, edges)
    return _reply(lambda: nx.is_directed_acyclic_graph(G))


def all_expected(names, edges):
    import networkx as nx
    G = _graph(names, edges)
    return _reply(lambda: hxlistlist(list(nx.all_topological_sorts(G))))


def lex_expected(names, edges, keys):
    import networkx as nx
    G = _graph(names, edges)
    kl = _keys_list(G, keys)
    kd = dict(zip(G.nodes, kl))
    return _reply(lambda: hxlist(list(nx.lexicographical_topological_sort(G, key=lambda n: kd[n]))))


def nxtopo_lines(names, edges, keys=None, all_upto=7, ops=('sort', 'gens', 'isdag', 'all', 'lex')):
    """[(request line for the Lean driver, reply the real networkx function gives)]"""
    names, edges = list(names), [tuple(e) for e in edges]
    G = _graph(names, edges)
    nodes = list(G.nodes)
    head = f'{hxlist(nodes)} {hxedges(edges)}'
    out = []
    if 'sort' in ops:
        out.append((f'nxtopo sort {head}', sort_expected(names, edges)))
    if 'gens' in ops:
        out.append((f'nxtopo gens {head}', gens_expected(names, edges)))
    if 'isdag' in ops:
        out.append((f'nxtopo isdag {head}', isdag_expected(names, edges)))
    if 'all' in ops and len(nodes) <= all_upto:
        out.append((f'nxtopo all {head}', all_expected(names, edges)))
    if 'lex' in ops and keys is not None:
        kl = _keys_list(G, keys)
        out.append((f'nxtopo lex {head} {_hxints(kl)}', lex_expected(names, edges, kl)))
    return out


# ----------------------------------------------------------------------------------------------
# self test
# ----------------------------------------------------------------------------------------------

def labelled_dags(n):
    """every DAG on the nodes 0..n-1 (edge sets), each once"""
    ups = [(a, b) for a in range(n) for b in range(a + 1, n)]
    seen = set()
    for perm in itertools.permutations(range(n)):
        for mask in range(1 << len(ups)):
            es = frozenset((perm[a], perm[b]) for i, (a, b) in enumerate(ups) if mask >> i & 1)
            if es not in seen:
                seen.add(es)
                yield sorted(es)


class _Sink:
    """collects (line, expected) pairs, asks the driver in batches, keeps the disagreements"""

    def __init__(self):
        from harness.core import ModelClient
        self.mc = ModelClient()
        self.batch = []
        self.bad = []
        self.total = {'sort': 0, 'gens': 0, 'isdag': 0, 'all': 0, 'lex': 0, 'err': 0}

    def add(self, pairs):
        for ln, exp in pairs:
            self.total[ln.split(' ')[1]] += 1
            if exp.startswith('err'):
                self.total['err'] += 1
            self.batch.append((ln, exp))
        if len(self.batch) >= 2000:
            self.flush()

    def flush(self):
        if self.batch:
            replies = self.mc.ask([ln for ln, _ in self.batch])
            for (ln, exp), got in zip(self.batch, replies):
                if got != exp:
                    self.bad.append((ln, exp, got))
            self.batch = []

    def close(self):
        try:
            self.flush()
        finally:
            self.mc.close()


_NAMES = ['a', 'b', 'c', 'd', 'e', 'f', 'g', 'h', 'i']


def _rand_keys(rng, names):
    """a key per node; small ranges so that ties are the rule"""
    mode = rng.randrange(4)
    if mode == 0:
        return {x: 0 for x in names}
    if mode == 1:
        return {x: rng.randint(-1, 0) for x in names}
    if mode == 2:
        return {x: rng.randint(-2, 2) for x in names}
    return {x: rng.randint(-10 ** 12, 10 ** 12) for x in names}


def _mono_keys(rng, names, edges):
    """keys that never decrease along an edge (the C13 invariant): minus the length of the longest path to a sink,
    coarsened at random"""
    succ = {x: [] for x in names}
    for a, b in edges:
        succ[a].append(b)
    memo = {}

    def depth(x):
        if x not in memo:
            memo[x] = 0 if not succ[x] else 1 + max(depth(y) for y in succ[x])
        return memo[x]
    q = rng.choice([1, 1, 2, 3])
    return {x: -(depth(x) // q) for x in names}


def _dag_share(args):
    """the DAGs on n nodes whose running number is idx modulo procs"""
    n, idx, procs, seed, orders = args
    rng = random.Random(seed * 1000003 + n * 101 + idx)
    sink = _Sink()
    cnt = 0
    try:
        for k, es in enumerate(labelled_dags(n)):
            if k % procs != idx:
                continue
            cnt += 1
            for _ in range(orders):
                names = _NAMES[:n]
                rng.shuffle(names)
                edges = [(_NAMES[a], _NAMES[b]) for a, b in es]
                rng.shuffle(edges)
                sink.add(nxtopo_lines(names, edges, _rand_keys(rng, names)))
                sink.add(nxtopo_lines(names, edges, _mono_keys(rng, names, edges), ops=('lex',)))
                if rng.random() < 0.2:
                    # the same graph presented as list(G.edges), and with an edge said twice
                    G = _graph(names, edges)
                    sink.add(nxtopo_lines(list(G.nodes), list(G.edges), _rand_keys(rng, names)))
                    if edges:
                        e2 = edges + [rng.choice(edges)]
                        sink.add(nxtopo_lines(names, e2, _rand_keys(rng, names)))
    finally:
        sink.close()
    return cnt, sink.total, sink.bad


def _odd_share(args):
    """digraphs that may be cyclic (self loops included), isolated nodes, repeated edges, nodes known from edges only"""
    count, seed = args
    rng = random.Random(seed * 7919 + 5)
    sink = _Sink()
    try:
        sink.add(nxtopo_lines([], [], {}))
        for _ in range(count):
            n = rng.randint(1, 6)
            names = _NAMES[:n]
            rng.shuffle(names)
            dens = rng.choice([0.05, 0.12, 0.3])
            edges = [(a, b) for a in names for b in names if rng.random() < dens]
            rng.shuffle(edges)
            if edges and rng.random() < 0.3:
                edges.append(rng.choice(edges))
            given = names if rng.random() < 0.7 else [x for x in names if rng.random() < 0.5]
            G = _graph(given, edges)
            sink.add(nxtopo_lines(given, edges, _rand_keys(rng, list(G.nodes))))
    finally:
        sink.close()
    return count, sink.total, sink.bad


def _big_share(args):
    """random DAGs with 6..9 nodes (`all` up to 7 nodes), sparse and dense, random and monotone keys"""
    count, seed, idx = args
    rng = random.Random(seed * 104729 + idx)
    sink = _Sink()
    try:
        for _ in range(count):
            n = rng.randint(6, 9)
            order = _NAMES[:n]
            rng.shuffle(order)
            dens = rng.choice([0.1, 0.2, 0.35, 0.5, 0.8])
            edges = [(order[i], order[j]) for i in range(n) for j in range(i + 1, n) if rng.random() < dens]
            rng.shuffle(edges)
            names = order[:]
            rng.shuffle(names)
            sink.add(nxtopo_lines(names, edges, _rand_keys(rng, names)))
            sink.add(nxtopo_lines(names, edges, _mono_keys(rng, names, edges), ops=('lex',)))
    finally:
        sink.close()
    return count, sink.total, sink.bad


def self_test(n_max=5, seed=1, verbose=True, procs=6, orders=2, odd=3000, big=1200):
    """Every labelled DAG with at most `n_max` nodes (1, 3, 25, 543, 29281, ... of them), each in `orders` shuffled node
    and edge orders, all five queries (`lex` with random keys full of ties and with keys that never decrease along an
    edge); a fifth of them again as `list(G.edges)` and with a repeated edge.  Then `odd` random digraphs that may be
    cyclic (self loops, isolated nodes, nodes known from edges only), then `big` random DAGs with 6..9 nodes.  Returns the
    list of disagreements `(line, networkx reply, model reply)` -- empty means agreement, ORDER included."""
    import multiprocessing as mp
    t0 = time.time()
    bad = []
    total = {'sort': 0, 'gens': 0, 'isdag': 0, 'all': 0, 'lex': 0, 'err': 0}

    def merge(results):
        c = 0
        for cnt, tot, b in results:
            c += cnt
            for k, x in tot.items():
                total[k] += x
            bad.extend(b)
        return c

    with mp.Pool(procs) as pool:
        for n in range(0, n_max + 1):
            p = procs if n >= 4 else 1
            c = merge(pool.map(_dag_share, [(n, i, p, seed, orders) for i in range(p)]))
            if verbose:
                print(f'n={n}: {c} DAGs, totals {total}, disagreements {len(bad)}, {time.time() - t0:.1f}s',
                      file=sys.stderr, flush=True)
        merge(pool.map(_odd_share, [(odd, seed)]))
        merge(pool.map(_big_share, [(max(1, big // procs), seed, i) for i in range(procs)]))
    if verbose:
        print(f'done: totals {total}, disagreements {len(bad)}, {time.time() - t0:.1f}s', file=sys.stderr, flush=True)
        for b in bad[:20]:
            print('DISAGREE', b, file=sys.stderr)
    return bad


if __name__ == '__main__':
    nm = int(sys.argv[1]) if len(sys.argv) > 1 else 5
    sys.exit(1 if self_test(nm) else 0)
