"""C01 lane: public mutation histories; every read view compared with the model after every call."""
import hashlib

from harness import exhaustive, histories, impl
from harness.lanes import c01_index
from harness.core import LaneBase


class Lane(LaneBase):
    PROP = 'C01'
    THEOREMS = 'auto'
    AUDIT = 'CG/Audit/C01.lean'
    DIFF_IS_FAILURE = True
    WHITE_BOX_PREFIXES = ('idx ',)
    RULE = ('random histories of 3-25 public mutator calls on both classes (about one third aimed at a specific '
            'error path: duplicate, reverse edge, self-loop, cycle-closing edge, missing node/edge, against time), '
            'caches cold or warm; after every call every read view is compared with the model. A case is '
            'non-trivial when at least 3 calls succeeded and the final graph has an edge; distinct by the hash of '
            'its reply stream. Thorough tier additionally: EVERY mixed graph over a 3-name universe (2240 plain, '
            '668 time-series states) x every single-element operation over the universe plus one absent name '
            '(531k state/operation pairs), all views compared after each.')
    TRUSTED = ['the two edge indexes and per-node lists of the code are modelled as views of one edge map; their '
               'agreement is measured through the readers that use each index',
               'selfDepR (successor reaches node) stands for the code worklist; equivalence proved in CG.C02']

    EXHAUSTIVE = {'thorough': True}

    def cases(self, tier, rng):
        yield from histories.gen_cases(tier, rng, 1500, 8000)
        yield from self.ctor_cases(tier, rng)
        if tier == 'thorough':
            yield from exhaustive.cases()

    # -- the (deprecated, still public) constructor arguments input_list / output_list / fully_connected ----------------
    def ctor_cases(self, tier, rng):
        for _ in range(150 if tier == 'quick' else 1500):
            cls = 'ts' if rng.random() < 0.5 else 'plain'
            gen = histories.Gen(rng, cls)

            def some(k):
                if rng.random() < 0.15:
                    return None
                return [gen.any_name() for _ in range(rng.choice((0, 1, 2, 2, 3)))] if rng.random() < 0.2 else \
                    rng.sample(gen.pool, min(len(gen.pool), rng.choice((0, 1, 2, 3))))
            ins, outs = some(0), some(1)
            if ins and outs and rng.random() < 0.15:
                outs = outs + [rng.choice(ins)]          # a name on both sides: duplicate node
            fully = rng.random() < 0.7
            g = self.construct(cls, ins, outs, fully)
            ops = []
            if not isinstance(g, str):
                gen.g = g
                ops = gen.history(rng.randint(0, 6), False)
            yield {'kind': 'ctor', 'cls': cls, 'ins': ins, 'outs': outs, 'fully': fully, 'ops': ops,
                   'warm': rng.random() < 0.5}

    @staticmethod
    def construct(cls, ins, outs, fully):
        import warnings
        from cai_causal_graph import CausalGraph, TimeSeriesCausalGraph
        C = TimeSeriesCausalGraph if cls == 'ts' else CausalGraph
        try:
            with warnings.catch_warnings():
                warnings.simplefilter('ignore')
                return C(input_list=None if ins is None else list(ins), output_list=None if outs is None else list(outs),
                         fully_connected=fully)
        except RecursionError:
            raise
        except Exception as e:  # noqa: BLE001
            return 'err ' + impl.err_name(e)

    def run_ctor(self, case):
        cls, ins, outs, fully = case['cls'], case['ins'], case['outs'], case['fully']
        # what the documentation says the arguments mean: add_nodes_from(inputs), add_nodes_from(outputs),
        # add_fully_connected_nodes(inputs, outputs) -- replayed through the ordinary API on a fresh graph (and on the model)
        steps = []
        if ins is not None:
            steps.append(['add_nodes_from', list(ins)])
        if outs is not None:
            steps.append(['add_nodes_from', list(outs)])
        if fully and ins is not None and outs is not None:
            steps.append(['add_fully_connected', list(ins), list(outs)])
        ref = impl.new_graph(cls)
        lines = [f'g new h {cls} {impl.enc_meta(None)}']
        out = ['ok']
        first_err = None
        tags = set()
        for st in steps:
            lines.append(impl.op_line('h', st))
            r = impl.apply_op(ref, st)
            out.append(r)
            if r != 'ok':
                first_err = r
                break
        oracle = []
        g = self.construct(cls, ins, outs, fully)
        if isinstance(g, str):
            tags.add('ctor:' + g[4:])
            if g != first_err:
                oracle.append(f'{cls} constructor with input_list={ins!r} output_list={outs!r} fully_connected={fully} '
                              f'raised {g[4:]}; the documented equivalent sequence gives {first_err or "a graph"}')
            return {'lines': lines, 'impl': out, 'oracle': oracle, 'nontrivial': True,
                    'key': repr(('ctor', cls, ins, outs, fully)), 'tags': sorted(tags)}
        tags.add('ctor:ok')
        if first_err is not None:
            oracle.append(f'{cls} constructor with input_list={ins!r} output_list={outs!r} fully_connected={fully} '
                          f'returned a graph; the documented equivalent sequence raises {first_err[4:]}')
            return {'lines': lines, 'impl': out, 'oracle': oracle, 'nontrivial': True,
                    'key': repr(('ctor', cls, ins, outs, fully)), 'tags': sorted(tags)}
        lines.append('g obs h')
        out.append(impl.obs(g))
        nok = 0
        for op in case['ops']:
            lines.append(impl.op_line('h', op))
            r = impl.apply_op(g, op)
            out.append(r)
            nok += r == 'ok'
            tags.add(op[0] + (':ok' if r == 'ok' else ':' + r[4:]))
            if case.get('warm'):
                histories.warm_caches(g)
            lines.append('g obs h')
            out.append(impl.obs(g))
            if not oracle:
                bad = impl.views_consistent(g)
                if bad:
                    oracle.append(f'constructed graph, after {op[0]} ({r}): ' + bad[0])
        if not oracle:
            bad = impl.views_consistent(g)
            if bad:
                oracle.append('constructed graph: ' + bad[0])
        return {'lines': lines, 'impl': out, 'oracle': oracle, 'nontrivial': len(g.get_nodes()) > 0,
                'key': hashlib.sha1('\n'.join(out).encode()).hexdigest(), 'tags': sorted(tags)}

    def run_exh(self, case):
        oracle = []
        tags = set()

        def per_op(g, op, res):
            if res is None:
                return None
            r, _ = res
            tags.add('exh:' + op[0] + (':ok' if r == 'ok' else ':' + r[4:]))
            if not oracle:
                bad = impl.views_consistent(g)
                if bad:
                    oracle.append(f'exhaustive {case["state"]} then {op}: ' + bad[0])
        lines, out = exhaustive.run(case, per_op)
        return {'lines': lines, 'impl': out, 'oracle': oracle, 'nontrivial': bool(case['state']['edges']),
                'key': repr((case['cls'], case['state'], case['ops'][0])), 'tags': sorted(tags)}

    def run_case(self, case):
        if case.get('kind') == 'exh':
            return self.run_exh(case)
        if case.get('kind') == 'ctor':
            return self.run_ctor(case)
        g = impl.new_graph(case['cls'], case.get('gmeta') or None)
        lines = [f"g new h {case['cls']} {impl.enc_meta(case.get('gmeta'))}"]
        out = ['ok']
        oracle = []
        nok = 0
        tags = set()
        for op in case['ops']:
            lines.append(impl.op_line('h', op))
            r = impl.apply_op(g, op)
            out.append(r)
            nok += r == 'ok'
            tags.add(op[0] + (':ok' if r == 'ok' else ':' + r[4:]))
            if case.get('warm'):
                histories.warm_caches(g)
            lines.append('g obs h')
            out.append(impl.obs(g))
            # the code's PRIVATE redundant containers (both edge indexes, per-node edge lists, lag / variable indexes) against
            # the index-level model of the same state (CG.Indexed, proved to refine the one-map model: CG.IndexRefine);
            # white-box and optional -- no line when the private layout is not the known one
            for ln, exp in c01_index.index_lines(g):
                lines.append(ln)
                out.append(exp)
                tags.add('private-indexes-tied')
            if not oracle:
                bad = impl.views_consistent(g)
                if bad:
                    oracle.append(f'after {op[0]} ({r}): ' + bad[0])
        key = hashlib.sha1('\n'.join(out).encode()).hexdigest()
        return {'lines': lines, 'impl': out, 'oracle': oracle, 'nontrivial': nok >= 3 and len(g.get_edges()) > 0,
                'key': key, 'tags': sorted(tags)}

    def diff_failure(self, case, d):
        return (f"implementation deviates from the reference mixed-graph model at `{d['line'][:100]}`: "
                f"impl={d['impl'][:200]!r} reference={d['model'][:200]!r}")

    def signature(self, case, failure):
        return 'C01:' + hashlib.sha1(failure.encode()).hexdigest()[:12]

    def shrink(self, case, still_fails):
        if case.get('kind') == 'exh':
            for op in case['ops']:
                c2 = dict(case, ops=[op])
                if still_fails(c2):
                    return c2
            return case
        return histories.shrink_ops(case, still_fails)
