"""C01 lane: public mutation histories; every read view compared with the model after every call."""
import hashlib

from harness import exhaustive, histories, impl
from harness.core import LaneBase


class Lane(LaneBase):
    PROP = 'C01'
    THEOREMS = 'auto'
    AUDIT = 'CG/Audit/C01.lean'
    DIFF_IS_FAILURE = True
    RULE = ('random histories of 3-25 public mutator calls on both classes (about one third aimed at a specific '
            'error path: duplicate, reverse edge, self-loop, cycle-closing edge, missing node/edge, against time), '
            'caches cold or warm; after every call every read view is compared with the model. A case is '
            'non-trivial when at least 3 calls succeeded and the final graph has an edge; distinct by the hash of '
            'its reply stream. Thorough tier additionally: EVERY mixed graph over a 3-name universe (2240 plain, '
            '668 time-series states) x every single-element operation over the universe plus one absent name '
            '(531k state/operation pairs), all views compared after each.')
    TRUSTED = ['the two edge indexes and per-node lists of the code are modelled as views of one edge map; their '
               'agreement is measured through the readers that use each index',
               'selfDepR (successor reaches node) stands for the code worklist; equivalence proved in CG.C02']

    EXHAUSTIVE = {'thorough': True}

    def cases(self, tier, rng):
        yield from histories.gen_cases(tier, rng, 1500, 8000)
        if tier == 'thorough':
            yield from exhaustive.cases()

    def run_exh(self, case):
        oracle = []
        tags = set()

        def per_op(g, op, res):
            if res is None:
                return None
            r, _ = res
            tags.add('exh:' + op[0] + (':ok' if r == 'ok' else ':' + r[4:]))
            if not oracle:
                bad = impl.views_consistent(g)
                if bad:
                    oracle.append(f'exhaustive {case["state"]} then {op}: ' + bad[0])
        lines, out = exhaustive.run(case, per_op)
        return {'lines': lines, 'impl': out, 'oracle': oracle, 'nontrivial': bool(case['state']['edges']),
                'key': repr((case['cls'], case['state'], case['ops'][0])), 'tags': sorted(tags)}

    def run_case(self, case):
        if case.get('kind') == 'exh':
            return self.run_exh(case)
        g = impl.new_graph(case['cls'], case.get('gmeta') or None)
        lines = [f"g new h {case['cls']} {impl.enc_meta(case.get('gmeta'))}"]
        out = ['ok']
        oracle = []
        nok = 0
        tags = set()
        for op in case['ops']:
            lines.append(impl.op_line('h', op))
            r = impl.apply_op(g, op)
            out.append(r)
            nok += r == 'ok'
            tags.add(op[0] + (':ok' if r == 'ok' else ':' + r[4:]))
            if case.get('warm'):
                histories.warm_caches(g)
            lines.append('g obs h')
            out.append(impl.obs(g))
            if not oracle:
                bad = impl.views_consistent(g)
                if bad:
                    oracle.append(f'after {op[0]} ({r}): ' + bad[0])
        key = hashlib.sha1('\n'.join(out).encode()).hexdigest()
        return {'lines': lines, 'impl': out, 'oracle': oracle, 'nontrivial': nok >= 3 and len(g.get_edges()) > 0,
                'key': key, 'tags': sorted(tags)}

    def diff_failure(self, case, d):
        return (f"implementation deviates from the reference mixed-graph model at `{d['line'][:100]}`: "
                f"impl={d['impl'][:200]!r} reference={d['model'][:200]!r}")

    def signature(self, case, failure):
        return 'C01:' + hashlib.sha1(failure.encode()).hexdigest()[:12]

    def shrink(self, case, still_fails):
        if case.get('kind') == 'exh':
            for op in case['ops']:
                c2 = dict(case, ops=[op])
                if still_fails(c2):
                    return c2
            return case
        return histories.shrink_ops(case, still_fails)
