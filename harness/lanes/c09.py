"""
C09 lane: the skeleton is a live, purely undirected image of the graph.

The `Skeleton` handle is taken from the real graph BEFORE a random mutation history and is never refreshed.  After
every mutation every reader of that handle (`nodes`, `edges`, `get_edge` in both orientations, `edge_exists`,
`get_neighbors`, `adjacency_matrix`) is printed as one canonical line and compared with the model's skeleton of
the CURRENT graph state (`sk obs <graph token>`, lean/CG/Model/Skeleton.lean).

Oracle (implementation alone): the same readers against the symmetric closure of `graph.edges` computed by a few
lines of Python; and the round trips `from_dict(to_dict())`, `from_adjacency_matrix(*to_numpy())`,
`from_networkx(to_networkx())`, `from_gml_string(to_gml_string())` must equal the skeleton (both argument orders).
"""
import hashlib

from harness import histories, impl
from harness.core import LaneBase, hx

from cai_causal_graph.causal_graph import Skeleton  # noqa: E402  (path set up by harness.impl)

LITERAL_NAMES = ['0x10', '1_000', '+1', "'q'", '1.5', 'None', '(1, 2)', '1e3', 'True', '[1]', '{}', '"d"', '-0', '007', '1j',
                 '0b11', '-1', '10', 'nan', '&amp;']
GML_MANGLED = ('()', '[]')      # networkx.parse_gml turns these two labels into an empty tuple / list


def _join(xs, sep=','):
    xs = list(xs)
    return sep.join(xs) if xs else '.'


def _safe_ids(f):
    try:
        return _join(hx(x) for x in sorted(f()))
    except Exception as e:  # noqa: BLE001
        return '!' + type(e).__name__


def sk_obs(sk, g) -> str:
    """the canonical line of lean/CG/Driver/HEq.lean `skObs`, computed from the real Skeleton object"""
    names = sk.get_node_names()
    try:
        nodes = 'N:' + _join(impl.enc_node(g, n) for n in sk.nodes)
    except Exception as e:  # noqa: BLE001
        nodes = 'N:!' + type(e).__name__
    edges = 'E:' + _join(impl.enc_edge(e) for e in sk.edges)
    nb = 'B:' + _join((hx(n) + '=' + _safe_ids(lambda: sk.get_neighbors(n)) for n in names), ';')
    x = 'X:' + ''.join('1' if sk.edge_exists(a, b) else '0' for a in names for b in names)
    ge = []
    for a in names:
        for b in names:
            try:
                e = sk.get_edge(a, b)
                p = e.get_edge_pair()
                ge.append('>' if p == (a, b) else '<' if p == (b, a) else '?')
            except AssertionError:
                ge.append('.')
            except Exception as ex:  # noqa: BLE001
                ge.append('!' + type(ex).__name__)
    try:
        m = sk.adjacency_matrix
        adj = 'A:' + _join(''.join(str(int(v)) for v in row) for row in m)
    except Exception as e:  # noqa: BLE001
        adj = 'A:!' + type(e).__name__
    return ' '.join([nodes, edges, nb, x, 'G:' + ''.join(ge), adj])


def norm_pairs(pairs):
    return _join(hx(a) + '>' + hx(b) for a, b in sorted(tuple(sorted(p)) for p in pairs))


def closure_failures(sk, g):
    """the property on the implementation alone: skeleton readers vs the symmetric closure of graph.edges"""
    bad = []
    gnodes = {n.identifier: n for n in g.nodes}
    stored = [(e.source.identifier, e.destination.identifier) for e in g.edges]
    gmeta = {(e.source.identifier, e.destination.identifier): impl.cj(e.meta) for e in g.edges}
    adjacent = set(stored) | {(b, a) for a, b in stored}
    names = sorted(gnodes)
    sn = sk.nodes
    if sorted(n.identifier for n in sn) != names or len(sn) != len(names):
        bad.append('skeleton nodes are not the graph nodes')
    for n in sn:
        o = gnodes.get(n.identifier)
        if o is not None and n.variable_type != o.variable_type:
            bad.append(f'skeleton node {n.identifier!r} has variable type {n.variable_type.value}, the graph node '
                       f'{o.variable_type.value}')
        if o is not None and type(n) is not type(o):
            bad.append(f'skeleton node {n.identifier!r} is not of the graph node class')
        if o is not None and impl.cj(n.meta) != impl.cj(o.meta):
            bad.append(f'skeleton node {n.identifier!r} does not carry the metadata of the graph node')
    se = sk.edges
    spairs = [e.get_edge_pair() for e in se]
    if any(impl.ety(e) != '--' for e in se):
        bad.append('a skeleton edge is not undirected')
    for a in names:
        for b in names:
            k = sum(1 for p in spairs if p in ((a, b), (b, a)))
            want = 1 if (a, b) in adjacent else 0
            if a == b:
                want = 0
            if k != want:
                bad.append(f'{k} skeleton edges between {a!r} and {b!r}; adjacent in the graph: {bool(want)}')
    if any((p[0], p[1]) not in adjacent for p in spairs) or len(spairs) != len(stored):
        bad.append('the skeleton has an edge the graph does not have (or misses one)')
    for e in se:
        if gmeta.get(e.get_edge_pair()) != impl.cj(e.meta):
            bad.append('a skeleton edge does not carry the metadata of the graph edge')
    try:
        m = sk.adjacency_matrix
        order = g.get_node_names()
        for i, a in enumerate(order):
            for j, b in enumerate(order):
                if int(m[i][j]) != int(m[j][i]):
                    bad.append(f'adjacency matrix not symmetric at ({a!r},{b!r})')
                if int(m[i][j]) != (1 if (a, b) in adjacent else 0):
                    bad.append(f'adjacency entry ({a!r},{b!r}) is {int(m[i][j])}; adjacent: {(a, b) in adjacent}')
        if m.shape != (len(order), len(order)):
            bad.append('adjacency matrix has the wrong shape')
    except Exception as e:  # noqa: BLE001
        bad.append(f'adjacency_matrix raised {type(e).__name__}')
    for a in names:
        try:
            nb = sorted(sk.get_neighbors(a))
            if nb != sorted(b for b in names if (a, b) in adjacent):
                bad.append(f'get_neighbors({a!r}) is not the set of adjacent nodes')
        except Exception as e:  # noqa: BLE001
            bad.append(f'get_neighbors({a!r}) raised {type(e).__name__}')
        for b in names:
            try:
                ex = sk.edge_exists(a, b)
                if ex != ((a, b) in adjacent):
                    bad.append(f'edge_exists({a!r},{b!r}) = {ex}; adjacent: {(a, b) in adjacent}')
                if ex != sk.edge_exists(b, a):
                    bad.append(f'edge_exists({a!r},{b!r}) depends on the orientation')
            except Exception as e:  # noqa: BLE001
                bad.append(f'edge_exists({a!r},{b!r}) raised {type(e).__name__}')
            try:
                e = sk.get_edge(a, b)
                if (a, b) not in adjacent or frozenset(e.get_edge_pair()) != frozenset((a, b)):
                    bad.append(f'get_edge({a!r},{b!r}) returned a wrong edge')
            except AssertionError:
                if (a, b) in adjacent:
                    bad.append(f'get_edge({a!r},{b!r}) finds nothing although the nodes are adjacent')
            except Exception as e:  # noqa: BLE001
                bad.append(f'get_edge({a!r},{b!r}) raised {type(e).__name__}')
    return bad


def nodeform_failures(sk, g, stale):
    """a node may be named by its identifier or by any Node object carrying that identifier (the graph's own node, a
    skeleton node taken earlier, a same-named node of another graph): the skeleton reports the graph's CURRENT node and
    neighbours whichever is used; the by-pair forms and is_empty agree with the plain forms"""
    from cai_causal_graph.type_definitions import NodeVariableType
    bad = []
    gnodes = {n.identifier: n for n in g.nodes}
    for a in sorted(gnodes)[:5]:
        o = gnodes[a]
        forms = [('its identifier', a), ('the graph node', o)]
        try:
            other_vt = NodeVariableType.BINARY if o.variable_type != NodeVariableType.BINARY else NodeVariableType.ORDINAL
            forms.append(('a same-named node with other attributes', type(o)(a, variable_type=other_vt, meta={'foreign': 1})))
        except Exception:  # noqa: BLE001
            pass
        if a in stale:
            forms.append(('a skeleton node taken earlier', stale[a]))
        try:
            want_nb = sorted(sk.get_neighbors(a))
        except Exception:  # noqa: BLE001
            continue
        for what, x in forms:
            try:
                n = sk.get_node(x)
                if n.identifier != a or n.variable_type != o.variable_type or impl.cj(n.meta) != impl.cj(o.meta):
                    bad.append(f'get_node given {what} does not report the current graph node {a!r}')
                if not sk.node_exists(x):
                    bad.append(f'node_exists given {what} is False for node {a!r}')
                if sorted(sk.get_neighbors(x)) != want_nb:
                    bad.append(f'get_neighbors given {what} differs from get_neighbors({a!r})')
                nbn = sk.get_neighbor_nodes(x)
                if sorted(m.identifier for m in nbn) != want_nb:
                    bad.append(f'get_neighbor_nodes given {what} differs from get_neighbors({a!r})')
                for m in nbn:
                    o2 = gnodes.get(m.identifier)
                    if o2 is not None and (m.variable_type != o2.variable_type or impl.cj(m.meta) != impl.cj(o2.meta)
                                           or type(m) is not type(o2)):
                        bad.append(f'get_neighbor_nodes({a!r}) returns node {m.identifier!r} without the variable type / '
                                   f'metadata / class of the graph node')
                        break
            except Exception as e:  # noqa: BLE001
                bad.append(f'a skeleton reader given {what} raised {type(e).__name__}')
    for e in list(g.edges)[:4]:
        a, b = e.source.identifier, e.destination.identifier
        try:
            if frozenset(sk.get_edge_by_pair((b, a)).get_edge_pair()) != frozenset((a, b)) or not sk.is_edge_by_pair((b, a)) \
                    or not sk.is_edge_by_pair((a, b)):
                bad.append('get_edge_by_pair / is_edge_by_pair disagree with get_edge / edge_exists')
        except Exception as ex:  # noqa: BLE001
            bad.append(f'get_edge_by_pair / is_edge_by_pair raised {type(ex).__name__}')
    try:
        if sk.is_empty() != (len(gnodes) == 0):
            bad.append('is_empty() disagrees with the node set')
    except Exception as ex:  # noqa: BLE001
        bad.append(f'is_empty raised {type(ex).__name__}')
    return bad


def round_trip_failures(sk, g):
    bad = []
    cls = type(g)
    names = sk.get_node_names()
    trips = [('copy()', lambda: sk.copy(), True),
             ('from_dict(to_dict())', lambda: Skeleton.from_dict(sk.to_dict(), graph_class=cls), True),
             ('from_adjacency_matrix(*to_numpy())',
              lambda: Skeleton.from_adjacency_matrix(*sk.to_numpy(), graph_class=cls), False),
             ('from_networkx(to_networkx())', lambda: Skeleton.from_networkx(sk.to_networkx(), graph_class=cls), False)]
    if not any(n in GML_MANGLED for n in names):
        trips.append(('from_gml_string(to_gml_string())',
                      lambda: Skeleton.from_gml_string(sk.to_gml_string(), graph_class=cls), False))
    rebuilt = {}
    for name, f, deep in trips:
        try:
            s2 = f()
            rebuilt[name] = s2
            if not (sk == s2) or not (s2 == sk) or (sk != s2):
                bad.append(f'{name} does not equal the skeleton')
            elif deep and not sk.__eq__(s2, deep=True):
                bad.append(f'{name} is not deeply equal to the skeleton')
        except Exception as e:  # noqa: BLE001
            bad.append(f'{name} raised {type(e).__name__}')
    return bad, rebuilt


class Lane(LaneBase):
    PROP = 'C09'
    THEOREMS = 'auto'
    AUDIT = 'CG/Audit/C09.lean'
    DIFF_IS_FAILURE = False
    RULE = ('random histories of 3-25 public mutator calls on both classes over all six edge types; the Skeleton '
            'handle is taken before the first call; after every call every skeleton reader of that handle is compared '
            'with the model skeleton of the current graph state and with the symmetric closure of graph.edges; round '
            'trips through dict / matrix / networkx / GML at three points of each history; node arguments given as '
            'identifier, graph node, stale skeleton node and same-named foreign node; extra histories over node names '
            'that read as Python / GML literals. A case is non-trivial when '
            'at least 3 calls succeeded and the final graph has an edge; distinct by the hash of its reply stream.')
    TRUSTED = ['the graph state is sent to the model as a whole-state token after each call (harness.impl.enc_graph); '
               'that the token is the state the mutators produce is the subject of lane C01',
               'GML text is not modelled: networkx.generate_gml / parse_gml are mutually inverse on node labels except '
               "for the two labels '()' and '[]' (parse_gml reads them back as an empty tuple / list; measured on "
               '50 000 random labels incl. quotes, ampersands, entities, control and non-ASCII characters); node names '
               'equal to one of these two are excluded from the GML round trip (the pools do not contain them)',
               'round trips are requested with graph_class=type(graph) (the documented way to get nodes of the right '
               'class); networkx.to_numpy_array of an undirected graph is the symmetric 0/1 matrix in node order']
    PARTIAL = []

    def cases(self, tier, rng):
        yield from histories.gen_cases(tier, rng, 1200, 12000)
        # node names that read as Python / GML literals: every text form must give them back as the same strings
        for _ in range(150 if tier == 'quick' else 1500):
            gen = histories.Gen(rng, 'plain', universe=rng.sample(LITERAL_NAMES, 5) + ['a'])
            yield {'cls': 'plain', 'gmeta': {}, 'ops': gen.history(rng.randint(3, 12)), 'warm': rng.random() < 0.5}

    def run_case(self, case):
        g = impl.new_graph(case['cls'], case.get('gmeta') or None)
        sk = g.skeleton                      # the handle: taken once, before any mutation
        lines, out, oracle = [], [], []
        nok = 0
        tags = set()
        nops = len(case['ops'])
        rt_at = {nops - 1, nops // 2, nops // 4}
        types_seen = set()
        stale = {}
        for i, op in enumerate(case['ops']):
            r = impl.apply_op(g, op)
            nok += r == 'ok'
            if case.get('warm'):
                histories.warm_caches(g)
            tok = impl.enc_graph(g)
            lines.append('sk obs ' + tok)
            out.append(sk_obs(sk, g))
            for e in g.edges:
                types_seen.add(impl.ety(e))
            if not oracle:
                bad = closure_failures(sk, g) or nodeform_failures(sk, g, stale)
                if bad:
                    oracle.append(f'after call {i} ({op[0]}, {r}): ' + bad[0])
            try:
                for n in sk.nodes:
                    stale.setdefault(n.identifier, n)       # first sighting, kept across later replace / delete + re-add
            except Exception:  # noqa: BLE001
                pass
            if i in rt_at:
                bad, rebuilt = round_trip_failures(sk, g)
                if bad and len(oracle) < 3:
                    oracle.append(f'after call {i} ({op[0]}, {r}): ' + bad[0])
                # what the matrix reads back, against the model's scan of its own matrix
                m = rebuilt.get('from_adjacency_matrix(*to_numpy())')
                if m is not None:
                    lines.append('sk rtadj ' + tok)
                    out.append(norm_pairs(e.get_edge_pair() for e in m.edges))
                    lines.append('sk pairs ' + tok)
                    out.append(norm_pairs(e.get_edge_pair() for e in sk.edges))
                # probes with a name that is not a node
                missing = 'no such node'
                lines.append(f'sk nb {tok} {hx(missing)}')
                try:
                    sk.get_neighbors(missing)
                    out.append('?')
                except Exception as e:  # noqa: BLE001
                    out.append('err ' + type(e).__name__)
                names = sk.get_node_names()
                a = names[0] if names else missing
                lines.append(f'sk ge {tok} {hx(a)} {hx(missing)}')
                try:
                    out.append(impl.enc_edge(sk.get_edge(a, missing)))
                except Exception as e:  # noqa: BLE001
                    out.append('err ' + type(e).__name__)
                lines.append(f'sk ex {tok} {hx(missing)} {hx(a)}')
                out.append('1' if sk.edge_exists(missing, a) else '0')
                lines.append(f'sk ne {tok} {hx(a)}')
                out.append('1' if sk.node_exists(a) else '0')
        if g.skeleton is not sk and not oracle:
            # not required by the property, but the handle and a fresh one must at least agree
            if sk_obs(g.skeleton, g) != sk_obs(sk, g):
                oracle.append('a skeleton obtained after the history differs from the one obtained before it')
        key = hashlib.sha1('\n'.join(out).encode()).hexdigest()
        tags.add('cls:' + case['cls'])
        tags.update('type:' + t for t in types_seen)
        return {'lines': lines, 'impl': out, 'oracle': oracle[:5],
                'nontrivial': nok >= 3 and len(g.get_edges()) > 0, 'key': key, 'tags': sorted(tags)}

    def signature(self, case, failure):
        # identity of a failure = its text without the call index and without the node names
        import re
        f = re.sub(r"'[^']*'|\"[^\"]*\"", '_', failure.split(': ', 1)[-1])
        f = re.sub(r'\d+', 'N', f)
        return 'C09:' + hashlib.sha1(f.encode()).hexdigest()[:12]

    def shrink(self, case, still_fails):
        return histories.shrink_ops(case, still_fails)
