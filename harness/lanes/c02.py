"""C02 lane: validated histories never hold a directed cycle; is_dag() is exact however the graph was built."""
import hashlib
import itertools

from harness import histories, impl
from harness.core import LaneBase


def has_cycle(edges):
    """brute force: does the directed-edge list contain a cycle? (no networkx)"""
    succ = {}
    for s, d in edges:
        succ.setdefault(s, set()).add(d)
    for start in list(succ):
        seen, todo = set(), list(succ.get(start, ()))
        while todo:
            x = todo.pop()
            if x == start:
                return True
            if x not in seen:
                seen.add(x)
                todo.extend(succ.get(x, ()))
    return False


def dag_truth(g):
    es = g.get_edges()
    directed = [(e.source.identifier, e.destination.identifier) for e in es if impl.ety(e) == '->']
    return len(directed) == len(es) and not has_cycle(directed), has_cycle(directed)


VALIDATE_POS = {'add_edge': 5, 'add_edge_by_pair': 5, 'add_edge_obj': 5, 'add_time_edge': 6, 'add_edges_from': 2,
                'add_path': 2}


class Lane(LaneBase):
    PROP = 'C02'
    THEOREMS = 'auto'
    AUDIT = 'CG/Audit/C02.lean'
    RULE = ('(a) random mutation histories on both classes, cycle-closing edges arriving by every route (add_edge, '
            'change_edge_type to ->, replace_edge, replace_node, paths, pairs, time edges), validate on/off; after '
            'every call is_dag() is compared with the model and with a brute-force cycle search, and while every call '
            'so far validated the directed edges must be acyclic; (b) constructor inputs: every binary matrix n<=3 '
            '(quick) / n<=4 (thorough) and dictionaries of small directed graphs incl. cyclic ones, validate on/off, '
            'through from_adjacency_matrix / from_networkx (anti-parallel arcs = undirected edge) / GML / from_dict / from_skeleton on both classes, and lagged matrices through from_adjacency_matrices. Non-trivial: the case contains a '
            'CyclicConnectionError or a cyclic graph; distinct by reply-stream hash.')
    TRUSTED = ['networkx.is_directed_acyclic_graph agrees with the definitional model (measured here)']

    def cases(self, tier, rng):
        yield from histories.gen_cases(tier, rng, 1200, 8000)
        # constructor inputs: every binary matrix n <= 4 (n = 4 in the quick tier through the matrix route only)
        for n in range(1, 5):
            cells = [(i, j) for i in range(n) for j in range(n) if i != j]
            for bits in itertools.product((0, 1), repeat=len(cells)):
                m = [[0] * n for _ in range(n)]
                for (i, j), b in zip(cells, bits):
                    m[i][j] = b
                yield {'ctor': 'matrix', 'rows': m, 'all_routes': n <= 3 or tier == 'thorough'}
        # lagged matrices: every lag-0 matrix n <= 3 with one or two random lagged matrices; n = 4 sampled (quick) / all
        for n in range(1, 5):
            cells = [(i, j) for i in range(n) for j in range(n) if i != j]
            for bits in itertools.product((0, 1), repeat=len(cells)):
                if n == 4 and tier == 'quick' and rng.random() > 0.12:
                    continue
                m = [[0] * n for _ in range(n)]
                for (i, j), b in zip(cells, bits):
                    m[i][j] = b
                lagged = [[[int(rng.random() < 0.35) for _ in range(n)] for _ in range(n)] for _ in range(rng.randint(0, 2))]
                yield {'ctor': 'ts_matrices', 'rows': m, 'lagged': lagged}
        # graphs holding a directed cycle entered with validate=False (both classes; time-series: inside one lag slice,
        # since no edge may point backwards in time), plus extra edges; is_dag() must see the cycle, also after copy()
        k = 150 if tier == 'quick' else 2000
        for i in range(k):
            cls = 'ts' if i % 2 else 'plain'
            size = rng.randint(3, 4)
            if cls == 'ts':
                lag = rng.choice([-2, -1, 0, 1])
                names = [histories.ts_name(v, lag) for v in ['X', 'Y', 'Z', 'a b'][:size]]
                others = [histories.ts_name(v, l) for v in ['X', 'Y', 'W'] for l in (-3, 2)]
            else:
                names = ['a', 'b', 'c', 'd'][:size]
                others = ['e', 'x y']
            rng.shuffle(names)
            ops = [['add_edge', names[j], names[(j + 1) % size], '->', {}, False] for j in range(size)]
            for _ in range(rng.randint(0, 3)):
                a, b = rng.choice(names + others), rng.choice(names + others)
                ops.append(['add_edge', a, b, '->' if rng.random() < 0.8 else '--', {}, False])
            rng.shuffle(ops)
            yield {'cls': cls, 'gmeta': {}, 'ops': ops, 'warm': rng.random() < 0.5, 'copy': True}

    def run_case(self, case):
        if 'ctor' in case:
            return self.run_ctor(case)
        g = impl.new_graph(case['cls'], case.get('gmeta') or None)
        lines = [f"g new h {case['cls']} {impl.enc_meta(case.get('gmeta'))}"]
        out = ['ok']
        oracle = []
        tags = set()
        all_validated = True
        nontrivial = False
        abuse = int(hashlib.sha1(repr(case['ops']).encode()).hexdigest(), 16) % 3 == 0
        for op in case['ops']:
            if op[0] in VALIDATE_POS and not op[VALIDATE_POS[op[0]]]:
                all_validated = False
            lines.append(impl.op_line('h', op))
            r = impl.apply_op(g, op)
            out.append(r)
            if r == 'err CyclicConnectionError':
                nontrivial = True
                tags.add(op[0] + ':cyclic')
            if case.get('warm'):
                histories.warm_caches(g)
            if abuse:
                # every export taken right after the call (cold caches unless warmed above) and changed by the caller --
                # a two-cycle added to the networkx export, matrix entries flipped: exports are snapshots, is_dag() asks the graph
                from harness import gen as _gen
                try:
                    tags.update(_gen.export_abuse(g))
                except Exception:  # noqa: BLE001
                    pass
            isdag, cyc = dag_truth(g)
            if cyc:
                nontrivial = True
                tags.add('cyclic-state')
            lines.append('g isdag h')
            out.append('1' if g.is_dag() else '0')
            try:
                es = g.get_edges()
                if es and all(impl.ety(e) == '->' for e in es):
                    # what the CODE answers against the transcription of networkx.is_directed_acyclic_graph run on the
                    # exported digraph (fully directed graphs only: that is when the code consults networkx)
                    from harness.core import hxedges, hxlist
                    nxg = g.to_networkx()
                    lines.append(f'nxtopo isdag {hxlist([str(x) for x in nxg.nodes])} '
                                 f'{hxedges([(str(a), str(b)) for a, b in nxg.edges])}')
                    out.append('1' if g.is_dag() else '0')
            except Exception:  # noqa: BLE001
                pass
            if not oracle:
                if g.is_dag() != isdag:
                    oracle.append(f'is_dag() = {g.is_dag()} but brute force says {isdag} after {op[0]}')
                elif all_validated and cyc:
                    oracle.append(f'validated history holds a directed cycle after {op[0]} ({r})')
        if case.get('copy') and not oracle:
            for name, f in (('copy()', g.copy), ('from_dict(to_dict(), validate=False)',
                                                   lambda: type(g).from_dict(g.to_dict(), validate=False))):
                try:
                    h = f()
                    truth = dag_truth(h)[0]
                    if h.is_dag() != truth:
                        oracle.append(f'is_dag() = {h.is_dag()} on {name} of a graph whose brute-force answer is {truth}')
                except Exception as e:  # noqa: BLE001
                    oracle.append(f'{name} raised {type(e).__name__}')
        key = hashlib.sha1('\n'.join(out).encode()).hexdigest()
        return {'lines': lines, 'impl': out, 'oracle': oracle, 'nontrivial': nontrivial, 'key': key, 'tags': sorted(tags)}

    def run_ctor(self, case):
        import networkx
        import numpy
        from cai_causal_graph import CausalGraph, Skeleton, TimeSeriesCausalGraph
        from cai_causal_graph.exceptions import CausalGraphErrors
        if case['ctor'] == 'ts_matrices':
            return self.run_ts_matrices(case)
        rows = case['rows']
        n = len(rows)
        names = [chr(97 + i) for i in range(n)]
        directed = [(names[i], names[j]) for i in range(n) for j in range(n) if rows[i][j] and not rows[j][i]]
        undirected = [(names[i], names[j]) for i in range(n) for j in range(i + 1, n) if rows[i][j] and rows[j][i]]
        cyc = has_cycle(directed)
        oracle = []
        for validate in (True, False):
          for C in (CausalGraph, TimeSeriesCausalGraph):
            cn = C.__name__
            routes = [(cn + '.from_adjacency_matrix', lambda: C.from_adjacency_matrix(numpy.array(rows), names, validate=validate))]
            if case.get('all_routes', True):
                # a networkx DiGraph / directed GML document holding both arcs of a pair is the undirected edge (the
                # matrix is symmetric there): such input has no directed cycle through that pair and must be accepted
                dg = networkx.DiGraph()
                dg.add_nodes_from(names)
                dg.add_edges_from(directed)
                dg.add_edges_from(undirected)
                dg.add_edges_from((b, a) for a, b in undirected)
                routes.append((cn + '.from_networkx', lambda: C.from_networkx(dg, validate=validate)))
                routes.append((cn + '.from_gml_string', lambda: C.from_gml_string('\n'.join(networkx.generate_gml(dg)), validate=validate)))
                d = {'nodes': {x: {'identifier': x} for x in names},
                     'edges': {}}
                for s, t in directed:
                    d['edges'].setdefault(s, {})[t] = {'source': {'identifier': s}, 'destination': {'identifier': t}, 'edge_type': '->'}
                for s, t in undirected:
                    d['edges'].setdefault(s, {})[t] = {'source': {'identifier': s}, 'destination': {'identifier': t}, 'edge_type': '--'}
                routes.append((cn + '.from_dict', lambda: C.from_dict(d, validate=validate)))
                if not directed:
                    ug = networkx.Graph()
                    ug.add_nodes_from(names)
                    ug.add_edges_from(undirected)
                    routes.append((cn + '.from_networkx(Graph)', lambda: C.from_networkx(ug, validate=validate)))
                    routes.append((cn + '.from_skeleton', lambda: C.from_skeleton(
                        Skeleton.from_adjacency_matrix(numpy.array(rows), names), validate=validate)))
            for name, f in routes:
                try:
                    g = f()
                    err = None
                except CausalGraphErrors.CyclicConnectionError:
                    g, err = None, 'cyclic'
                except Exception as e:  # noqa: BLE001
                    g, err = None, type(e).__name__
                if validate and cyc and err != 'cyclic':
                    oracle.append(f'{name}(validate=True) accepted a cyclic input {rows}: {err}')
                if (not cyc or not validate) and err is not None:
                    oracle.append(f'{name}(validate={validate}) refused {"a cyclic" if cyc else "an acyclic"} input {rows}: {err}')
                if g is not None:
                    isdag, c2 = dag_truth(g)
                    if g.is_dag() != isdag:
                        oracle.append(f'is_dag() = {g.is_dag()} but brute force says {isdag} for {name} {rows}')
                    if c2 != cyc:
                        oracle.append(f'{name} built a graph whose cyclicity differs from the input {rows}')
        # the literal worklist of the code (CG.Acyc.selfDep, proved equivalent to "lies on a cycle") against the real
        # private method, node by node, on the unvalidated graph; and the whole-graph test
        from harness.core import hxedges, hxlist, hx
        lines, impl_out = [], []
        try:
            g0 = CausalGraph.from_adjacency_matrix(numpy.array(rows), names, validate=False)
            dire = [(e.source.identifier, e.destination.identifier) for e in g0.get_edges() if impl.ety(e) == '->']
            head = f'{hxlist(names)} {hxedges(dire)}'
            for x in names:
                try:
                    g0._assert_node_does_not_depend_on_itself(x)
                    r = '0'
                except AssertionError:
                    r = '1'
                lines.append(f'topo selfdep {head} {hx(x)}')
                impl_out.append(r)
            lines.append(f'topo acyclic {head}')
            impl_out.append('0' if cyc else '1')
        except Exception as e:  # noqa: BLE001
            oracle.append(f'from_adjacency_matrix(validate=False) raised {type(e).__name__} on {rows}')
        return {'lines': lines, 'impl': impl_out, 'oracle': oracle[:3], 'nontrivial': cyc, 'key': 'm' + repr(rows),
                'tags': ['matrix-cyclic' if cyc else 'matrix-acyclic']}

    def run_ts_matrices(self, case):
        """TimeSeriesCausalGraph.from_adjacency_matrices: lagged edges point forward in time, so the directed edges hold
        a cycle exactly when the directed part of the lag-0 matrix does."""
        import numpy
        from cai_causal_graph import TimeSeriesCausalGraph
        from cai_causal_graph.exceptions import CausalGraphErrors
        rows, lagged = case['rows'], case['lagged']
        n = len(rows)
        names = ['v%d' % i for i in range(n)]
        directed = [(i, j) for i in range(n) for j in range(n) if i != j and rows[i][j] and not rows[j][i]]
        cyc = has_cycle(directed)
        oracle = []
        for validate in (True, False):
            for cm in (True, False):
                mats = {0: numpy.array(rows)}
                for k, m in enumerate(lagged):
                    mats[-(k + 1)] = numpy.array(m)
                name = f'from_adjacency_matrices(validate={validate}, construct_minimal={cm})'
                try:
                    g = TimeSeriesCausalGraph.from_adjacency_matrices(mats, variable_names=names, construct_minimal=cm,
                                                                      validate=validate)
                    err = None
                except CausalGraphErrors.CyclicConnectionError:
                    g, err = None, 'cyclic'
                except Exception as e:  # noqa: BLE001
                    g, err = None, type(e).__name__
                if validate and cyc and err != 'cyclic':
                    oracle.append(f'{name} accepted a cyclic lag-0 matrix {rows}: {err}')
                if (not cyc or not validate) and err is not None:
                    oracle.append(f'{name} refused {"a cyclic" if cyc else "an acyclic"} input {rows} / {lagged}: {err}')
                if g is not None:
                    isdag, c2 = dag_truth(g)
                    if g.is_dag() != isdag:
                        oracle.append(f'is_dag() = {g.is_dag()} but brute force says {isdag} for {name} {rows}')
                    if c2 != cyc:
                        oracle.append(f'{name} built a graph whose cyclicity differs from the input {rows}')
        return {'lines': [], 'impl': [], 'oracle': oracle[:3], 'nontrivial': cyc, 'key': 't' + repr((rows, lagged)),
                'tags': ['ts-matrices-cyclic' if cyc else 'ts-matrices-acyclic']}

    def signature(self, case, failure):
        return 'C02:' + hashlib.sha1(failure.split(' after ')[0].encode()).hexdigest()[:12]

    def widen(self, case):
        if 'ops' in case and isinstance(case.get('ops'), list) and case.get('kind', 'hist') == 'hist':
            return histories.widen_history(case)
        return []

    def shrink(self, case, still_fails):
        if 'ctor' in case:
            return case
        return histories.shrink_ops(case, still_fails)
