"""
C05 lane: dictionary / JSON round trip of CausalGraph, TimeSeriesCausalGraph and Skeleton, `copy`, class conversions.

Model side: handler token `dict` (lean/CG/Driver/HConv.lean; the line formats are documented there).

A case is an operation list (harness/impl.py vocabulary) that builds ONE graph on the real implementation
(random histories from harness/histories.py, and hand-made lists covering every edge type, every variable type,
floating nodes, nodes created implicitly from Node-object endpoints, nested metadata, cyclic graphs built with
validate=False, plain graphs whose names do not parse or whose edges run against time), plus an optional
mutation of the serialised dictionary (kind 'mut') that drives `from_dict` off the image of `to_dict`.

Compared with the model for every graph g (the implementation's dictionary always goes through json.dumps/json.loads):
    to_dict(include_meta) as canonical text                       <-> dict to
    from_dict(to_dict(inc), validate) for inc, validate in {0,1}   <-> dict from (on the implementation's text), dict rt
    copy(include_meta)                                            <-> dict copy
    skeleton.to_dict / Skeleton.from_dict                         <-> dict skel / dict skelrt
    OtherClass.from_dict(to_dict(True), validate)                 <-> dict conv
    TimeSeriesCausalGraph.from_causal_graph(g)                    <-> dict fcg
    mutated dictionaries                                          <-> dict from

Oracle (implementation alone, plain Python over `nodes` / `edges` / metadata; no use of the model):
    round trip deep-equal (own comparison AND `__eq__(deep=True)` both ways), re-serialisation equal, dictionary
    independent of the construction order, include_meta=False erases exactly the user metadata, validated re-import
    refuses exactly the graphs holding a directed cycle (brute force), copy, skeleton, conversion laws of C05.
"""
from __future__ import annotations

import hashlib
import json
import random

from harness import histories, impl
from harness.lanes import c05_pyjson
from harness.core import LaneBase, hx
from harness.impl import CausalGraph, EdgeType, Node, NodeVariableType, TimeSeriesCausalGraph, TimeSeriesNode, cj

TS_KEYS = ('time_lag', 'variable_name')
TYPES = ['->', '--', '<>', 'oo', 'o>', 'o-']
VTYPES = ['unspecified', 'continuous', 'binary', 'multiclass', 'ordinal']
NESTED = [{'k': 1}, {'a': {'b': [1, {'c': None}], 'é': 'ü'}, 'w': [1, 2.5, 'x', True]}, {'time_lag': 5},
          {'variable_name': 'Q', 'z': True}, {'s': 'quote " backslash \\ newline \n tab \t nul \x00 é'},
          {'deep': [[[]], {}, {'x': {'y': {'z': [None, False]}}}]}, {'': 0}, {'n': -3, 'f': 1e-3}]


# ----------------------------------------------------------------------------------------------------------
# canonical texts (robust against the raw `str` edge types a JSON round trip leaves behind)
# ----------------------------------------------------------------------------------------------------------

def etext(t) -> str:
    return str(getattr(t, 'value', t))


def enc_edge(e) -> str:
    return f'{hx(e.source.identifier)}>{hx(e.destination.identifier)}|{etext(e.get_edge_type())}|{impl.enc_meta(e.meta)}'


def enc_graph(g) -> str:
    j = impl._join
    return (('ts' if impl.is_ts(g) else 'plain') + '/' + j(impl.enc_node(g, n) for n in g.get_nodes()) + '/'
            + j(enc_edge(e) for e in g.get_edges()) + '/' + impl.enc_meta(g.meta))


def _optmeta(d) -> str:
    return impl.enc_meta(d['meta']) if 'meta' in d else '~'


def dnode_text(nd) -> str:
    return '|'.join([hx(nd['identifier']), hx(nd.get('variable_type', 'unspecified')), hx(nd.get('node_class', 'Node')),
                     _optmeta(nd), str(nd['time_lag']) if 'time_lag' in nd else '~',
                     hx(nd['variable_name']) if 'variable_name' in nd else '~'])


def dict_text(d) -> str:
    """the dictionary (after JSON) as one protocol token, entries in the dictionary's own order"""
    nodes = [hx(k) + ':' + dnode_text(v) for k, v in d['nodes'].items()]
    edges = []
    for s, dsts in d['edges'].items():
        for t, ed in dsts.items():
            edges.append(hx(s) + '>' + hx(t) + ':' + dnode_text(ed['source']) + ':' + dnode_text(ed['destination']) + ':'
                         + hx(ed['edge_type']) + ':' + _optmeta(ed))
    return ';'.join([hx(d['version']), _optmeta(d), impl._join(nodes), impl._join(edges)])


def through_json(d):
    return json.loads(json.dumps(d))


def reordered(d):
    """the same JSON value with its keys in another order (as written, sorted as json.dumps(sort_keys=True) writes them --
    `edges` then comes before `nodes` --, or reversed; chosen by the text itself): a reader must not care"""
    import zlib
    text = json.dumps(d)
    mode = zlib.crc32(text.encode()) % 3
    if mode == 1:
        return json.loads(json.dumps(d, sort_keys=True))
    if mode == 2:
        def rev(x):
            if isinstance(x, dict):
                return {k: rev(x[k]) for k in reversed(list(x))}
            if isinstance(x, list):
                return [rev(y) for y in x]
            return x
        return rev(json.loads(text))
    return d


def reply(f):
    """run a constructor; 'ok <graph token>' or 'err <Class>'; also returns the object"""
    try:
        h = f()
    except RecursionError:
        raise
    except Exception as e:  # noqa: BLE001
        return 'err ' + type(e).__name__, None
    return 'ok ' + enc_graph(h), h


# ----------------------------------------------------------------------------------------------------------
# own deep comparison
# ----------------------------------------------------------------------------------------------------------

def node_view(g, erase=False, strip_ts=False):
    out = {}
    for n in g.get_nodes():
        m = {} if erase else {k: v for k, v in n.meta.items() if not (strip_ts and k in TS_KEYS)}
        if erase and impl.is_ts(g):
            m = {k: n.meta[k] for k in TS_KEYS if k in n.meta}
        out[n.identifier] = (str(n.variable_type.value), cj(m))
    return out


def edge_view(g, erase=False):
    return {(e.source.identifier, e.destination.identifier): (etext(e.get_edge_type()), cj({} if erase else e.meta))
            for e in g.get_edges()}


def deep_diff(g, h, erase=False, what='round trip'):
    """differences between h and (g, optionally with user metadata erased)"""
    bad = []
    if type(g) is not type(h):
        bad.append(f'{what}: class {type(h).__name__} instead of {type(g).__name__}')
    if node_view(g, erase) != node_view(h):
        bad.append(f'{what}: nodes differ: {sorted(node_view(g, erase).items())[:4]} vs {sorted(node_view(h).items())[:4]}')
    if edge_view(g, erase) != edge_view(h):
        bad.append(f'{what}: edges differ: {sorted(edge_view(g, erase).items())[:4]} vs {sorted(edge_view(h).items())[:4]}')
    if cj({} if erase else g.meta) != cj(h.meta):
        bad.append(f'{what}: graph metadata differs')
    if impl.is_ts(h):
        for n in h.get_nodes():
            try:
                if (n.variable_name, n.time_lag) != (g.get_node(n.identifier).variable_name, g.get_node(n.identifier).time_lag):
                    bad.append(f'{what}: variable / lag of {n.identifier!r} differ')
            except Exception as e:  # noqa: BLE001
                bad.append(f'{what}: variable / lag of {n.identifier!r} unreadable ({type(e).__name__})')
    return bad


def has_directed_cycle(g) -> bool:
    succ = {}
    for e in g.get_edges():
        if etext(e.get_edge_type()) == '->':
            succ.setdefault(e.source.identifier, set()).add(e.destination.identifier)
    for start in list(succ):
        seen, todo = set(), list(succ[start])
        while todo:
            x = todo.pop()
            if x == start:
                return True
            if x not in seen:
                seen.add(x)
                todo.extend(succ.get(x, ()))
    return False


def parse_name(s):
    from cai_causal_graph.utils import get_variable_name_and_lag
    try:
        return get_variable_name_and_lag(s)
    except ValueError:
        return None


# ----------------------------------------------------------------------------------------------------------
# hand-made graphs
# ----------------------------------------------------------------------------------------------------------

def hand_made():
    out = []
    # every edge type, both orientations of the name order, with and without metadata, floating node, variable types
    for cls, (a, b, c) in (('plain', ('a', 'b', 'c')), ('plain', ('x y', 'é', 'a\nb')), ('ts', ('X lag(n=1)', 'X', 'Y')),
                           ('ts', ('Y', 'X', 'Z future(n=2)')), ('ts', ('a b lag(n=2)', 'a b', 'Z lag(n=2)'))):
        for i, t in enumerate(TYPES):
            for flip in (False, True):
                s, d = (b, a) if flip else (a, b)
                ops = [['add_node', c, VTYPES[i % 5], NESTED[i % len(NESTED)]],
                       ['add_node', a, VTYPES[(i + 1) % 5], NESTED[(i + 3) % len(NESTED)]],
                       ['add_edge', s, d, t, NESTED[(i + 2) % len(NESTED)], True]]
                out.append({'cls': cls, 'gmeta': NESTED[(i + 1) % len(NESTED)], 'ops': ops})
    # implicitly created nodes from Node-object endpoints carrying type and metadata
    for cls, (a, b) in (('plain', ('a', 'b')), ('ts', ('X lag(n=2)', 'Y'))):
        out.append({'cls': cls, 'gmeta': {}, 'ops': [
            ['add_edge', {'id': a, 'vt': 'binary', 'meta': NESTED[1]}, {'id': b, 'vt': 'ordinal', 'meta': NESTED[3]}, '->',
             NESTED[0], True],
            ['add_edge', b, {'id': 'Q', 'vt': 'continuous', 'meta': NESTED[2]}, 'o>', {}, True]]})
    # cyclic graphs built with validate=False (validated re-import must refuse them)
    out.append({'cls': 'plain', 'gmeta': {}, 'ops': [['add_edge', 'a', 'b', '->', {}, False], ['add_edge', 'b', 'c', '->', {}, False],
                                                     ['add_edge', 'c', 'a', '->', {}, False]]})
    out.append({'cls': 'plain', 'gmeta': {}, 'ops': [['add_edge', 'b', 'c', '->', {}, False], ['add_edge', 'c', 'd', '->', {}, False],
                                                     ['add_edge', 'd', 'b', '->', {}, False], ['add_edge', 'a', 'b', '--', {}, False]]})
    out.append({'cls': 'ts', 'gmeta': {}, 'ops': [['add_edge', 'X', 'Y', '->', {}, False], ['add_edge', 'Y', 'Z', '->', {}, False],
                                                  ['add_edge', 'Z', 'X', '->', {'k': 1}, False]]})
    out.append({'cls': 'plain', 'gmeta': {}, 'ops': [['add_edge', 'a', 'b', '->', {}, False], ['add_edge', 'b', 'a', '<>', {}, False]]})
    # plain graphs that the time-series class cannot take over / has to re-orient
    out.append({'cls': 'plain', 'gmeta': {'g': 1}, 'ops': [['add_edge', 'X', 'X lag(n=1)', '->', {'k': 1}, True]]})
    out.append({'cls': 'plain', 'gmeta': {}, 'ops': [['add_edge', 'X', 'X lag(n=1)', '--', {'k': 1}, True],
                                                     ['add_edge', 'Y future(n=1)', 'X', 'o>', {}, True],
                                                     ['add_edge', 'X lag(n=1)', 'Y', '->', {}, True]]})
    out.append({'cls': 'plain', 'gmeta': {}, 'ops': [['add_node', 'X lag(n=1) lag(n=2)', 'binary', {}], ['add_edge', 'a', 'b', '->', {}, True]]})
    out.append({'cls': 'plain', 'gmeta': {}, 'ops': [['add_edge', 'a', 'Y lag(n=1) future(n=2)', '->', {}, True]]})
    out.append({'cls': 'plain', 'gmeta': {}, 'ops': [['add_node', '', 'binary', {}]]})
    out.append({'cls': 'plain', 'gmeta': {}, 'ops': [
        ['add_node', 'X lag(n=1)', 'binary', {'time_lag': 7, 'variable_name': 'W', 'u': [1]}],
        ['add_edge', 'X lag(n=1)', 'X', '->', {}, True], ['add_edge', 'X lag(n=0)', 'X', '--', {}, True]]})
    # empty graphs
    out.append({'cls': 'plain', 'gmeta': {}, 'ops': []})
    out.append({'cls': 'ts', 'gmeta': NESTED[1], 'ops': []})
    return out


def free_form(rng, cls):
    """a random graph added edge by edge WITHOUT validation (directed cycles are frequent), every node and edge with
    random type / metadata; in the plain class the names mix lagged, unparsable and ordinary ones"""
    if cls == 'ts':
        pool = [histories.ts_name(v, l) for v in ('X', 'Y', 'Z') for l in (-2, -1, 0, 1)]
    else:
        pool = ['a', 'b', 'c', 'd', 'X', 'X lag(n=1)', 'Y future(n=1)', 'Y', 'x y', 'é', ''] + \
               (['Z lag(n=1) lag(n=2)'] if rng.random() < 0.15 else [])
    names = rng.sample(pool, rng.randint(2, min(6, len(pool))))
    metas = histories.METAS + NESTED
    ops = [['add_node', n, rng.choice(VTYPES), dict(rng.choice(metas))] for n in names if rng.random() < 0.6]
    pairs = [(a, b) for i, a in enumerate(names) for b in names[i + 1:]]
    rng.shuffle(pairs)
    if rng.random() < 0.3:
        # an explicit directed cycle (time-series class: among contemporaneous nodes, the only place one can live)
        if cls == 'ts':
            lag = rng.choice([-1, 0])
            ring = [histories.ts_name(v, lag) for v in rng.sample(['X', 'Y', 'Z'], rng.choice([2, 3, 3]))]
        else:
            ring = rng.sample(names, min(len(names), rng.choice([2, 3, 3, 4])))
        if len(ring) == 2:
            ring = ring + ['mid' if cls == 'plain' else histories.ts_name('Q', 0 if cls == 'plain' else lag)]
        for a, b in zip(ring, ring[1:] + ring[:1]):
            ops.append(['add_edge', a, b, '->', dict(rng.choice(metas)), False])
    dense = rng.random()
    for a, b in pairs:
        if rng.random() < dense:
            s, d = (a, b) if rng.random() < 0.5 else (b, a)
            t = '->' if rng.random() < 0.65 else rng.choice(TYPES)
            ops.append(['add_edge', s, d, t, dict(rng.choice(metas)), False])
    return ops


MUTATIONS = ['vt_bogus', 'class_node', 'class_ts', 'class_other', 'class_absent', 'drop_nodes', 'embedded_meta',
             'dup_identifier', 'swap_ends', 'add_reverse', 'drop_meta_keys', 'unknown_edge_type', 'stale_ts_keys']


def mutate(d, kind, rng):
    """one mutation of a serialised dictionary (in place); returns False when it does not apply"""
    edges = [(s, t) for s, ds in d['edges'].items() for t in ds]
    names = list(d['nodes'])
    if kind == 'vt_bogus':
        if not names:
            return False
        d['nodes'][rng.choice(names)]['variable_type'] = 'bogus'
    elif kind in ('class_node', 'class_ts', 'class_other', 'class_absent'):
        if not edges:
            return False
        s, t = rng.choice(edges)
        end = rng.choice(['source', 'destination'])
        if kind == 'class_absent':
            d['edges'][s][t][end].pop('node_class', None)
        else:
            d['edges'][s][t][end]['node_class'] = {'class_node': 'Node', 'class_ts': 'TimeSeriesNode',
                                                   'class_other': 'SomethingElse'}[kind]
    elif kind == 'drop_nodes':
        if not edges:
            return False
        for n in names:
            if rng.random() < 0.6:
                del d['nodes'][n]
    elif kind == 'embedded_meta':
        if not edges:
            return False
        s, t = rng.choice(edges)
        d['edges'][s][t]['source']['meta'] = {'embedded': [1, 2], 'time_lag': 9}
        d['edges'][s][t]['destination']['variable_type'] = 'ordinal'
        if rng.random() < 0.5 and s in d['nodes']:
            del d['nodes'][s]
    elif kind == 'dup_identifier':
        if not names:
            return False
        n = rng.choice(names)
        d['nodes']['another key'] = dict(d['nodes'][n])
    elif kind == 'swap_ends':
        if not edges:
            return False
        s, t = rng.choice(edges)
        ed = d['edges'][s][t]
        ed['source'], ed['destination'] = ed['destination'], ed['source']
    elif kind == 'add_reverse':
        if not edges:
            return False
        s, t = rng.choice(edges)
        ed = json.loads(json.dumps(d['edges'][s][t]))
        if rng.random() < 0.5:
            ed['source'], ed['destination'] = ed['destination'], ed['source']
        d['edges'].setdefault(t, {})[s] = ed
    elif kind == 'drop_meta_keys':
        d.pop('meta', None)
        for n in names:
            if rng.random() < 0.5:
                d['nodes'][n].pop('meta', None)
        for s, t in edges:
            if rng.random() < 0.5:
                d['edges'][s][t].pop('meta', None)
    elif kind == 'unknown_edge_type':
        if not edges:
            return False
        s, t = rng.choice(edges)
        d['edges'][s][t]['edge_type'] = 'xx'
    elif kind == 'stale_ts_keys':
        if not names:
            return False
        n = rng.choice(names)
        d['nodes'][n].setdefault('meta', {})
        d['nodes'][n]['meta']['time_lag'] = 42
        d['nodes'][n]['meta']['variable_name'] = 'stale'
        d['nodes'][n]['time_lag'] = 43
        d['nodes'][n]['variable_name'] = 'stale too'
    else:
        raise ValueError(kind)
    return True


# ----------------------------------------------------------------------------------------------------------
# the lane
# ----------------------------------------------------------------------------------------------------------

class Lane(LaneBase):
    PROP = 'C05'
    THEOREMS = 'auto'
    AUDIT = 'CG/Audit/C05.lean'
    RULE = ('graphs built on the real implementation from random mutation histories (both classes, all edge types, '
            'variable types, positive / zero / negative lags, nested JSON metadata on graph, nodes and edges, Node-object '
            'endpoints, floating nodes) and from hand-made operation lists (cyclic with validate=False, time-violating and '
            'unparsable plain graphs); the dictionary always goes through json.dumps/json.loads. Non-trivial: the graph has '
            'at least one edge and at least one non-empty metadata dictionary; distinct by the hash of the canonical '
            'dictionary text (plus the mutation for mutated dictionaries).')
    TRUSTED = ['json.dumps / json.loads: transcribed (CG.PyJson, from json.encoder / json.decoder / json.scanner of CPython 3.12) and '
               'PROVED to round-trip on every tree of str / int / bool / None / list / dict (CG.C05Json.loads_dumps, also for '
               'sort_keys and for the compact format the harness tokens use); what stays trusted is that the transcribed lines '
               'are what json runs (compared on every dictionary of the lane), and the float half of json for the two float '
               'values in the metadata pool (such dictionaries answer `unsupported` on both sides)',
               'str(int) / JSON text of the reserved values time_lag, variable_name',
               'sepsets are not modelled (from_causal_graph copies them separately)',
               'after JSON the implementation stores edge types as raw str (not EdgeType); they compare equal to the enum '
               'members and the lane reads them through str(); an unknown edge-type text is ACCEPTED by from_dict and is '
               'outside the model (driver answers `unmodelled`)']
    PARTIAL = ['the round-trip theorems assume, besides WF, CG.C05.PlainNorm (nodes of the plain class carry var = "" and lag = 0: '
               'true of every state the model reaches, not a clause of WF)',
               'plain -> time-series with validate=True: success is proved under acyclicity; the exact failure criterion '
               '(toTs_succeeds_iff) is proved for validate=False, the mode from_causal_graph uses (with validation the first '
               'error is ValueError or CyclicConnectionError depending on the edge order)',
               'a dictionary whose edge_type text is no EdgeType value is outside the model (the code stores the raw text)']

    def cases(self, tier, rng):
        thorough = tier == 'thorough'
        for c in hand_made():
            yield dict(c, kind='hand', seed=rng.randrange(1 << 30))
            for m in MUTATIONS:
                yield dict(c, kind='mut', mutation=m, seed=rng.randrange(1 << 30))
        n = 30000 if thorough else 3000
        for _ in range(n):
            cls = 'ts' if rng.random() < 0.5 else 'plain'
            if rng.random() < 0.2:
                ops = free_form(rng, cls)
            else:
                gen = histories.Gen(rng, cls)
                ops = gen.history(rng.randint(2, 22))
            case = {'cls': cls, 'gmeta': dict(rng.choice(histories.METAS + NESTED)), 'ops': ops,
                    'seed': rng.randrange(1 << 30)}
            if rng.random() < 0.3:
                yield dict(case, kind='mut', mutation=rng.choice(MUTATIONS))
            else:
                yield dict(case, kind='hist')

    # ------------------------------------------------------------------------------------------------------
    def build(self, case):
        g = impl.new_graph(case['cls'], case.get('gmeta') or None)
        for op in case['ops']:
            impl.apply_op(g, op)
            if case.get('seed', 0) % 2:
                histories.warm_caches(g)
                try:
                    g.to_dict(), hash(g)
                except Exception:  # noqa: BLE001
                    pass
        return g

    def edit_oracle(self, case, rng):
        """serialise, then edit attributes through the handles the API hands out (node.variable_type, node.meta,
        edge.meta, graph.meta) and serialise again: the second dictionary must be what a twin that was never serialised
        before the same edits gives (to_dict depends on the current state only, not on the history of queries)"""
        from cai_causal_graph.type_definitions import NodeVariableType
        g, twin = self.build(case), self.build(case)
        try:
            g.to_dict(), g.to_dict(include_meta=False), hash(g), repr(g), g.copy()
        except Exception:  # noqa: BLE001
            return []

        def edit(x):
            r = random.Random(case.get('seed', 0))
            done = []
            nodes, edges = x.get_nodes(), x.get_edges()
            if nodes:
                n = r.choice(nodes)
                n.variable_type = r.choice([v for v in NodeVariableType if v != n.variable_type])
                n.meta['edited'] = [1, {'a': None}]
                done.append('node')
            if edges:
                e = r.choice(edges)
                e.meta['edited'] = {'k': [2]}
                done.append('edge')
            x.meta['edited'] = 'g'
            return done
        try:
            edit(g)
            edit(twin)
            a, b = through_json(g.to_dict()), through_json(twin.to_dict())
            bad = []
            if dict_text(a) != dict_text(b):
                bad.append('to_dict after direct attribute edits differs from a never-serialised twin with the same edits '
                           '(to_dict depends on the query history)')
            a0, b0 = through_json(g.to_dict(include_meta=False)), through_json(twin.to_dict(include_meta=False))
            if dict_text(a0) != dict_text(b0):
                bad.append('to_dict(include_meta=False) after direct attribute edits differs from a never-serialised twin')
            h = type(g).from_dict(a, validate=False)
            if not g.__eq__(h, deep=True) or not h.__eq__(g, deep=True):
                bad.append('from_dict(to_dict(g)) is not deeply equal to g after direct attribute edits')
            c = g.copy()
            if not g.__eq__(c, deep=True):
                bad.append('copy() is not deeply equal to g after direct attribute edits')
            return bad
        except Exception as e:  # noqa: BLE001
            return [f'serialisation after direct attribute edits raised {type(e).__name__}']

    def run_case(self, case):
        g = self.build(case)
        rng = random.Random(case.get('seed', 0))
        if case['kind'] == 'mut':
            return self.run_mut(case, g, rng)
        if case.get('seed', 0) % 4 == 0 and not getattr(self, '_in_edit', False):
            self._in_edit = True
            try:
                r = self.run_case(case)
            finally:
                self._in_edit = False
            r['oracle'] = list(r.get('oracle', [])) + self.edit_oracle(case, rng)
            r['tags'] = list(r.get('tags', [])) + ['attribute-edits']
            return r
        cls = case['cls']
        Cls = type(g)
        tok = enc_graph(g)
        lines, out, oracle, tags = [], [], [], set()
        cyc = has_directed_cycle(g)
        tags.add(cls)
        tags.add('cyclic' if cyc else 'acyclic')
        for e in g.get_edges():
            tags.add('type:' + etext(e.get_edge_type()))

        d = {}
        lines_json = False
        for inc in (1, 0):
            raw = g.to_dict(include_meta=bool(inc))
            d[inc] = through_json(raw)
            lines.append(f'dict to {inc} {tok}')
            out.append(dict_text(d[inc]))
            # the JSON text layer itself: CPython's json.dumps / json.loads against their Lean transcription (CG.PyJson,
            # proved to round-trip: CG.C05Json.loads_dumps); a dictionary holding a float answers `unsupported` on both sides
            if inc == 1 or not lines_json:
                for ln, exp in c05_pyjson.through_json_lines(raw):
                    lines.append(ln)
                    out.append(exp)
                lines_json = True
        # iterating a graph yields the items of its dictionary (`dict(g)` is the documented short form of `g.to_dict()`)
        try:
            if json.dumps(dict(g)) != json.dumps(g.to_dict()):
                oracle.append('dict(g) differs from g.to_dict()')
        except Exception as e:  # noqa: BLE001
            oracle.append(f'dict(g) raised {type(e).__name__}')
        # the dictionary is JSON text: serialising twice gives the same text
        if json.dumps(g.to_dict()) != json.dumps(through_json(g.to_dict())):
            oracle.append('json text of to_dict changes after one json round trip')

        fed = {inc: reordered(d[inc]) for inc in (1, 0)}       # (one object per flag, handed to from_dict twice)
        for inc in (1, 0):
            for v in (0, 1):
                r, h = reply(lambda: Cls.from_dict(fed[inc], validate=bool(v)))
                lines.append(f'dict from {cls} {v} {dict_text(d[inc])}')
                out.append(r)
                lines.append(f'dict rt {inc} {v} {tok}')
                out.append(r)
                if h is None:
                    if not (v and cyc and r == 'err CyclicConnectionError'):
                        oracle.append(f'from_dict(to_dict(include_meta={bool(inc)}), validate={bool(v)}) raised {r[4:]} '
                                      f'(graph {"has" if cyc else "has no"} directed cycle)')
                    continue
                if v and cyc:
                    oracle.append('validated from_dict accepted a graph with a directed cycle')
                oracle += deep_diff(g, h, erase=not inc, what=f'from_dict(to_dict({bool(inc)}),validate={bool(v)})')
                if inc:
                    try:
                        if not (h.__eq__(g, deep=True) and g.__eq__(h, deep=True) and h == g):
                            oracle.append('__eq__(deep=True) is False after the round trip')
                    except Exception as e:  # noqa: BLE001
                        oracle.append(f'__eq__(deep=True) raised {type(e).__name__} after the round trip')
                    if any(not isinstance(e.get_edge_type(), EdgeType) for e in h.get_edges()):
                        tags.add('edge-type-restored-as-str')
                # idempotence: serialising the result again gives the same dictionary
                d2 = through_json(h.to_dict(include_meta=True))
                ref = d[1] if inc else None
                if inc and dict_text(d2) != dict_text(ref):
                    oracle.append('second serialisation differs from the first')
                if not inc:
                    # (the embedded endpoint dictionaries of d[0] still carry the ORIGINAL node metadata, h has none:
                    # the texts differ by design; the erased graph itself must be a fixed point)
                    r2, h2 = reply(lambda: Cls.from_dict(through_json(h.to_dict(include_meta=False)), validate=False))
                    if h2 is None or dict_text(through_json(h2.to_dict())) != dict_text(d2):
                        oracle.append('erased graph is not a fixed point of to_dict(False) / from_dict')

        # construction-order independence
        g2 = self.rebuild_permuted(g, rng)
        if g2 is not None:
            t2 = dict_text(through_json(g2.to_dict()))
            if t2 != dict_text(d[1]):
                oracle.append('to_dict depends on the construction order')
            lines.append(f'dict to 1 {enc_graph(g2)}')
            out.append(dict_text(d[1]))

        # copy
        for inc in (1, 0):
            r, h = reply(lambda: g.copy(include_meta=bool(inc)))
            lines.append(f'dict copy {inc} {tok}')
            out.append(r)
            if h is None:
                oracle.append(f'copy(include_meta={bool(inc)}) raised {r[4:]}')
            else:
                oracle += deep_diff(g, h, erase=not inc, what=f'copy({bool(inc)})')

        # skeleton
        sk = g.skeleton
        for inc in (1, 0):
            lines.append(f'dict skel {inc} {tok}')
            out.append(dict_text(through_json(sk.to_dict(include_meta=bool(inc)))))
        from cai_causal_graph.causal_graph import Skeleton
        r, s2 = reply(lambda: Skeleton.from_dict(through_json(sk.to_dict()), graph_class=Cls)._graph)
        lines.append(f'dict skelrt {cls} {tok}')
        out.append(r)
        if s2 is None:
            oracle.append(f'Skeleton.from_dict(skeleton.to_dict()) raised {r[4:]}')
        else:
            try:
                if not (s2.skeleton.__eq__(sk, deep=True) and sk.__eq__(s2.skeleton, deep=True)):
                    oracle.append('Skeleton round trip is not deeply equal')
            except Exception as e:  # noqa: BLE001
                oracle.append(f'Skeleton.__eq__ raised {type(e).__name__}')
            if node_view(s2) != node_view(g) or set(edge_view(s2)) != set(edge_view(g)) or \
                    any(t != '--' for t, _ in edge_view(s2).values()) or \
                    {k: m for k, (_, m) in edge_view(s2).items()} != {k: m for k, (_, m) in edge_view(g).items()}:
                oracle.append('Skeleton round trip lost nodes / pairs / metadata or kept a non-undirected type')

        # class conversion
        Other = CausalGraph if impl.is_ts(g) else TimeSeriesCausalGraph
        ocls = 'plain' if impl.is_ts(g) else 'ts'
        for v in (0, 1):
            r, h = reply(lambda: Other.from_dict(d[1], validate=bool(v)))
            lines.append(f'dict conv {ocls} {v} {tok}')
            out.append(r)
            oracle += self.conversion_oracle(g, h, r, v, cyc)
        r, h = reply(lambda: TimeSeriesCausalGraph.from_causal_graph(g))
        lines.append(f'dict fcg {tok}')
        out.append(r)
        if impl.is_ts(g):
            if h is not g:
                oracle.append('from_causal_graph(ts graph) is not the identity')
        else:
            oracle += self.conversion_oracle(g, h, r, 0, cyc, what='from_causal_graph')
            tags.add('fcg:' + ('ok' if h is not None else r[4:]))

        nontrivial = bool(g.get_edges()) and (bool(g.meta) or any(n.meta and set(n.meta) - set(TS_KEYS) for n in g.get_nodes())
                                              or any(e.meta for e in g.get_edges()))
        key = hashlib.sha1(out[0].encode()).hexdigest()
        return {'lines': lines, 'impl': out, 'oracle': oracle, 'nontrivial': nontrivial, 'key': key, 'tags': sorted(tags)}

    # ------------------------------------------------------------------------------------------------------
    def conversion_oracle(self, g, h, r, v, cyc, what='class conversion'):
        bad = []
        if impl.is_ts(g):
            # time-series -> plain: everything is preserved; node metadata is the time-series node's own dictionary
            if h is None:
                if not (v and cyc and r == 'err CyclicConnectionError'):
                    bad.append(f'{what} ts->plain raised {r[4:]}')
                return bad
            if type(h) is not CausalGraph:
                bad.append(f'{what} ts->plain produced {type(h).__name__}')
            if node_view(h) != node_view(g) or edge_view(h) != edge_view(g) or cj(h.meta) != cj(g.meta):
                bad.append(f'{what} ts->plain does not preserve nodes / edges / metadata')
            return bad
        # plain -> time-series
        lag = {n.identifier: parse_name(n.identifier) for n in g.get_nodes()}
        unparsable = [n for n, p in lag.items() if p is None]
        against = [(e.source.identifier, e.destination.identifier) for e in g.get_edges()
                   if etext(e.get_edge_type()) == '->' and not unparsable
                   and lag[e.source.identifier][1] > lag[e.destination.identifier][1]]
        should_fail = bool(unparsable) or bool(against)
        if h is None:
            if should_fail and r == 'err ValueError':
                return bad
            if v and cyc and not should_fail and r == 'err CyclicConnectionError':
                return bad
            if v and cyc and r in ('err ValueError', 'err CyclicConnectionError'):
                return bad          # which of the two comes first depends on the edge order
            bad.append(f'{what} plain->ts raised {r[4:]} (unparsable={unparsable[:2]}, against time={against[:2]})')
            return bad
        if should_fail:
            bad.append(f'{what} plain->ts accepted a graph with unparsable names {unparsable[:2]} / edges against time {against[:2]}')
            return bad
        if v and cyc:
            bad.append(f'{what} plain->ts validated accepted a directed cycle')
        if type(h) is not TimeSeriesCausalGraph:
            bad.append(f'{what} plain->ts produced {type(h).__name__}')
        if node_view(h, strip_ts=True) != node_view(g, strip_ts=True):
            bad.append(f'{what} plain->ts changed identifiers / variable types / user metadata')
        for n in h.get_nodes():
            if (n.variable_name, n.time_lag) != lag[n.identifier]:
                bad.append(f'{what} plain->ts: {n.identifier!r} has variable / lag {(n.variable_name, n.time_lag)}')
        want = {}
        for (s, t), val in edge_view(g).items():
            want[(s, t) if lag[s][1] <= lag[t][1] else (t, s)] = val
        if edge_view(h) != want:
            bad.append(f'{what} plain->ts: edges {sorted(edge_view(h))[:4]} expected {sorted(want)[:4]}')
        if cj(h.meta) != cj(g.meta):
            bad.append(f'{what} plain->ts changed the graph metadata')
        return bad

    def rebuild_permuted(self, g, rng):
        """the same node and edge sets added in a shuffled order; a random part of the nodes is created implicitly from
        Node-object endpoints that carry the node's variable type and metadata"""
        g2 = impl.new_graph('ts' if impl.is_ts(g) else 'plain', dict(g.meta) or None)
        nodes = list(g.get_nodes())
        edges = list(g.get_edges())
        rng.shuffle(nodes)
        rng.shuffle(edges)
        with_edge = {x for e in edges for x in (e.source.identifier, e.destination.identifier)}
        lazy = {n.identifier for n in nodes if n.identifier in with_edge and rng.random() < 0.4}
        NodeCls = TimeSeriesNode if impl.is_ts(g) else Node

        def obj(n):
            m = {k: v for k, v in n.meta.items() if not (impl.is_ts(g) and k in TS_KEYS)}
            return NodeCls(n.identifier, meta=json.loads(json.dumps(m)) or None, variable_type=n.variable_type)
        try:
            for n in nodes:
                if n.identifier not in lazy:
                    g2.add_node(node=obj(n))
            for e in edges:
                g2.add_edge(obj(e.source), obj(e.destination), edge_type=EdgeType(etext(e.get_edge_type())),
                            meta=json.loads(json.dumps(e.meta)) or None, validate=False)
        except Exception:  # noqa: BLE001 - a graph the public API cannot rebuild (not expected)
            return None
        return g2

    # ------------------------------------------------------------------------------------------------------
    def run_mut(self, case, g, rng):
        cls = case['cls']
        lines, out, oracle, tags = [], [], [], set()
        d = through_json(g.to_dict())
        ok = mutate(d, case['mutation'], rng)
        tags.add('mut:' + case['mutation'] + ('' if ok else ':n/a'))
        d = through_json(d)
        text = dict_text(d)
        for tcls, Cls in (('plain', CausalGraph), ('ts', TimeSeriesCausalGraph)):
            for v in (0, 1):
                r, h = reply(lambda: Cls.from_dict(d, validate=bool(v)))
                lines.append(f'dict from {tcls} {v} {text}')
                if case['mutation'] == 'unknown_edge_type' and ok:
                    # outside the model: the implementation stores the unknown text without complaint
                    out.append('unmodelled')
                    tags.add('unknown-edge-type:' + ('accepted' if h is not None else r[4:]))
                else:
                    out.append(r)
                tags.add(tcls + ':' + (r[4:] if h is None else 'ok'))
                if h is not None and case['mutation'] != 'unknown_edge_type':
                    # whatever was built re-serialises to a fixed point
                    d1 = through_json(h.to_dict())
                    r2, h2 = reply(lambda: Cls.from_dict(d1, validate=False))
                    if h2 is None or dict_text(through_json(h2.to_dict())) != dict_text(d1):
                        oracle.append(f'mutated dictionary ({case["mutation"]}): result does not round-trip')
        key = hashlib.sha1((text + case['mutation']).encode()).hexdigest()
        return {'lines': lines, 'impl': out, 'oracle': oracle, 'nontrivial': ok and bool(g.get_edges()), 'key': key,
                'tags': sorted(tags)}

    def signature(self, case, failure):
        return 'C05:' + case['cls'] + ':' + failure.split(':')[0][:80]

    def shrink(self, case, still_fails):
        if case.get('kind') == 'hist':
            return histories.shrink_ops(case, still_fails)
        return case
