"""C16 lane: the stationary graph is the least stationary super-graph; the test agrees.

Model side: `ts stationary <graph> <idx>`, `ts isstationary <graph> <idx>` (CG.TS.stationaryGraph / isStationaryGraph).
"""
import re

from harness import histories, tsgen
from harness.core import LaneBase
from harness.tsgen import fmt

_SUFFIX = re.compile(r' (lag|future)\(n=\d+\)$')


def gen_c16(rng):
    """windows ending at 0; DAG inputs (partial and complete instantiations, with and without an acyclic
    contemporaneous template part), floating nodes beyond every edge, and non-DAG inputs equal to their own completion"""
    x = rng.random()
    if x < 0.55:
        case = tsgen.gen_consistent(rng, end0=True, dag_only=True, complete=rng.random() < 0.45)
        case['kind'] = 'dag'
    elif x < 0.63:
        # contemporaneous template part cyclic, each template at its own lag: a DAG whose completion is cyclic
        vs = tsgen.pick_vars(rng, 3, 4)[:3]
        if len(vs) < 3:
            vs = ['X', 'Y', 'Z']
        a, b, c = vs
        ops = [['add_edge', fmt(a, -2), fmt(b, -2), '->', {}, True], ['add_edge', fmt(b, -1), fmt(c, -1), '->', {}, True],
               ['add_edge', c, a, '->', {}, True]]
        if rng.random() < 0.5:
            ops.append(['add_edge', fmt(a, -1), c, '->', {}, True])
        rng.shuffle(ops)
        case = {'kind': 'dag-cyclic-templates', 'gmeta': None, 'ops': ops}
    elif x < 0.75:
        # complete instantiation containing a non-directed template: equals its completion, but is not a DAG
        vars_ = tsgen.pick_vars(rng, 2, 3)
        vinfo = tsgen.var_info(rng, vars_)
        T = tsgen.gen_templates(rng, vars_, dag_only=True, n=rng.randint(0, 3))
        for _ in range(5):
            s, d = rng.choice(vars_), rng.choice(vars_)
            delta = tsgen.pick_delta(rng, 2)
            if delta == 0 and (s == d or (s, d, 0) in T or (d, s, 0) in T):
                continue
            if (s, d, delta) in T:
                continue
            T[(s, d, delta)] = (rng.choice(tsgen.EDGE_TYPES[:1] + tsgen.EDGE_TYPES[2:]), {})
            break
        lo = -rng.randint(0, 3)
        complete = rng.random() < 0.8
        insts = tsgen.instances(rng, T, lo, 0, complete=complete)
        floating = [(v, l) for v in vars_ for l in range(lo, 1)] if complete else []
        case = {'kind': 'nondag-undirected', 'gmeta': None, 'ops': tsgen.build_ops(rng, insts, vinfo, floating)}
    elif x < 0.85:
        # a contemporaneous directed cycle entered with validate=False, complete over the window
        vars_ = tsgen.pick_vars(rng, 2, 4)
        if len(vars_) < 2:
            vars_ = ['X', 'Y']
        vinfo = tsgen.var_info(rng, vars_)
        cyc = list(vars_)
        rng.shuffle(cyc)
        k = rng.randint(2, len(cyc))
        T = {(cyc[i], cyc[(i + 1) % k], 0): ('->', {}) for i in range(k)}
        if k == 2:
            T = {(cyc[0], cyc[1], 0): ('->', {}), (cyc[1], cyc[0], 1): ('->', {}), (cyc[0], cyc[1], 1): ('->', {})}
            if len(cyc) > 2:
                T = {(cyc[0], cyc[1], 0): ('->', {}), (cyc[1], cyc[2], 0): ('->', {}), (cyc[2], cyc[0], 0): ('->', {})}
        if rng.random() < 0.5:
            T[(cyc[0], cyc[0], 1)] = ('->', {})
        lo = -rng.randint(0, 2)
        complete = rng.random() < 0.8
        insts = tsgen.instances(rng, T, lo, 0, complete=complete)
        floating = [(v, l) for v in vars_ for l in range(lo, 1)] if complete else []
        case = {'kind': 'nondag-cycle', 'gmeta': None,
                'ops': tsgen.build_ops(rng, insts, vinfo, floating, validate=False)}
    elif x < 0.92:
        case = tsgen.gen_consistent(rng, end0=True)          # all edge types, partial
        case['kind'] = 'mixed-types'
    else:
        case = tsgen.gen_inconsistent(rng, end0=True)
    if case['kind'] in ('dag', 'mixed-types') and rng.random() < 0.35:
        # a floating node beyond every edge: it widens the window
        node_ops = [o for o in case['ops'] if o[0] == 'add_node']
        if node_ops:
            v = rng.choice(node_ops)
            base = _SUFFIX.sub('', v[1])
            case['ops'].insert(rng.randint(0, len(case['ops'])), ['add_node', fmt(base, -rng.randint(3, 5)), v[2], dict(v[3])])
            case['kind'] += '+deep-floating'
    return case


class Lane(LaneBase):
    PROP = 'C16'
    THEOREMS = 'auto'
    AUDIT = 'CG/Audit/C16.lean'
    DIFF_IS_FAILURE = False
    RULE = ('template sets instantiated partially or completely over windows [-3..0, 0] (55 % directed-only DAG inputs, '
            '45 % of them complete = stationary), DAGs whose contemporaneous templates are cyclic, floating nodes '
            'beyond every edge (35 % of the DAG inputs), non-DAG inputs that equal their own completion (a '
            'non-directed template; a contemporaneous directed cycle entered with validate=False), all edge types, '
            'and inconsistent / non-canonical / no-lag-0 inputs (correspondence incl. error class only).  Compared: '
            'full graph token of get_stationary_graph(), is_stationary_graph(), and both again on the result.  '
            'Non-trivial: in-domain input with an edge and latest lag 0; distinct by the graph token.')
    TRUSTED = ['the insertion order of the variable index is read from the implementation and handed to the model']
    PARTIAL = []

    def cases(self, tier, rng):
        n = 8000 if tier == 'quick' else 80000
        for _ in range(n):
            yield gen_c16(rng)

    def run_case(self, case):
        g, rejected = tsgen.build(case)
        tok, idx = tsgen.graph_args(g)
        lines = [f'ts stationary {tok} {idx}', f'ts isstationary {tok} {idx}']
        import zlib
        if zlib.crc32(tok.encode()) % 2:
            # either order of the two calls must give the same answers (the test caches, the builder must not care)
            iss, r2 = tsgen.reply_bool(g.is_stationary_graph)
            s, r1 = tsgen.reply_graph(g.get_stationary_graph)
        else:
            s, r1 = tsgen.reply_graph(g.get_stationary_graph)
            iss, r2 = tsgen.reply_bool(g.is_stationary_graph)
        out = [r1, r2]
        s_iss = None
        if s is not None:
            stok, sidx = tsgen.graph_args(s)
            lines += [f'ts isstationary {stok} {sidx}', f'ts stationary {stok} {sidx}']
            s_iss, r3 = tsgen.reply_bool(s.is_stationary_graph)
            _, r4 = tsgen.reply_graph(s.get_stationary_graph)
            out += [r3, r4]
        tags = [case['kind'], 'stat:' + (r1.split(' ')[0] if r1.startswith('ok') else r1.replace(' ', ':')),
                'is:' + r2.replace(' ', ':')]
        oracle = []
        nodes = g.get_nodes()
        dom = tsgen.in_domain(g) and len(nodes) > 0 and max(n.time_lag for n in nodes) == 0
        if dom:
            tags.append('in-domain')
            oracle = self.oracle(g, s, r1, iss, r2, s_iss, out, tags)
        else:
            tags.append('out-of-domain')
            oracle = tsgen.coherence_failures(g)
        if dom and zlib.crc32(tok.encode()) % 3 == 0:
            # graphs the library itself hands out are ordinary graphs: the test on them, asked before anything else
            for name, f in (('get_minimal_graph()', g.get_minimal_graph),
                            ('from_adjacency_matrices(*to_numpy_by_lag())',
                             lambda: type(g).from_adjacency_matrices(*g.to_numpy_by_lag())),
                            ('extend_graph(1, 0)', lambda: g.extend_graph(1, 0))):
                try:
                    m = f()
                except Exception:  # noqa: BLE001
                    continue
                mt, mi = tsgen.graph_args(m)
                b, rb = tsgen.reply_bool(m.is_stationary_graph)
                lines.append(f'ts isstationary {mt} {mi}')
                out.append(rb)
                mn = m.get_nodes()
                if tsgen.in_domain(m) and mn and max(n.time_lag for n in mn) == 0:
                    ms = tsgen.shape(m)
                    mw = tsgen.spec_stationary_of(m)
                    expect = tsgen.is_dag_spec(m) and ms[0] == mw[0] and self.norm(ms[1]) == self.norm(mw[1])
                    if b is None or bool(b) != expect:
                        oracle.append(f'isstat-derived: is_stationary_graph() of the graph returned by {name} answered '
                                      f'{rb}; by the definition it is {expect}')
        lines, out, _cut = tsgen.fit_budget(lines, out)       # (after the oracle has seen every reply)
        return {'lines': lines, 'impl': out, 'oracle': oracle, 'nontrivial': dom and len(g.get_edges()) > 0,
                'key': tsgen.digest(tok, idx), 'tags': tags}

    def oracle(self, g, s, r1, iss, r2, s_iss, out, tags):
        bad = []
        dag = tsgen.is_dag_spec(g)
        want = tsgen.spec_stationary_of(g)
        gshape = tsgen.shape(g)
        equal_own = gshape[0] == want[0] and self.norm(gshape[1]) == self.norm(want[1])
        tags.append(('dag' if dag else 'nondag') + ('-complete' if equal_own else '-incomplete'))
        if not dag:
            # false for any graph that is not a DAG
            if r2 != '0':
                bad.append(f'isstat-nondag: is_stationary_graph() answered {r2} on a graph that is not a DAG')
            return bad
        if s is None:
            return [f'stat-raised: get_stationary_graph raised {r1[4:]} on a template-consistent DAG with latest lag 0']
        got = tsgen.shape(s)
        gn, ge = gshape
        sn, se = got
        if not (gn <= sn and set(ge.items()) <= set(se.items())):
            bad.append(f'stat-contains: the stationary graph misses nodes {sorted(gn - sn)[:3]} or edges '
                       f'{sorted(set(ge.items()) - set(se.items()))[:3]} of the input')
        lo = min(l for _, l in gn)
        if sn and (min(l for _, l in sn), max(l for _, l in sn)) != (lo, 0):
            bad.append('stat-window: the stationary graph spans a different lag window')
        bad += tsgen.shape_diff('stat-shape: get_stationary_graph differs from the least stationary super-graph', got, want)
        if not tsgen.is_stationary_shape(sn, se):
            bad.append('stat-stationary: the result is not stationary (a variable missing at a lag, or a fitting copy missing)')
        bad += tsgen.names_canonical_failures('stat-names', s)
        # the test on the result: accepted exactly when the result is a DAG
        if s_iss is None:
            bad.append(f'stat-isstat: is_stationary_graph() of the result raised {out[2][4:]}')
        elif bool(s_iss) != tsgen.is_dag_spec(s):
            bad.append(f'stat-isstat: is_stationary_graph() of the result is {s_iss}, the result '
                       f'{"is" if tsgen.is_dag_spec(s) else "is not"} a DAG')
        if len(out) > 3 and out[3] != r1:
            bad.append('stat-idem: the stationary graph of the stationary graph differs from it')
        # the test on the input
        if iss is None:
            bad.append(f'isstat-raised: is_stationary_graph raised {r2[4:]}')
        elif bool(iss) != equal_own:
            bad.append(f'isstat: is_stationary_graph() = {iss} but the graph '
                       f'{"equals" if equal_own else "differs from"} its completion')
        return bad

    @staticmethod
    def norm(edges):
        return {frozenset(k): (t, None if t in tsgen.SYM else k) for k, t in edges.items()}

    def signature(self, case, failure):
        return 'C16:' + failure.split(':')[0]

    def shrink(self, case, still_fails):
        return histories.shrink_ops(case, still_fails)

    def describe(self, case):
        return tsgen.describe(case)
