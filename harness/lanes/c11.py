"""
Lane C11 -- d-separation answers match the graphical definition.

One case = one graph with all its queries.

* every labelled DAG on <= 4 nodes (quick; plus a seeded sample of 5-node DAGs) / <= 5 nodes (thorough, 29 281 + 543 + ...),
  every ordered pair (x, y), every conditioning subset; on <= 4 nodes also x == y and conditioning sets that contain an
  end node (outside the property, compared with the model only), and set-valued X, Y;
* argument forms: identifier / Node object, bare / list / set, `None` for the empty conditioning set -- rotated over the
  queries of a graph (all forms for every query on <= 3 nodes);
* `get_d_separation_set` for every ordered pair: the precondition outcome (`dsep getpre`) and, when it returns, the
  validity of the returned set (`dsep validsep`);
* `is_minimally_d_separated` for every subset -- twice where affordable: as is, and with
  `networkx.is_minimal_d_separator` replaced by the marking routine of networkx <= 3.1 that does *not* verify separation
  (the situation the extra `and self.is_d_separated(...)` in the code exists for);
* assertion paths: unknown node, cyclic graph (validate=False), graph with a non-directed edge.

Oracle: brute-force path blocking over all simple skeleton paths (no networkx, no Lean).
"""
from __future__ import annotations

import itertools

from harness import gen
from harness.core import LaneBase, hx, hxedges, hxlist

NAMES = gen.NAMES


# ----------------------------------------------------------------------------------------------
# brute-force d-separation (independent of networkx and of the Lean model)
# ----------------------------------------------------------------------------------------------

class BF:
    def __init__(self, nodes, edges):
        self.nodes = list(nodes)
        self.E = set(edges)
        self.adj = {x: set() for x in nodes}
        for a, b in edges:
            self.adj[a].add(b)
            self.adj[b].add(a)
        d = gen.brute_descendants(self.nodes, edges)
        self.ds = {x: frozenset(d[x] | {x}) for x in nodes}
        self._paths = {}

    def paths(self, x, y):
        """every simple skeleton path from x to y, pre-digested into its interior triples"""
        k = (x, y)
        if k in self._paths:
            return self._paths[k]
        out = []

        def rec(p):
            a = p[-1]
            if a == y:
                trip = []
                for i in range(1, len(p) - 1):
                    u, b, w = p[i - 1], p[i], p[i + 1]
                    trip.append((b, (u, b) in self.E and (w, b) in self.E, self.ds[b]))
                out.append(trip)
                return
            for s in sorted(self.adj[a]):
                if s not in p:
                    p.append(s)
                    rec(p)
                    p.pop()

        rec([x])
        self._paths[k] = out
        return out

    @staticmethod
    def blocked(trip, Z):
        for b, collider, ds in trip:
            if collider:
                if not (ds & Z):
                    return True
            elif b in Z:
                return True
        return False

    def dsep(self, x, y, Z):
        Z = frozenset(Z)
        return all(self.blocked(t, Z) for t in self.paths(x, y))

    def dsep_sets(self, X, Y, Z):
        return all(self.dsep(x, y, Z) for x in X for y in Y)

    def minimal(self, x, y, Z):
        Z = frozenset(Z)
        return self.dsep(x, y, Z) and not any(self.dsep(x, y, Z - {z}) for z in Z)

    def minimal_strict(self, x, y, Z):
        """separates and NO proper subset separates (the stronger textbook reading)"""
        Z = frozenset(Z)
        if not self.dsep(x, y, Z):
            return False
        zs = sorted(Z)
        for r in range(len(zs)):
            for c in itertools.combinations(zs, r):
                if self.dsep(x, y, frozenset(c)):
                    return False
        return True


def subsets(xs):
    xs = list(xs)
    for r in range(len(xs) + 1):
        for c in itertools.combinations(xs, r):
            yield list(c)


# ----------------------------------------------------------------------------------------------
# networkx <= 3.1 behaviour of is_minimal_d_separator: the marking test alone, separation NOT verified
# ----------------------------------------------------------------------------------------------

def legacy_is_minimal_d_separator(G, u, v, z):
    import networkx as nx
    x_anc = nx.ancestors(G, u)
    y_anc = nx.ancestors(G, v)
    xy_anc = x_anc.union(y_anc)
    if any(node not in xy_anc for node in z):
        return False
    D = set(xy_anc)
    D.update((u, v))
    moral = nx.moral_graph(G.subgraph(D))

    def marks_from(start):
        visited, marked, queue = {start}, set(), [start]
        while queue:
            m = queue.pop(0)
            for nbr in moral.neighbors(m):
                if nbr not in visited:
                    visited.add(nbr)
                    if nbr in z:
                        marked.add(nbr)
                    else:
                        queue.append(nbr)
        return marked

    if any(node not in marks_from(u) for node in z):
        return False
    if any(node not in marks_from(v) for node in z):
        return False
    return True


class legacy_networkx:
    def __enter__(self):
        import networkx
        self.nx = networkx
        self.saved = networkx.is_minimal_d_separator
        networkx.is_minimal_d_separator = legacy_is_minimal_d_separator
        return self

    def __exit__(self, *a):
        self.nx.is_minimal_d_separator = self.saved
        return False


# ----------------------------------------------------------------------------------------------
# calling the implementation
# ----------------------------------------------------------------------------------------------

DECOY = [None]      # a second graph over the same names that is asked every question first (see run_case)


def call(f, *a, **kw):
    d = DECOY[0]
    if d is not None and getattr(f, '__self__', None) is not None and f.__self__ is not d:
        # the same question goes to the decoy first: answers belong to the graph that is asked, never to the process
        try:
            getattr(d, f.__name__)(*[getattr(x, 'identifier', x) if not isinstance(x, (list, set)) else
                                     type(x)(getattr(y, 'identifier', y) for y in x) for x in a], **kw)
        except Exception:  # noqa: BLE001
            pass
    try:
        r = f(*a, **kw)
    except Exception as e:  # noqa: BLE001 - the class name is the observation
        return 'err ' + type(e).__name__
    return r


def b01(r):
    if r is True:
        return '1'
    if r is False:
        return '0'
    return str(r)


X_FORMS = ['id', 'node', 'list', 'set', 'nodelist', 'nodeset']
Z_FORMS = ['set', 'list', 'nodeset', 'nodelist']


def shape(g, ids, form, allow_bare=True):
    """the same collection of identifiers in one of the accepted argument forms"""
    ids = list(ids)

    def node(i):
        return g.get_node(i) if g.node_exists(i) else i

    if form in ('id', 'node'):
        if allow_bare and len(ids) == 1:
            return ids[0] if form == 'id' else node(ids[0])
        form = 'set' if form == 'id' else 'nodeset'
    if form == 'list':
        return ids + ids[:1]          # a list may repeat an element
    if form == 'set':
        return set(ids)
    if form == 'nodelist':
        return [node(i) for i in ids]
    if form == 'nodeset':
        return {node(i) for i in ids}
    raise ValueError(form)


class Lane(LaneBase):
    PROP = 'C11'
    THEOREMS = 'auto'
    AUDIT = 'CG/Audit/C11.lean'
    RULE = ('a graph is non-trivial when is_d_separated answered both True and False on it; distinct by labelled edge '
            'set (plus the kind of graph for the assertion cases)')
    TRUSTED = [
        'networkx 3.2.1 d_separated / minimal_d_separator / is_minimal_d_separator agree with the definitional model '
        '(path blocking over all simple skeleton paths) -- measured on every labelled DAG up to 5 nodes, not proved',
        'for conditioning sets that contain an end node networkx.d_separated follows the endpoint rule of the model '
        '(CG.DSepDec.DSepX) and is_minimal_d_separator answers False -- measured on every labelled DAG up to 4 nodes',
        'argument coercion (bare / list / set, Node objects) is exercised by the lane, the model receives identifier lists',
        'minimality is "no single node can be removed" (what the property says and what is proved); that this coincides '
        'with "no proper subset separates" (Tian & Paz) is measured (every labelled DAG up to 5 nodes by the probe, up to 4 '
        'by the oracle on every run), not proved',
        'networkx 3.2.1 is_minimal_d_separator verifies separation itself, so the extra `and self.is_d_separated(...)` is '
        'unobservable with the pinned dependency; the lane therefore also runs is_minimally_d_separated with the '
        'networkx <= 3.1 marking routine (no separation check) substituted, where the conjunct is what makes it exact',
    ]
    PARTIAL = []
    EXHAUSTIVE = {'quick': False, 'thorough': True}

    # ---- cases ---------------------------------------------------------------------------------
    def cases(self, tier, rng):
        for n in range(0, 5):
            for edges in gen.all_labelled_dags(n):
                yield {'kind': 'dag', 'n': n, 'edges': [list(e) for e in edges], 'seed': rng.randrange(1 << 30)}
        if tier == 'quick':
            five = list(gen.all_labelled_dags(5))
            for edges in rng.sample(five, 1500):
                yield {'kind': 'dag', 'n': 5, 'edges': [list(e) for e in edges], 'seed': rng.randrange(1 << 30)}
        else:
            for edges in gen.all_labelled_dags(5):
                yield {'kind': 'dag', 'n': 5, 'edges': [list(e) for e in edges], 'seed': rng.randrange(1 << 30)}
            for _ in range(300):
                n = rng.choice([6, 6, 7])
                yield {'kind': 'dag', 'n': n, 'edges': [list(e) for e in gen.random_dag(rng, n, p=rng.choice([.25, .4, .55]))],
                       'seed': rng.randrange(1 << 30), 'sample': 40}
        # assertion paths: directed cycles (validate=False) and graphs with a non-directed edge
        # (a 2-cycle cannot be built: the reverse-edge check fires even with validate=False)
        cyc = [[(0, 1), (1, 2), (2, 0)], [(0, 1), (1, 2), (2, 0), (2, 3)], [(3, 0), (0, 1), (1, 2), (2, 0)],
               [(0, 1), (1, 2), (2, 3), (3, 1)], [(0, 1), (1, 2), (2, 3), (3, 0)]]
        for es in cyc:
            yield {'kind': 'cyclic', 'n': 4, 'edges': [list(e) for e in es], 'seed': rng.randrange(1 << 30)}
        mixed = [e for e in gen.all_mixed_graphs(3, types=['->', '--', '<>', 'o>'], both_orientations=False)
                 if any(t != '->' for _, _, t in e)]
        for es in rng.sample(mixed, 40 if tier == 'quick' else len(mixed)):
            yield {'kind': 'mixed', 'n': 3, 'tedges': [list(e) for e in es], 'seed': rng.randrange(1 << 30)}

    def describe(self, case):
        if case['kind'] == 'mixed':
            return {'kind': 'mixed', 'edges': [f'{NAMES[a]} {t} {NAMES[b]}' for a, b, t in case['tedges']]}
        return {'kind': case['kind'], 'n': case['n'], 'edges': [f'{NAMES[a]}->{NAMES[b]}' for a, b in case['edges']]}

    # ---- one case ------------------------------------------------------------------------------
    def run_case(self, case):
        import random
        rng = random.Random(case['seed'])
        if case['kind'] == 'mixed':
            return self._run_mixed(case, rng)
        n = case['n']
        names = NAMES[:n]
        ts_cls = None
        if case['kind'] == 'dag' and case['seed'] % 4 == 0 and n >= 2:
            # the same DAG as a time-series graph: names whose lags grow with depth, so that every edge respects time
            from cai_causal_graph import TimeSeriesCausalGraph as ts_cls
            names = gen.ts_names(n, [tuple(e) for e in case['edges']])
        edges = [(names[a], names[b]) for a, b in case['edges']]
        if case['kind'] == 'cyclic':
            g = gen.build_mixed(names, [(a, b, '->') for a, b in edges], validate=False)
        else:
            g = gen.build_dag(n, case['edges'], names=names, cls=ts_cls)
        hn, he = hxlist(names), hxedges(edges)
        lines, impl, oracle, tags = [], [], [], [f'kind={case["kind"]}', f'n={n}', f'm={len(edges)}']
        DECOY[0] = None
        if case['kind'] == 'dag' and case['seed'] % 5 == 2 and n >= 3:
            # a decoy: the same nodes with every edge reversed (a different DAG with different separations), fully built
            # BEFORE the first query and asked each question right before the graph under test
            try:
                decoy = type(g)() if ts_cls is None else None
                if decoy is not None:
                    for x in names:
                        decoy.add_node(x)
                    for a_, b_ in edges:
                        decoy.add_edge(b_, a_)
                    DECOY[0] = decoy
                    tags.append('decoy-interleaved')
            except Exception:  # noqa: BLE001
                DECOY[0] = None
        if case['kind'] == 'dag' and n >= 3:
            others = lambda x, y: [z for z in names if z not in (getattr(x, 'identifier', x), getattr(y, 'identifier', y))][:1]
            oracle += gen.nodeform_agree(g, names, [
                ('is_d_separated', lambda x, y: g.is_d_separated(x, y, set(others(x, y)))),
                ('is_d_separated(list forms)', lambda x, y: g.is_d_separated([x], [y], others(x, y))),
                ('is_minimally_d_separated', lambda x, y: g.is_minimally_d_separated(x, y, set(others(x, y)))),
                ('get_d_separation_set', lambda x, y: (g.get_d_separation_set(x, y) is not None) if not (g.edge_exists(x, y) or g.edge_exists(y, x)) else None),
            ], key=('c11', n, tuple(map(tuple, case['edges']))))
        bf = BF(names, edges) if case['kind'] == 'dag' else None
        answers = set()
        counter = [rng.randrange(24)]

        def forms():
            counter[0] += 1
            c = counter[0]
            return X_FORMS[c % 6], X_FORMS[(c // 6 + c) % 6], Z_FORMS[(c // 2) % 4]

        def ask_is(X, Y, Z, check=True, all_forms=False):
            fx, fy, fz = forms()
            combos = [(fx, fy, fz)]
            if all_forms:
                combos = [(a, b, c) for a in X_FORMS for b in X_FORMS[:2] + X_FORMS[3:4] for c in Z_FORMS[:2]]
            res = set()
            for a, b, c in combos:
                zz = None if (not Z and (counter[0] + len(res)) % 2 == 0) else shape(g, Z, c, allow_bare=False)
                res.add(b01(call(g.is_d_separated, shape(g, X, a), shape(g, Y, b), zz)))
            if len(X) == 1 and len(Y) == 1 and not Z and counter[0] % 3 == 0:
                res.add(b01(call(g.is_d_separated, shape(g, X, fx), shape(g, Y, fy))))      # default argument
            r = res.pop() if len(res) == 1 else 'forms-disagree:' + '/'.join(sorted(res))
            if r.startswith('forms-disagree'):
                oracle.append(f'is_d_separated({X},{Y},{Z}) depends on the argument form: {r}')
            lines.append(f'dsep is {hn} {he} {hxlist(X)} {hxlist(Y)} {hxlist(Z)}')
            impl.append(r)
            if case['kind'] == 'dag' and counter[0] % 2 == 0:
                # the transcription of networkx's own algorithm (CG.NxDSep) against the real networkx.d_separated
                from harness.lanes.c11_nx import nx_lines
                ln, exp = nx_lines(names, edges, X, Y, Z)
                lines.append(ln)
                impl.append(exp)
            if bf is not None and check:
                want = b01(bf.dsep_sets(X, Y, Z))
                answers.add(r)
                if r != want:
                    oracle.append(f'is_d_separated({X},{Y},{Z}) = {r}, path blocking says {want}; edges {edges}')
            return r

        if case['kind'] == 'cyclic':
            for x, y in itertools.permutations(names[:3], 2):
                ask_is([x], [y], [])
                lines.append(f'dsep minimal {hn} {he} {hx(x)} {hx(y)} .')
                impl.append(b01(call(g.is_minimally_d_separated, x, y, set())))
                lines.append(f'dsep getpre {hn} {he} {hx(x)} {hx(y)}')
                r = call(g.get_d_separation_set, x, y)
                impl.append(r if isinstance(r, str) else 'ok')
            return {'lines': lines, 'impl': impl, 'oracle': oracle, 'nontrivial': True,
                    'key': 'cyclic:' + he, 'tags': tags}

        sample = case.get('sample')
        small = n <= 4
        pairs = [(x, y) for x in names for y in names if small or x != y]
        for x, y in pairs:
            pool = names if small else [v for v in names if v not in (x, y)]
            zsets = list(subsets(pool))
            if sample:
                zsets = rng.sample(zsets, min(len(zsets), 4))
            for Z in zsets:
                inside = x != y and x not in Z and y not in Z
                ask_is([x], [y], Z, check=inside, all_forms=(n <= 3 and inside))
                # is_minimally_d_separated, as is and with the networkx <= 3.1 marking routine
                fz = Z_FORMS[(counter[0] // 3) % 4]
                zz = None if (not Z and counter[0] % 2) else shape(g, Z, fz, allow_bare=False)
                xa = x if counter[0] % 2 else g.get_node(x)
                ya = y if counter[0] % 4 < 2 else g.get_node(y)
                r = b01(call(g.is_minimally_d_separated, xa, ya, zz))
                if inside and (small or (counter[0] & 7) == 0 or sample):
                    with legacy_networkx():
                        r2 = b01(call(g.is_minimally_d_separated, xa, ya, zz))
                    if r2 != r:
                        oracle.append(f'is_minimally_d_separated({x},{y},{Z}) = {r}, but {r2} when the third-party '
                                      f'minimality routine does not verify separation (networkx <= 3.1); edges {edges}')
                        r = f'nx3.2:{r}/nx3.1:{r2}'
                lines.append(f'dsep minimal {hn} {he} {hx(x)} {hx(y)} {hxlist(Z)}')
                impl.append(r)
                if counter[0] % 3 == 0:
                    # the transcription of networkx's own marking algorithm (CG.NxMinSep) against the real routine
                    from harness.lanes.c11_nxmin import nxmin_lines
                    for ln, exp in nxmin_lines(names, edges, x, y, Z):
                        lines.append(ln)
                        impl.append(exp)
                if inside:
                    want = b01(bf.minimal(x, y, Z))
                    if r != want:
                        oracle.append(f'is_minimally_d_separated({x},{y},{Z}) = {r}, definition says {want}; edges {edges}')
                    if n <= 4 and bf.minimal(x, y, Z) != bf.minimal_strict(x, y, Z):
                        oracle.append(f'no-single-removal and no-proper-subset minimality differ at ({x},{y},{Z}); edges {edges}')
            # get_d_separation_set
            xa = x if counter[0] % 2 else g.get_node(x)
            r = call(g.get_d_separation_set, xa, y)
            lines.append(f'dsep getpre {hn} {he} {hx(x)} {hx(y)}')
            impl.append(r if isinstance(r, str) else 'ok')
            if not isinstance(r, str):
                Zr = sorted(r)
                adjacent = x == y or (x, y) in bf.E or (y, x) in bf.E
                # what the CODE returned against the transcription of networkx's algorithm (the returned set does not
                # depend on node / edge order), and the bare third-party routine against the same transcription
                lines.append(f'nxmin sep {hn} {he} {hx(x)} {hx(y)}')
                impl.append(hxlist(Zr))
                if counter[0] % 2 == 0:
                    from harness.lanes.c11_nxmin import nxmin_lines
                    for ln, exp in nxmin_lines(names, edges, x, y):
                        lines.append(ln)
                        impl.append(exp)
                lines.append(f'dsep validsep {hn} {he} {hx(x)} {hx(y)} {hxlist(Zr)}')
                # for adjacent (or equal) nodes nothing separates, whatever is returned is invalid
                impl.append('0' if adjacent else '1')
                if not adjacent:
                    if not isinstance(r, set):
                        oracle.append(f'get_d_separation_set({x},{y}) returned {type(r).__name__}, not a set')
                    if not bf.minimal(x, y, Zr):
                        oracle.append(f'get_d_separation_set({x},{y}) = {Zr} is not a minimal d-separator; edges {edges}')
                elif 'getset-returns-for-adjacent-pair' not in tags:
                    tags.append('getset-returns-for-adjacent-pair')
            elif x != y and (x, y) not in bf.E and (y, x) not in bf.E:
                oracle.append(f'get_d_separation_set({x},{y}) raised {r} for a non-adjacent pair; edges {edges}')

        # set-valued X, Y
        if n <= 3:
            for X in subsets(names):
                for Y in subsets(names):
                    for Z in subsets(names):
                        if len(X) == 1 and len(Y) == 1:
                            continue
                        disjoint = not (set(X) & set(Y) or set(X) & set(Z) or set(Y) & set(Z))
                        ask_is(X, Y, Z, check=disjoint)
        else:
            qs = []
            for X in subsets(names):
                for Y in subsets([v for v in names if v not in X]):
                    if X and Y and len(X) + len(Y) >= 3:
                        for Z in subsets([v for v in names if v not in X and v not in Y]):
                            qs.append((X, Y, Z))
            if n >= 5:
                qs = rng.sample(qs, min(len(qs), 6))
            for X, Y, Z in qs:
                ask_is(X, Y, Z)
        # unknown node → AssertionError
        if names:
            x = rng.choice(names)
            for X, Y, Z in (([x], ['zz'], []), (['zz'], [x], []), ([x], [x], ['zz'])):
                ask_is(X, Y, Z, check=False)
            lines.append(f'dsep minimal {hn} {he} {hx(x)} {hx("zz")} .')
            impl.append(b01(call(g.is_minimally_d_separated, x, 'zz', set())))
            lines.append(f'dsep getpre {hn} {he} {hx("zz")} {hx(x)}')
            r = call(g.get_d_separation_set, 'zz', x)
            impl.append(r if isinstance(r, str) else 'ok')
        if any(len([1 for a, b in edges if b == c]) >= 2 for c in names):
            tags.append('has-collider')
        return {'lines': lines, 'impl': impl, 'oracle': oracle, 'nontrivial': answers >= {'0', '1'},
                'key': f'{n}:{he}', 'tags': tags}

    def _run_mixed(self, case, rng):
        n = case['n']
        names = NAMES[:n]
        tedges = [(NAMES[a], NAMES[b], t) for a, b, t in case['tedges']]
        g = gen.build_mixed(names, tedges)
        hn = hxlist(names)
        ht = ','.join(f'{hx(a)}>{hx(b)}:{t}' for a, b, t in tedges) or '.'
        lines, impl = [], []
        for x, y in itertools.permutations(names, 2):
            lines.append(f'dsep ist {hn} {ht} {hx(x)} {hx(y)} .')
            impl.append(b01(call(g.is_d_separated, x, y)))
        return {'lines': lines, 'impl': impl, 'oracle': [], 'nontrivial': True, 'key': 'mixed:' + ht,
                'tags': ['kind=mixed']}
