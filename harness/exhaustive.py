"""
Exhaustive small universes for the state-machine lanes (thorough tier): every mixed graph over a universe of three
node names (13 options per unordered pair: none, or one of six types in one of two stored orientations) and, from
each such state, every single-element operation over the universe plus one absent name.

A case = one state + the list of operations tried from it; each operation is applied to a fresh rebuild of the state
(implementation) / a slot copy (model).
"""
from __future__ import annotations

import itertools

from harness import impl

TYPES = ['->', '--', '<>', 'oo', 'o>', 'o-']
UNIVERSE = {'plain': ['a', 'b', 'c'], 'ts': ['X', 'X lag(n=1)', 'Y']}
ABSENT = {'plain': 'z', 'ts': 'Y lag(n=1)'}


def states(cls, node_subsets=True):
    names = UNIVERSE[cls]
    subsets = [names] if not node_subsets else [list(s) for k in range(0, 4) for s in itertools.combinations(names, k)]
    for nodes in subsets:
        pairs = list(itertools.combinations(nodes, 2))
        opts = [None] + [(o, t) for t in TYPES for o in (0, 1)]
        for choice in itertools.product(opts, repeat=len(pairs)):
            edges = []
            ok = True
            for (a, b), c in zip(pairs, choice):
                if c is None:
                    continue
                o, t = c
                s, d = (a, b) if o == 0 else (b, a)
                edges.append([s, d, t])
            if cls == 'ts':
                # stored orientation must respect time: ('X lag(n=1)' earlier than 'X' and 'Y')
                lag = {'X': 0, 'Y': 0, 'X lag(n=1)': -1}
                if any(lag[s] > lag[d] for s, d, _ in edges):
                    ok = False
            if ok:
                yield {'nodes': list(nodes), 'edges': edges}


def build_ops(state):
    return ([['add_node', n, 'unspecified', {}] for n in state['nodes']]
            + [['add_edge', s, d, t, {}, False] for s, d, t in state['edges']])


def ops_from(cls, state):
    names = UNIVERSE[cls] + [ABSENT[cls]]
    ops = []
    for n in names:
        ops.append(['add_node', n, 'binary', {'k': 1}])
        ops.append(['delete_node', n])
        ops.append(['replace_node', n, None, None, None, 'default', {'m': 2}])
        for m in names:
            if m != n:
                ops.append(['replace_node', n, m, None, None, 'default', None])
    if cls == 'ts':
        ops.append(['replace_node', 'X', None, -1, None, 'default', None])
        ops.append(['replace_node', 'X lag(n=1)', None, 0, 'Y', 'default', None])
        ops.append(['add_time_edge', 'X', -1, 'Y', 0, {}, True])
        ops.append(['add_time_edge', 'Y', 0, 'X', -1, {}, True])
    for s in names:
        for d in names:
            for t in ('->', '--', 'o>'):
                ops.append(['add_edge', s, d, t, {}, True])
            ops.append(['delete_edge', s, d, None])
            ops.append(['delete_edge', s, d, '--'])
            for t in ('->', '<>'):
                ops.append(['change_edge_type', s, d, t])
    for s, d, _ in state['edges']:
        for ns in names:
            for nd in names:
                ops.append(['replace_edge', s, d, ns, nd, None, None])
        ops.append(['replace_edge', s, d, d, s, '->', {'r': 1}])
    return ops


def cases(cls_list=('plain', 'ts'), chunk=40):
    for cls in cls_list:
        for st in states(cls):
            ops = ops_from(cls, st)
            for i in range(0, len(ops), chunk):
                yield {'kind': 'exh', 'cls': cls, 'state': st, 'ops': ops[i:i + chunk]}


def run(case, per_op):
    """shared driver: returns (lines, impl_replies, results) where per_op(g_before_snapshot?, ...) is lane-specific.
    per_op(g, op, reply) -> None is called on the implementation after each op."""
    cls, st = case['cls'], case['state']
    lines = [f'g new s {cls} _']
    out = ['ok']
    for op in build_ops(st):
        lines.append(impl.op_line('s', op))
        out.append(None)
    for op in case['ops']:
        g = impl.new_graph(cls)
        for b in build_ops(st):
            impl.apply_op(g, b)
        pre = per_op(g, op, None)
        lines.append('g copy t s')
        out.append('ok')
        lines.append(impl.op_line('t', op))
        r = impl.apply_op(g, op)
        out.append(r)
        lines.append('g obs t')
        out.append(impl.obs(g))
        per_op(g, op, (r, pre))
    return lines, out
