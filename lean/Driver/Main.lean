import CG.Driver.Codec

/-- stateless handlers: first token of a line selects the handler -/
def handlers : List (String × (List String → String)) := [
  ("echo", fun args => " ".intercalate args)
]

partial def loop (h : IO.FS.Stream) (out : IO.FS.Stream) : IO Unit := do
  let line ← h.getLine
  if line.isEmpty then return ()
  let l := (line.dropEndWhile (fun c => c = '\n' || c = '\r')).toString
  let toks := l.splitOn " "
  let reply :=
    match toks with
    | [] => "bad-op"
    | t :: rest =>
      match handlers.lookup t with
      | some f => f rest
      | none => "bad-op"
  out.putStrLn reply
  out.flush
  loop h out

def main : IO Unit := do
  let i ← IO.getStdin
  let o ← IO.getStdout
  loop i o
  o.flush
