import CG.Driver.Codec
import CG.Driver.HGraph
import CG.Driver.HName
import CG.Driver.GraphCodec
import CG.Driver.HQuery
import CG.Driver.HTopo
import CG.Driver.HDsep
import CG.Driver.HAlias
import CG.Driver.HConv
import CG.Driver.HEq
import CG.Driver.HIdent
import CG.Driver.HCache
import CG.Driver.HTs
import CG.Driver.HLag
import CG.Driver.HNx
import CG.Driver.HNxMin
import CG.Driver.HNxReach
import CG.Driver.HNxTopo
import CG.Driver.HPyJson
import CG.Driver.HNxGml
import CG.Driver.HIndex

/-- stateless handlers: first token of a line selects the handler -/
def handlers : List (String × (List String → String)) := [
  ("echo", fun args => " ".intercalate args),
  ("name", CG.Driver.Name.handle),
  ("q10", CG.Driver.Query.handle),
  ("topo", CG.Driver.Topo.handle),
  ("dsep", CG.Driver.Dsep.handle),
  ("alias", CG.Driver.Alias.handle),
  ("dict", CG.Driver.Conv.handleDict),
  ("mx", CG.Driver.Conv.handleMx),
  ("eq", CG.Driver.Eq.handle),
  ("sk", CG.Driver.Eq.handleSk),
  ("ident", CG.Driver.Ident.handle),
  ("cache", CG.Driver.CacheH.handle),
  ("ts", CG.Driver.TS.handle),
  ("lag", CG.Driver.Lag.handle),
  ("nx", CG.Driver.Nx.handle),
  ("nxmin", CG.Driver.NxMin.handle),
  ("nxreach", CG.Driver.NxReach.handle),
  ("nxtopo", CG.Driver.NxTopo.handle),
  ("pyjson", CG.Driver.PyJson.handle),
  ("nxgml", CG.Driver.NxGml.handle),
  ("idx", CG.Driver.Index.handle),
  ("gecho", fun args => match args with
    | [t] => (match CG.Driver.GraphCodec.decGraph? t with | some g => CG.Driver.GraphCodec.encGraph g | none => "bad-op")
    | _ => "bad-op")
]

structure DState where
  slots : CG.Driver.GraphH.Slots := {}

def dispatch (st : DState) (toks : List String) : DState × String :=
  match toks with
  | [] => (st, "bad-op")
  | "g" :: rest =>
    let (s', r) := CG.Driver.GraphH.handle st.slots rest
    ({ st with slots := s' }, r)
  | t :: rest =>
    match handlers.lookup t with
    | some f => (st, f rest)
    | none => (st, "bad-op")

partial def loop (h : IO.FS.Stream) (out : IO.FS.Stream) (st : DState) : IO Unit := do
  let line ← h.getLine
  if line.isEmpty then return ()
  let l := (line.dropEndWhile (fun c => c = '\n' || c = '\r')).toString
  let (st', reply) := dispatch st (l.splitOn " ")
  out.putStrLn reply
  out.flush
  loop h out st'

def main : IO Unit := do
  let i ← IO.getStdin
  let o ← IO.getStdout
  loop i o {}
  o.flush
