/-
Stateful driver handler for the graph state machine: a table of named model graphs, one protocol line per
public call, canonical observation lines.  Formatting only; every value printed is computed by `CG/Model`.
-/
import CG.Driver.Codec
import CG.Model.Views
import CG.Model.OpsImpl
import CG.Model.ArgForms

namespace CG.Driver.GraphH
open CG CG.Codec Std

abbrev Slots := Std.HashMap String Graph

/-- metadata: `_` = empty, otherwise `hexkey=hexvalue&…` (keys sorted by the sender) -/
def decMeta? (t : String) : Option Meta :=
  if t = "_" then some [] else
  (t.splitOn "&").mapM fun item =>
    match item.splitOn "=" with
    | [k, v] => do pure ((← hexDec? k), (← hexDec? v))
    | _ => none

def encMeta (m : Meta) : String :=
  if m.isEmpty then "_" else "&".intercalate (m.map fun (k, v) => hexEnc k ++ "=" ++ hexEnc v)

def decOpt? {α : Type} (f : String → Option α) (t : String) : Option (Option α) :=
  if t = "~" then some none else (f t).map some

/-- `variable_type` argument: a member text, `~` = None, `?s` = an unknown string, `?o` = a non-string object -/
def decVtArg? (t : String) : Option VtArg :=
  if t = "?s" then some .badStr else if t = "?o" then some .badObj else
  if t = "~" then some (.ok none) else (VType.ofText? t).map (fun v => .ok (some v))

def decBool? (t : String) : Option Bool := if t = "1" then some true else if t = "0" then some false else none

/-- endpoint: `hexid` or `@hexid:vt:meta` -/
def decEndpoint? (t : String) : Option Endpoint :=
  if t.startsWith "@" then
    match (t.drop 1).toString.splitOn ":" with
    | [i, vt, m] => do pure { id := (← hexDec? i), obj := some ((← VType.ofText? vt), (← decMeta? m)) }
    | _ => none
  else (hexDec? t).map fun i => { id := i }

def encIds (xs : List String) : String := joinList (xs.map hexEnc)
def encKey (k : EKey) : String := hexEnc k.1 ++ ">" ++ hexEnc k.2
def encKeys (ks : List EKey) : String := joinList (ks.map encKey)
def encExceptIds : Except Err (List String) → String
  | .ok xs => encIds xs
  | .error e => "!" ++ e.text

def encNode (g : Graph) (kv : String × NodeRec) : String :=
  let (n, r) := kv
  match g.cls with
  | .plain => s!"{hexEnc n}|{r.vtype.text}|{encMeta r.md}"
  | .ts => s!"{hexEnc n}|{r.vtype.text}|{encMeta r.md}|{hexEnc r.var}|{r.lag}"

def encEdge (kv : EKey × EdgeRec) : String := s!"{encKey kv.1}|{kv.2.ty.text}|{encMeta kv.2.md}"

/-- every C01 read view of the graph in one canonical line -/
def obs (g : Graph) : String :=
  let names := getNodeNames g
  let nodesS := "N:" ++ joinList ((getNodes g).map (encNode g))
  let edgesS := "E:" ++ joinList ((getEdges g none none none).map encEdge)
  let metaS := "M:" ++ encMeta g.gmeta
  let perNode := names.map fun n =>
    "V" ++ hexEnc n ++ ":F=" ++ encKeys ((getEdges g (some n) none none).map (·.1))
      ++ ";T=" ++ encKeys ((getEdges g none (some n) none).map (·.1))
      ++ ";P=" ++ encExceptIds (getParents g n) ++ ";C=" ++ encExceptIds (getChildren g n)
      ++ ";B=" ++ encExceptIds (getNeighbors g n)
  let io := "I:" ++ encIds (getInputs g) ++ " O:" ++ encIds (getOutputs g)
  let byType := EdgeType.all.map fun t => "T" ++ t.text ++ ":" ++ encKeys ((edgesOfType g t).map (·.1))
  let nd := "ND:" ++ encKeys ((edgesNotOfType g .directed).map (·.1))
  let pairs := "P:" ++ encKeys (getEdgePairs g)
  let x := "X:" ++ String.join (names.flatMap fun a => names.map fun b =>
    match getEdge g a b none with
    | .ok r => r.ty.text
    | .error _ => "..")
  -- typed forms of the queries and the list-argument form of get_nodes
  let q := "Q:" ++ String.join (names.flatMap fun a => names.map fun b =>
    if edgeExists g a b (some .directed) then "d" else if edgeExists g a b (some .undirected) then "u" else ".")
  let ty := names.map fun n =>
    "Y" ++ hexEnc n ++ "=" ++ encKeys ((getEdges g none (some n) (some .directed)).map (·.1)) ++ "/"
      ++ encKeys ((getEdges g (some n) none (some .bidirected)).map (·.1))
  let nl := "L:" ++ (match getNodesL g names.reverse with
    | .ok l => encIds (l.map (·.1))
    | .error e => "!" ++ e.text)
  " ".intercalate ([nodesS, edgesS, metaS] ++ perNode ++ [io] ++ byType ++ [nd, pairs, x, q] ++ ty ++ [nl])

def tsObs (g : Graph) : String :=
  let lags := sortDedupInt (lagsOf g)
  let byLag := lags.map fun l => s!"L{l}=" ++ encIds (nodesAtLag g l)
  let vars := variables g
  let byVar := vars.map fun v => "W" ++ hexEnc v ++ "=" ++ encIds (nodesForVariable g v)
  let optI : Option Int → String := fun o => match o with | some x => toString x | none => "~"
  " ".intercalate (["VARS:" ++ encIds vars] ++ byLag ++ byVar ++
    ["MF:" ++ optI (maxForwardLag g), "MB:" ++ optI (maxBackwardLag g)])
where
  sortDedupInt (xs : List Int) : List Int :=
    xs.foldr (fun x acc => insI x acc) []
  insI (x : Int) : List Int → List Int
    | [] => [x]
    | y :: ys => if x < y then x :: y :: ys else if x = y then y :: ys else y :: insI x ys

def replyE : Except Err Graph → Graph → (Graph × String)
  | .ok g', _ => (g', "ok")
  | .error e, g => (g, "err " ++ e.text)

def replyB : Graph × Option Err → (Graph × String)
  | (g', none) => (g', "ok")
  | (g', some e) => (g', "err " ++ e.text)

/-- apply one `op` line to a graph; `none` = unparsable line -/
def applyOp (g : Graph) : List String → Option (Graph × String)
  | ["add_node", i, vt, m] => do
    pure (replyB (addNodeV g (← hexDec? i) (← decVtArg? vt) (← decMeta? m)))
  | ["add_node_obj", i, vt, m] => do
    pure (replyE (addNodeObj g (← hexDec? i) (← VType.ofText? vt) (← decMeta? m)) g)
  | ["ts_add_node", i, v, l, vt, m] => do
    pure (replyE (tsAddNode g (← decOpt? hexDec? i) (← decOpt? hexDec? v) (← decOpt? decInt? l)
      (← VType.ofText? vt) (← decMeta? m)) g)
  | ["add_edge", s, d, ty, m, v] => do
    pure (replyB (addEdgeImpl g (← decEndpoint? s) (← decEndpoint? d) (← EdgeType.ofText? ty) (← decMeta? m)
      (← decBool? v)))
  | ["delete_edge", s, d, ty] => do
    pure (replyE (deleteEdge g (← hexDec? s) (← hexDec? d) (← decOpt? EdgeType.ofText? ty)) g)
  | ["delete_node", i] => do pure (replyE (deleteNode g (← hexDec? i)) g)
  | ["change_edge_type", s, d, ty] => do
    pure (replyB (changeEdgeTypeImpl g (← hexDec? s) (← hexDec? d) (← EdgeType.ofText? ty)))
  | ["replace_edge", s, d, ns, nd, ty, m] => do
    pure (replyB (replaceEdgeImpl g (← hexDec? s) (← hexDec? d) (← hexDec? ns) (← hexDec? nd)
      (← decOpt? EdgeType.ofText? ty) (← decOpt? decMeta? m)))
  | ["replace_node", i, new, l, v, vt, m] => do
    pure (replyB (replaceNodeV g (← hexDec? i) (← decOpt? hexDec? new) (← decOpt? decInt? l) (← decOpt? hexDec? v)
      (← decVtArg? vt) (← decOpt? decMeta? m)))
  | ["add_time_edge", sv, st, dv, dt, m, v] => do
    pure (replyB (addTimeEdgeImpl g (← hexDec? sv) (← decInt? st) (← hexDec? dv) (← decInt? dt) (← decMeta? m)
      (← decBool? v)))
  | ["add_nodes_from", ids] => do pure (replyB (addNodesFrom g (← decList? ids)))
  | ["add_edges_from", es, v] => do pure (replyB (addEdgesFrom g (← decEdges? es) (← decBool? v)))
  | ["add_path", p, v] => do pure (replyB (addEdgesFromPath g (← decList? p) (← decBool? v)))
  | ["add_paths", ps] => do pure (replyB (addEdgesFromPaths g (← decListList? ps)))
  | ["add_fully_connected", a, b] => do pure (replyB (addFullyConnected g (← decList? a) (← decList? b)))
  | _ => none

def handle (st : Slots) : List String → Slots × String
  | ["new", k, "plain", m] => match decMeta? m with
    | some gm => (st.insert k (Graph.empty .plain gm), "ok") | none => (st, "bad-op")
  | ["new", k, "ts", m] => match decMeta? m with
    | some gm => (st.insert k (Graph.empty .ts gm), "ok") | none => (st, "bad-op")
  | "op" :: k :: rest =>
    match st[k]? with
    | none => (st, "bad-slot")
    | some g =>
      match applyOp g rest with
      | none => (st, "bad-op")
      | some (g', r) => (st.insert k g', r)
  | ["probe", k] => (st, if st.contains k then "1" else "0")
  | "probe" :: k :: rest =>
    match st[k]? with
    | none => (st, "bad-slot")
    | some g => match applyOp g rest with | none => (st, "bad-op") | some (_, r) => (st, r)
  | ["obs", k] => match st[k]? with | some g => (st, obs g) | none => (st, "bad-slot")
  | ["tsobs", k] => match st[k]? with | some g => (st, tsObs g) | none => (st, "bad-slot")
  | ["isdag", k] => match st[k]? with | some g => (st, boolStr (isDag g)) | none => (st, "bad-slot")
  | ["copy", j, k] => match st[k]? with | some g => (st.insert j g, "ok") | none => (st, "bad-slot")
  | ["drop", k] => (st.erase k, "ok")
  | _ => (st, "bad-op")

end CG.Driver.GraphH
