/-
Stateless driver handler for the cache model (`CG/Model/Cache.lean`), token `cache`.

  cache run    <plain|ts> <gmeta> | <call> | <call> | …
  cache runocc <plain|ts> <gmeta> | <call> | <call> | …

runs the calls, in order, on a freshly constructed object of the class and replies ONE line with one item per
call, separated by single spaces:  `<answer>` (run) or `<answer>@<occupancy>` (runocc).

  <call>      a mutator: exactly the tokens of the stateful protocol after `g op <slot>` (`add_edge <s> <d> <ty>
              <meta> <validate>`, `delete_node <id>`, … see `HGraph.applyOp`; the `variable_type` argument of
              `add_node` / `replace_node` may be `~`, `?s`, `?o` as there), or a reader:
                r isdag | r nx | r adj | r fd | r fu | r vars | r numpy | r ident | r topo | r gml | r lags
                r ismin <minerr> <0|1>            what get_minimal_graph() raises on the CURRENT graph (`~` = nothing)
                                                  and what `self == self.get_minimal_graph()` is
                r isstat <minerr> <0|1|!Err>      … and what the rest of is_stationary_graph() does after it
                r adjmats <minerr>
              (the time-series computations are parameters of the model: the harness measures them on a freshly
              reconstructed copy)
  <answer>    mutator: `ok` | `!<ExceptionClass>`;  booleans `1` | `0` | `!Err`;  nx `D;<nodes>;<edges>` |
              `U;<nodes>;<edges>` (undirected pairs ordered and sorted) | `!Err`;  adj `<rows>` (rows of 0/1 digits
              separated by `;`, `.` for the empty matrix) | `!Err`;  vars `<hexlist>`;  numpy `<rows>|<hexlist>`;
              ident / topo / gml / adjmats `ok` | `!Err` (the value is validated by the harness);
              lags `<forward>/<backward>` (`~` = None)
  <occupancy> eight 0/1 digits: _is_dag _networkx _adjacency _is_fully_directed_cached _is_fully_undirected_cached
              _variables _is_minimal_graph _is_stationary_graph  is not None

Formatting only; every value printed is computed by `CG/Model/Cache.lean`.
-/
import CG.Driver.Codec
import CG.Driver.HGraph
import CG.Model.ArgForms
import CG.Model.Cache

namespace CG.Driver.CacheH
open CG CG.Codec CG.Cache CG.Driver.GraphH

/-- a parsed mutator call: an operation of the state machine, or a call whose `variable_type` argument is invalid.
    The latter raises before the body writes anything and before any nested call returns (`CG/Model/ArgForms.lean`:
    the graph is unchanged on every such path), so its script is empty: no event, the exception leaves. -/
inductive Parsed
  | op (o : Op)
  | rejected (err : Graph → Option Err)

def decOp? : List String → Option Op
  | ["add_node_obj", i, vt, m] => do pure (.addNodeObj (← hexDec? i) (← VType.ofText? vt) (← decMeta? m))
  | ["ts_add_node", i, v, l, vt, m] => do
    pure (.tsAddNode (← decOpt? hexDec? i) (← decOpt? hexDec? v) (← decOpt? decInt? l) (← VType.ofText? vt) (← decMeta? m))
  | ["add_edge", s, d, ty, m, v] => do
    pure (.addEdge (← decEndpoint? s) (← decEndpoint? d) (← EdgeType.ofText? ty) (← decMeta? m) (← decBool? v))
  | ["delete_edge", s, d, ty] => do pure (.deleteEdge (← hexDec? s) (← hexDec? d) (← decOpt? EdgeType.ofText? ty))
  | ["delete_node", i] => do pure (.deleteNode (← hexDec? i))
  | ["change_edge_type", s, d, ty] => do pure (.changeEdgeType (← hexDec? s) (← hexDec? d) (← EdgeType.ofText? ty))
  | ["replace_edge", s, d, ns, nd, ty, m] => do
    pure (.replaceEdge (← hexDec? s) (← hexDec? d) (← hexDec? ns) (← hexDec? nd) (← decOpt? EdgeType.ofText? ty)
      (← decOpt? decMeta? m))
  | ["add_time_edge", sv, st, dv, dt, m, v] => do
    pure (.addTimeEdge (← hexDec? sv) (← decInt? st) (← hexDec? dv) (← decInt? dt) (← decMeta? m) (← decBool? v))
  | ["add_nodes_from", ids] => do pure (.addNodesFrom (← decList? ids))
  | ["add_edges_from", es, v] => do pure (.addEdgesFrom (← decEdges? es) (← decBool? v))
  | ["add_path", p, v] => do pure (.addPath (← decList? p) (← decBool? v))
  | ["add_paths", ps] => do pure (.addPaths (← decListList? ps))
  | ["add_fully_connected", a, b] => do pure (.addFullyConnected (← decList? a) (← decList? b))
  | _ => none

def decCall? : List String → Option Parsed
  | ["add_node", i, vt, m] => do
    let i ← hexDec? i
    let vt ← decVtArg? vt
    let m ← decMeta? m
    match vt with
    | .ok v => pure (.op (.addNode i (v.getD .unspecified) m))
    | bad => pure (.rejected fun g => (addNodeV g i bad m).2)
  | ["replace_node", i, new, l, v, vt, m] => do
    let i ← hexDec? i
    let new ← decOpt? hexDec? new
    let l ← decOpt? decInt? l
    let v ← decOpt? hexDec? v
    let vt ← decVtArg? vt
    let m ← decOpt? decMeta? m
    match vt with
    | .ok vt => pure (.op (.replaceNode i new l v vt m))
    | bad => pure (.rejected fun g => (replaceNodeV g i new l v bad m).2)
  | toks => (decOp? toks).map .op

def allErrs : List Err :=
  [.nodeDuplicated, .edgeDuplicated, .reverseEdgeExists, .cyclicConnection, .nodeDoesNotExist, .edgeDoesNotExist,
   .edgeExists, .edgeInvalid, .valueError, .assertionError, .keyError, .typeError, .graphConversion, .invalidAdjacency,
   .indexError]

def decErr? (t : String) : Option Err := allErrs.find? (fun e => e.text = t)

/-- `~` = nothing raised, else an exception class -/
def decOptErr? (t : String) : Option (Option Err) := if t = "~" then some none else (decErr? t).map some

/-- `0` | `1` | `!Err` -/
def decResult? (t : String) : Option (Except Err Bool) :=
  if t.startsWith "!" then (decErr? (t.drop 1).toString).map .error else (decBool? t).map .ok

def noTs : TsFuns := { minimalErr := fun _ => none, isMinimal := fun _ => false, stationary := fun _ => .ok false }

def decReader? : List String → Option (Reader × TsFuns)
  | ["isdag"] => some (.isDag, noTs)
  | ["nx"] => some (.toNetworkx, noTs)
  | ["adj"] => some (.adjacency, noTs)
  | ["fd"] => some (.fullyDirected, noTs)
  | ["fu"] => some (.fullyUndirected, noTs)
  | ["vars"] => some (.variables, noTs)
  | ["numpy"] => some (.toNumpy, noTs)
  | ["ident"] => some (.identifier, noTs)
  | ["topo"] => some (.topoOrder, noTs)
  | ["gml"] => some (.gml, noTs)
  | ["lags"] => some (.maxLags, noTs)
  | ["ismin", me, v] => do
    let me ← decOptErr? me
    let v ← decBool? v
    pure (.isMinimal, { noTs with minimalErr := fun _ => me, isMinimal := fun _ => v })
  | ["isstat", me, r] => do
    let me ← decOptErr? me
    let r ← decResult? r
    pure (.isStationary, { noTs with minimalErr := fun _ => me, stationary := fun _ => r })
  | ["adjmats", me] => do
    let me ← decOptErr? me
    pure (.adjMatrices, { noTs with minimalErr := fun _ => me })
  | _ => none

/-! ### canonical answers -/

def encErr (e : Err) : String := "!" ++ e.text

def encEB : Except Err Bool → String
  | .ok b => boolStr b
  | .error e => encErr e

def pairLe (a b : String × String) : Bool := a.1 < b.1 || (a.1 = b.1 && a.2 ≤ b.2)

def insPair (x : String × String) : List (String × String) → List (String × String)
  | [] => [x]
  | y :: ys => if pairLe x y then x :: y :: ys else y :: insPair x ys

def sortPairs (xs : List (String × String)) : List (String × String) := xs.foldr insPair []

def normPair (p : String × String) : String × String := if p.2 < p.1 then (p.2, p.1) else p

def encNx (v : NxVal) : String :=
  (if v.directed then "D" else "U") ++ ";" ++ encList v.nodes ++ ";" ++
    encEdges (if v.directed then v.edges else sortPairs (v.edges.map normPair))

def encMat (m : Matrix) : String :=
  if m.isEmpty then "." else ";".intercalate (m.map fun row => String.join (row.map toString))

def encOptInt : Option Int → String
  | some x => toString x
  | none => "~"

def encAns (r : Reader) : Ans → String
  | .bool v => encEB v
  | .nx v =>
    match r with
    | .toNetworkx => (match v with | .ok x => encNx x | .error e => encErr e)
    | _ => (match v with | .ok _ => "ok" | .error e => encErr e)
  | .mat v => (match v with | .ok m => encMat m | .error e => encErr e)
  | .names v =>
    match r with
    | .identifier => "ok"
    | _ => encList v
  | .numpy v => (match v with | .ok (m, ns) => encMat m ++ "|" ++ encList ns | .error e => encErr e)
  | .eff e => (match e with | none => "ok" | some e => encErr e)
  | .lags f b => encOptInt f ++ "/" ++ encOptInt b

def occupancy (k : Caches) : String :=
  String.join ([k.isDag.isSome, k.networkx.isSome, k.adjacency.isSome, k.fullyDirected.isSome, k.fullyUndirected.isSome,
    k.variables.isSome, k.isMinimal.isSome, k.isStationary.isSome].map boolStr)

/-- split the token list on the separator token `|` -/
def splitCalls : List String → List (List String) → List String → List (List String)
  | [], acc, cur => (cur.reverse :: acc).reverse
  | "|" :: rest, acc, cur => splitCalls rest (cur.reverse :: acc) []
  | t :: rest, acc, cur => splitCalls rest acc (t :: cur)

def runOne (occ : Bool) (c : CGraph) : List String → Option (CGraph × String)
  | "r" :: rest => do
    let (r, F) ← decReader? rest
    let (a, c') := readR F r c
    pure (c', encAns r a ++ (if occ then "@" ++ occupancy c'.k else ""))
  | toks => do
    let (c', e) ← (match (← decCall? toks) with
      | .op op => some (mutC op c)
      | .rejected err => some (c, err c.g))
    pure (c', (match e with | none => "ok" | some e => encErr e) ++ (if occ then "@" ++ occupancy c'.k else ""))

def runAll (occ : Bool) : CGraph → List (List String) → List String → Option (List String)
  | _, [], acc => some acc.reverse
  | c, k :: ks, acc =>
    match runOne occ c k with
    | none => none
    | some (c', r) => runAll occ c' ks (r :: acc)

def run (occ : Bool) : List String → String
  | cls :: gm :: rest =>
    match (if cls = "plain" then some GraphClass.plain else if cls = "ts" then some GraphClass.ts else none), decMeta? gm with
    | some c, some m =>
      match rest with
      | [] => "."
      | "|" :: toks =>
        match runAll occ (fresh (Graph.empty c m)) (splitCalls toks [] []) [] with
        | some rs => " ".intercalate rs
        | none => "bad-op"
      | _ => "bad-op"
    | _, _ => "bad-op"
  | _ => "bad-op"

def handle : List String → String
  | "run" :: rest => run false rest
  | "runocc" :: rest => run true rest
  | _ => "bad-op"

end CG.Driver.CacheH
