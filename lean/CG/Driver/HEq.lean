/-
Stateless driver handlers for the equality methods (token `eq`) and the skeleton readers (token `sk`).
Formatting only; every value printed is computed by `CG/Model/Eq.lean` / `CG/Model/Skeleton.lean`.

  eq graph <g1> <g2> <0|1>        g1.__eq__(g2, deep)            → 1 | 0 | err <Class>
  eq op <g1> <g2>                 g1 == g2                        (operator, reflected-first rule)
  eq ne <g1> <g2>                 g1 != g2
  eq sk <g1> <g2> <0|1>           g1.skeleton.__eq__(g2.skeleton, deep)
  eq skne <g1> <g2>               g1.skeleton != g2.skeleton
  eq node <cls> <node> <cls> <node> <0|1>     a.__eq__(b, deep)   (node item as in a graph token of that class)
  eq nodeop <cls> <node> <cls> <node>         a == b
  eq nodene <cls> <node> <cls> <node>         a != b
  eq edge <edge> <edge> <0|1>                 a.__eq__(b, deep)
  eq edgene <edge> <edge>                     a != b
      <edge> = <cls>;<source node item>;<destination node item>;<type>;<meta>

  sk obs <g>                      every skeleton reader in one canonical line
  sk nb <g> <hexid>               get_neighbors      → ids | err AssertionError
  sk ge <g> <hexs> <hexd>         get_edge           → stored edge item | err AssertionError
  sk ex <g> <hexs> <hexd>         edge_exists        → 1 | 0
  sk ne <g> <hexid>               node_exists        → 1 | 0
  sk rtadj <g>                    the undirected pairs `from_adjacency_matrix` reads back from `to_numpy()`,
                                  each pair ordered, the list sorted (orientation is not preserved by the matrix)
  sk pairs <g>                    the skeleton's own pairs, normalised the same way
-/
import CG.Driver.GraphCodec
import CG.Model.Skeleton

namespace CG.Driver.Eq
open CG CG.Codec CG.Driver.GraphH CG.Driver.GraphCodec CG.Sk Std

def decCls? (t : String) : Option GraphClass :=
  if t = "plain" then some .plain else if t = "ts" then some .ts else none

def encEB : Except Err Bool → String
  | .ok b => boolStr b
  | .error e => "err " ++ e.text

def decNodeV? (c n : String) : Option NodeV := do
  let cls ← decCls? c
  let (i, r) ← decNode? cls n
  pure ⟨cls, i, r⟩

/-- `<cls>;<src node>;<dst node>;<type>;<meta>` -/
def decEdgeV? (t : String) : Option EdgeV :=
  match t.splitOn ";" with
  | [c, s, d, ty, m] => do
    pure ⟨(← decNodeV? c s), (← decNodeV? c d), (← EdgeType.ofText? ty), (← decMeta? m)⟩
  | _ => none

def handle : List String → String
  | ["graph", a, b, d] =>
    match decGraph? a, decGraph? b, decBool? d with
    | some g, some h, some deep => encEB (graphEq deep g h)
    | _, _, _ => "bad-op"
  | ["op", a, b] =>
    match decGraph? a, decGraph? b with
    | some g, some h => encEB (graphEqOp g h)
    | _, _ => "bad-op"
  | ["ne", a, b] =>
    match decGraph? a, decGraph? b with
    | some g, some h => encEB (graphNeOp g h)
    | _, _ => "bad-op"
  | ["sk", a, b, d] =>
    match decGraph? a, decGraph? b, decBool? d with
    | some g, some h, some deep => encEB (skEq deep g h)
    | _, _, _ => "bad-op"
  | ["skne", a, b] =>
    match decGraph? a, decGraph? b with
    | some g, some h => encEB (skNe g h)
    | _, _ => "bad-op"
  | ["node", c1, n1, c2, n2, d] =>
    match decNodeV? c1 n1, decNodeV? c2 n2, decBool? d with
    | some a, some b, some deep => boolStr (nodeEq deep a b)
    | _, _, _ => "bad-op"
  | ["nodeop", c1, n1, c2, n2] =>
    match decNodeV? c1 n1, decNodeV? c2 n2 with
    | some a, some b => boolStr (nodeEqOp a b)
    | _, _ => "bad-op"
  | ["nodene", c1, n1, c2, n2] =>
    match decNodeV? c1 n1, decNodeV? c2 n2 with
    | some a, some b => boolStr (nodeNe a b)
    | _, _ => "bad-op"
  | ["edge", e1, e2, d] =>
    match decEdgeV? e1, decEdgeV? e2, decBool? d with
    | some a, some b, some deep => boolStr (edgeEq deep a b)
    | _, _, _ => "bad-op"
  | ["edgene", e1, e2] =>
    match decEdgeV? e1, decEdgeV? e2 with
    | some a, some b => boolStr (edgeNe a b)
    | _, _ => "bad-op"
  | _ => "bad-op"

/-! ### skeleton -/

def encErr (e : Err) : String := "!" ++ e.text

def normPair (k : EKey) : EKey := if k.2 < k.1 then (k.2, k.1) else k

def insKey (x : EKey) : List EKey → List EKey
  | [] => [x]
  | y :: ys => if ekCmp x y = .lt then x :: y :: ys else if ekCmp x y = .eq then y :: ys else y :: insKey x ys

def sortKeys (ks : List EKey) : List EKey := ks.foldr insKey []

def skObs (g : Graph) : String :=
  let names := skNodeNames g
  let nodesS := "N:" ++ (match skNodes g with
    | .ok l => joinList (l.map (encNode g))
    | .error e => encErr e)
  let edgesS := "E:" ++ joinList ((skEdges g).map encEdge)
  let nb := "B:" ++ joinList (names.map fun n => hexEnc n ++ "=" ++ encExceptIds (skNeighbors g n)) ";"
  let x := "X:" ++ String.join (names.flatMap fun a => names.map fun b => boolStr (skEdgeExists g a b))
  let ge := "G:" ++ String.join (names.flatMap fun a => names.map fun b =>
    match skGetEdge g a b with
    | .ok kv => if kv.1 == (a, b) then ">" else if kv.1 == (b, a) then "<" else "?"
    | .error .assertionError => "."
    | .error e => encErr e)
  let adj := "A:" ++ (match skAdjacency g with
    | .ok M => joinList (M.map fun row => String.join (row.map toString))
    | .error e => encErr e)
  " ".intercalate [nodesS, edgesS, nb, x, ge, adj]

def handleSk : List String → String
  | ["obs", a] => match decGraph? a with | some g => skObs g | none => "bad-op"
  | ["nb", a, n] =>
    match decGraph? a, hexDec? n with
    | some g, some i => (match skNeighbors g i with | .ok l => encIds l | .error e => "err " ++ e.text)
    | _, _ => "bad-op"
  | ["ge", a, s, d] =>
    match decGraph? a, hexDec? s, hexDec? d with
    | some g, some x, some y => (match skGetEdge g x y with | .ok kv => encEdge kv | .error e => "err " ++ e.text)
    | _, _, _ => "bad-op"
  | ["ex", a, s, d] =>
    match decGraph? a, hexDec? s, hexDec? d with
    | some g, some x, some y => boolStr (skEdgeExists g x y)
    | _, _, _ => "bad-op"
  | ["ne", a, n] =>
    match decGraph? a, hexDec? n with
    | some g, some i => boolStr (skNodeExists g i)
    | _, _ => "bad-op"
  | ["rtadj", a] =>
    match decGraph? a with
    | some g =>
      (match skToNumpy g with
       | .ok (M, names) =>
         let es := edgesOfAdj names M
         if es.all (fun e => e.2 == .undirected) then encKeys (sortKeys (es.map fun e => normPair e.1))
         else "directed-edge-read-back"
       | .error e => "err " ++ e.text)
    | none => "bad-op"
  | ["pairs", a] =>
    match decGraph? a with
    | some g => encKeys (sortKeys ((skEdgePairs g).map normPair))
    | none => "bad-op"
  | _ => "bad-op"

end CG.Driver.Eq
