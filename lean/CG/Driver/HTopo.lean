/-
Driver handler `topo`: cycle check and topological orders over (nodes, directed edges[, lags]).

  topo selfdep   <nodes> <edges> <hexnode>        → 1|0   `_assert_node_does_not_depend_on_itself` raises
  topo acyclic   <nodes> <edges>                  → 1|0   no node depends on itself
  topo firstcyc  <nodes> <edges>                  → ~ | hex of the first node (list order) that depends on itself
  topo valid     <nodes> <edges> <order>          → 1|0   `order` is a topological order
  topo count     <nodes> <edges>                  → number of topological orders
  topo all       <nodes> <edges>                  → hxlistlist of all orders, sorted lexicographically
  topo timevalid <nodes> <edges> <lags> <order>   → 1|0   valid and lags never decrease
  topo timeall   <nodes> <edges> <lags>           → sorted hxlistlist of the orders the time-series class returns
  topo kahn      <nodes> <edges> <lags>           → order | ~   lexicographic Kahn keyed by lag

nodes / order = hexlist, edges = `a>b,…`, lags = comma separated integers aligned with nodes (`.` = none).
-/
import CG.Driver.Codec
import CG.Model.Acyc
import CG.Model.Topo

namespace CG.Driver.Topo
open CG.Codec

/-- lexicographic `≤` on lists of strings (Python's list comparison; `str` compares by code point) -/
def lexLe : List String → List String → Bool
  | [], _ => true
  | _ :: _, [] => false
  | a :: as, b :: bs => if a < b then true else if b < a then false else lexLe as bs

def sortLists (xss : List (List String)) : List (List String) := xss.mergeSort lexLe

def decLags? (t : String) (n : Nat) : Option (List Int) :=
  match (splitList t).mapM decInt? with
  | some ls => if ls.length = n then some ls else none
  | none => none

/-- lag of a node: the entry aligned with its first occurrence in `nodes` (0 for unknown names) -/
def keyOf (nodes : List String) (lags : List Int) (x : String) : Int :=
  ((nodes.zip lags).lookup x).getD 0

def handle : List String → String
  | ["selfdep", ns, es, x] =>
    match decList? ns, decEdges? es, hexDec? x with
    | some _, some E, some n => boolStr (CG.Acyc.selfDep E n)
    | _, _, _ => "bad-op"
  | ["acyclic", ns, es] =>
    match decList? ns, decEdges? es with
    | some nodes, some E => boolStr (CG.Acyc.acyclicB E nodes)
    | _, _ => "bad-op"
  | ["firstcyc", ns, es] =>
    match decList? ns, decEdges? es with
    | some nodes, some E =>
      match CG.Acyc.anySelfDep E nodes with
      | none => "~"
      | some n => hexEnc n
    | _, _ => "bad-op"
  | ["valid", ns, es, os] =>
    match decList? ns, decEdges? es, decList? os with
    | some nodes, some E, some o => boolStr (CG.Topo.isTopoOrder E nodes o)
    | _, _, _ => "bad-op"
  | ["count", ns, es] =>
    match decList? ns, decEdges? es with
    | some nodes, some E => toString (CG.Topo.allTopo E nodes).length
    | _, _ => "bad-op"
  | ["all", ns, es] =>
    match decList? ns, decEdges? es with
    | some nodes, some E => encListList (sortLists (CG.Topo.allTopo E nodes))
    | _, _ => "bad-op"
  | ["timevalid", ns, es, ls, os] =>
    match decList? ns, decEdges? es, decList? os with
    | some nodes, some E, some o =>
      match decLags? ls nodes.length with
      | some lags =>
        boolStr (CG.Topo.isTopoOrder E nodes o && CG.Topo.lagsSorted (keyOf nodes lags) o)
      | none => "bad-op"
    | _, _, _ => "bad-op"
  | ["timeall", ns, es, ls] =>
    match decList? ns, decEdges? es with
    | some nodes, some E =>
      match decLags? ls nodes.length with
      | some lags => encListList (sortLists (CG.Topo.allTimeTopo E (keyOf nodes lags) nodes))
      | none => "bad-op"
    | _, _ => "bad-op"
  | ["kahn", ns, es, ls] =>
    match decList? ns, decEdges? es with
    | some nodes, some E =>
      match decLags? ls nodes.length with
      | some lags =>
        match CG.Topo.kahnByLag E (keyOf nodes lags) nodes with
        | some o => encList o
        | none => "~"
      | none => "bad-op"
    | _, _ => "bad-op"
  | _ => "bad-op"

end CG.Driver.Topo
