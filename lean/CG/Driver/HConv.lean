/-
Stateless driver handlers for the conversion properties: `dict` (C05) and `mx` (C08).  Formatting only; every value
printed is computed by `CG/Model/Dict.lean` / `CG/Model/Matrix.lean`.

Graphs travel as graph tokens (`GraphCodec.lean`).

Canonical dictionary text (ONE token, produced by `harness/lanes/c05.py::dict_text` from the implementation's real
`to_dict()` output after `json.loads(json.dumps(..))`, entries in the dictionary's own order):

    <hexversion>;<meta|~>;<nodes>;<edges>
    nodes  : `.` or `,`-separated  <hexkey>:<DNODE>
    edges  : `.` or `,`-separated  <hexsrckey>><hexdstkey>:<DNODE>:<DNODE>:<hexedgetype>:<meta|~>
    DNODE  : <hexid>|<hexvariabletype>|<hexnodeclass>|<meta|~>|<time_lag|~>|<hexvariablename|~>
    meta   : `_` or hexkey=hexvalue&…   (as in graph tokens);  `~` = key absent

Lines (`dict …`):
    dict to <inc> <graph>                     -> canonical text of to_dict(include_meta=inc)
    dict skel <inc> <graph>                   -> canonical text of graph.skeleton.to_dict(include_meta=inc)
    dict from <cls> <validate> <dicttext>     -> ok <graph> | err <Class> | unmodelled
    dict rt <inc> <validate> <graph>          -> from_dict(to_dict(inc), validate) of the graph's own class
    dict conv <cls> <validate> <graph>        -> cls.from_dict(graph.to_dict(True), validate)
    dict copy <inc> <graph>                   -> graph.copy(include_meta=inc)
    dict fcg <graph>                          -> TimeSeriesCausalGraph.from_causal_graph(graph)
    dict skelrt <cls> <graph>                 -> Skeleton.from_dict(graph.skeleton.to_dict(), cls) (its graph)

Matrices: rows separated by `;`, one digit per entry (`0`, `1`, any other digit = non-binary), `.` = 0×0.
Arrays: `1:<digits>` (1-D), `2:<rows>` (2-D), `3:<anything>` (3-D).  Name lists are hexlists, `~` = no names.
networkx values: `<d|u> <nodes hexlist in g.nodes() order> <edges>`; replies print the edges sorted (an undirected
pair as (min, max)).  Lag dictionaries: `.` or `,`-separated `<delta>=<rows>` in dictionary order.

Lines (`mx …`):
    mx adjacency <graph>                      -> ok <rows> | err TypeError
    mx to_numpy <graph>                       -> ok <rows> <names> | err TypeError
    mx to_networkx <graph>                    -> ok <d|u> <nodes> <edges> | err GraphConversionError
    mx to_gml <graph>                         -> the same for to_gml_string (the value that is written)
    mx nx_numpy <d|u> <nodes> <edges>         -> <rows>     (assumed networkx.to_numpy_array)
    mx from_adj <cls> <validate> <array> <names|~>   -> ok <graph> | err <Class>
    mx from_nx <cls> <validate> <d|u> <nodes> <edges>  -> ok <graph> | err <Class>
    mx from_skel <cls> <validate> <graph>     -> ok <graph> | err <Class>
    mx from_lagged <validate> <lagdict> <names|~>    -> ok <graph> | err <Class>   (construct_minimal=False)
    mx lagged <minimal graph>                 -> ok <lagdict> <variables> | err TypeError
-/
import CG.Driver.GraphCodec
import CG.Model.Dict
import CG.Model.Matrix

namespace CG.Driver.Conv
open CG CG.Codec CG.Driver.GraphH CG.Driver.GraphCodec CG.Dict CG.Mx Std

/-! ### dictionary text -/

def encOptMeta : Option Meta → String
  | none => "~"
  | some m => encMeta m

def encDNode (d : DNode) : String :=
  "|".intercalate [hexEnc d.identifier, hexEnc d.variable_type, hexEnc d.node_class, encOptMeta d.md,
    (match d.time_lag with | some l => toString l | none => "~"),
    (match d.variable_name with | some v => hexEnc v | none => "~")]

def encDEdge (s t : String) (e : DEdge) : String :=
  hexEnc s ++ ">" ++ hexEnc t ++ ":" ++ encDNode e.source ++ ":" ++ encDNode e.destination ++ ":" ++ hexEnc e.edge_type
    ++ ":" ++ encOptMeta e.md

def encDict (d : DGraph) : String :=
  hexEnc d.version ++ ";" ++ encOptMeta d.md ++ ";"
    ++ joinList (d.nodes.map fun kv => hexEnc kv.1 ++ ":" ++ encDNode kv.2) ++ ";"
    ++ joinList (d.flatEdges.map fun x => encDEdge x.1 x.2.1 x.2.2)

def decOptMeta? (t : String) : Option (Option Meta) := decOpt? decMeta? t

def decDNode? (t : String) : Option DNode :=
  match t.splitOn "|" with
  | [i, vt, nc, m, l, v] => do
    pure { identifier := (← hexDec? i), variable_type := (← hexDec? vt), node_class := (← hexDec? nc),
           md := (← decOptMeta? m), time_lag := (← decOpt? decInt? l), variable_name := (← decOpt? hexDec? v) }
  | _ => none

def decDEdge? (t : String) : Option (String × String × DEdge) :=
  match t.splitOn ":" with
  | [k, s, d, ty, m] =>
    match k.splitOn ">" with
    | [a, b] => do
      pure ((← hexDec? a), (← hexDec? b),
        { source := (← decDNode? s), destination := (← decDNode? d), edge_type := (← hexDec? ty), md := (← decOptMeta? m) })
    | _ => none
  | _ => none

def decDict? (t : String) : Option DGraph :=
  match t.splitOn ";" with
  | [v, m, ns, es] => do
    let nodes ← (splitList ns).mapM fun item =>
      match item.splitOn ":" with
      | [k, d] => do pure ((← hexDec? k), (← decDNode? d))
      | _ => none
    let edges ← (splitList es).mapM decDEdge?
    pure { version := (← hexDec? v), md := (← decOptMeta? m), nodes := nodes, edges := groupBySource edges }
  | _ => none

def decCls? (t : String) : Option GraphClass :=
  if t = "plain" then some .plain else if t = "ts" then some .ts else none

def replyG : Graph × Option Err → String
  | (g, none) => "ok " ++ encGraph g
  | (_, some e) => "err " ++ e.text

def handleDict : List String → String
  | ["to", inc, g] => (do pure (encDict (toDict (← decBool? inc) (← decGraph? g)))).getD "bad-op"
  | ["skel", inc, g] => (do pure (encDict (skeletonToDict (← decBool? inc) (← decGraph? g)))).getD "bad-op"
  | ["from", c, v, d] => (do
      let dg ← decDict? d
      let cls ← decCls? c
      let val ← decBool? v
      pure (if dg.edgeTypesKnown then replyG (fromDict cls dg val) else "unmodelled")).getD "bad-op"
  | ["rt", inc, v, g] => (do
      let gr ← decGraph? g
      pure (replyG (fromDict gr.cls (toDict (← decBool? inc) gr) (← decBool? v)))).getD "bad-op"
  | ["conv", c, v, g] => (do
      pure (replyG (fromDict (← decCls? c) (toDict true (← decGraph? g)) (← decBool? v)))).getD "bad-op"
  | ["copy", inc, g] => (do pure (replyG (copyGraph (← decBool? inc) (← decGraph? g)))).getD "bad-op"
  | ["fcg", g] => (do pure (replyG (fromCausalGraph (← decGraph? g)))).getD "bad-op"
  | ["skelrt", c, g] => (do
      pure (replyG (skeletonFromDict (← decCls? c) (skeletonToDict true (← decGraph? g))))).getD "bad-op"
  | _ => "bad-op"

/-! ### matrices -/

def digitOf (n : Nat) : Char := if n < 10 then Char.ofNat (48 + n) else '9'

def encRows (M : Mat) : String :=
  if M.isEmpty then "." else ";".intercalate (M.map fun r => String.ofList (r.map digitOf))

def decRow? (t : String) : Option (List Nat) :=
  t.toList.mapM fun c => if '0' ≤ c ∧ c ≤ '9' then some (c.toNat - 48) else none

def decRows? (t : String) : Option Mat :=
  if t = "." then some [] else (t.splitOn ";").mapM decRow?

def decArr? (t : String) : Option Arr :=
  if t.startsWith "1:" then (decRow? (t.drop 2).toString).map Arr.d1
  else if t.startsWith "2:" then (decRows? (t.drop 2).toString).map Arr.d2
  else if t.startsWith "3:" then some (Arr.d3 [])
  else none

def decNames? (t : String) : Option (Option (List String)) :=
  if t = "~" then some none else (decList? t).map some

def pairLe (a b : String × String) : Bool := ekCmp a b != .gt

def dedupAdj : List (String × String) → List (String × String)
  | a :: b :: rest => if a = b then dedupAdj (b :: rest) else a :: dedupAdj (b :: rest)
  | l => l

/-- canonical edge list of a networkx value -/
def canonEdges (x : NX) : List (String × String) :=
  let es := if x.directed then x.edges else x.edges.map fun (a, b) => if a ≤ b then (a, b) else (b, a)
  dedupAdj (es.mergeSort pairLe)

def encNX (x : NX) : String :=
  (if x.directed then "d" else "u") ++ " " ++ encList x.nodes ++ " " ++ encEdges (canonEdges x)

def decNX? (d ns es : String) : Option NX := do
  let dir ← if d = "d" then some true else if d = "u" then some false else none
  pure { directed := dir, nodes := (← decList? ns), edges := (← decEdges? es) }

def encLagDict (d : List (Int × Mat)) : String :=
  joinList (d.map fun (l, M) => toString l ++ "=" ++ encRows M)

def decLagDict? (t : String) : Option (List (Int × Mat)) :=
  (splitList t).mapM fun item =>
    match item.splitOn "=" with
    | [l, rows] => do pure ((← decInt? l), (← decRows? rows))
    | _ => none

def replyE {α : Type} (f : α → String) : Except Err α → String
  | .ok a => "ok " ++ f a
  | .error e => "err " ++ e.text

def handleMx : List String → String
  | ["adjacency", g] => (do pure (replyE encRows (adjacencyMatrix (← decGraph? g)))).getD "bad-op"
  | ["to_numpy", g] => (do
      pure (replyE (fun (r : Mat × List String) => encRows r.1 ++ " " ++ encList r.2) (toNumpy (← decGraph? g)))).getD "bad-op"
  | ["to_networkx", g] => (do pure (replyE encNX (toNetworkx (← decGraph? g)))).getD "bad-op"
  | ["to_gml", g] => (do pure (replyE encNX (toGml (← decGraph? g)))).getD "bad-op"
  | ["nx_numpy", d, ns, es] => (do pure (encRows (nxToNumpy (← decNX? d ns es)))).getD "bad-op"
  | ["from_adj", c, v, a, ns] => (do
      pure (replyG (fromAdjacencyArray (← decCls? c) (← decArr? a) (← decNames? ns) (← decBool? v)))).getD "bad-op"
  | ["from_nx", c, v, d, ns, es] => (do
      pure (replyG (fromNetworkx (← decCls? c) (← decNX? d ns es) (← decBool? v)))).getD "bad-op"
  | ["from_skel", c, v, g] => (do
      pure (replyG (fromSkeleton (← decCls? c) (← decGraph? g) (← decBool? v)))).getD "bad-op"
  | ["from_lagged", v, d, ns] => (do
      pure (replyG (fromAdjacencyMatricesFull (← decLagDict? d) (← decNames? ns) (← decBool? v)))).getD "bad-op"
  | ["lagged", g] => (do
      pure (replyE (fun (r : List (Int × Mat) × List String) => encLagDict r.1 ++ " " ++ encList r.2)
        (toNumpyByLagOf (← decGraph? g)))).getD "bad-op"
  | _ => "bad-op"

end CG.Driver.Conv
