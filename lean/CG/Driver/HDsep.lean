/-
Driver handler `dsep` (properties C11 and C20).

  dsep is       <nodes> <edges>       <X> <Y> <Z>      → 1 | 0 | err AssertionError      is_d_separated
  dsep ist      <nodes> <typed-edges> <X> <Y> <Z>      → same, on a graph that may hold non-directed edges
  dsep minimal  <nodes> <edges>       <x> <y> <Z>      → 1 | 0 | err AssertionError      is_minimally_d_separated
  dsep validsep <nodes> <edges>       <x> <y> <Z>      → 1 | 0     Z separates x, y and no element can be removed
  dsep getpre   <nodes> <edges>       <x> <y>          → ok | err AssertionError         checks of get_d_separation_set
  dsep mb       <nodes> <edges>       <n>              → sorted list | err TypeError | err NodeDoesNotExistError
  dsep mbt      <nodes> <typed-edges> <n>              → same, on a graph that may hold non-directed edges
  dsep colliders <nodes> <typed-edges> <0|1>           → sorted list                     identify_colliders
  dsep skmb     <nodes> <typed-edges> <n>              → sorted list | err NodeDoesNotExistError   (Skeleton)

<nodes>, <X>, … are hex lists; <edges> is `hexsrc>hexdst,…`; <typed-edges> is `hexsrc>hexdst:<type>,…` with
<type> one of `->  --  <>  oo  o>  o-`; `.` is the empty list.
-/
import CG.Driver.Codec
import CG.Model.DSep
import CG.Model.Boundary

namespace CG.Driver.Dsep
open CG.Codec CG.DSepDec CG.MB

def decKind? : String → Option EdgeKind
  | "->" => some .directed
  | "--" => some .undirected
  | "<>" => some .bidirected
  | "oo" => some .unknown
  | "o>" => some .unknownDirected
  | "o-" => some .unknownUndirected
  | _ => none

/-- typed edge list: `hexsrc>hexdst:<type>` items, comma separated, `.` for none -/
def decTypedEdges? (t : String) : Option (List (String × String × EdgeKind)) :=
  (splitList t).mapM fun item =>
    match item.splitOn ":" with
    | [lhs, ty] =>
      match lhs.splitOn ">" with
      | [a, b] => do
        let x ← hexDec? a
        let y ← hexDec? b
        let k ← decKind? ty
        pure (x, y, k)
      | _ => none
    | _ => none

def sortStr (xs : List String) : List String := xs.mergeSort (fun a b => decide (a ≤ b))

def replyBool : Except Err Bool → String
  | .ok b => boolStr b
  | .error e => "err " ++ e.name

def replyList : Except Err (List String) → String
  | .ok xs => encList (sortStr xs)
  | .error e => "err " ++ e.name

def replyUnit : Except Err Unit → String
  | .ok _ => "ok"
  | .error e => "err " ++ e.name

def orBad (r : Option String) : String := r.getD "bad-op"

def handle : List String → String
  | ["is", ns, es, xs, ys, zs] => orBad do
    let nodes ← decList? ns
    let E ← decEdges? es
    let X ← decList? xs
    let Y ← decList? ys
    let Z ← decList? zs
    pure (replyBool (isDSeparated true nodes E X Y Z))
  | ["ist", ns, es, xs, ys, zs] => orBad do
    let nodes ← decList? ns
    let TE ← decTypedEdges? es
    let X ← decList? xs
    let Y ← decList? ys
    let Z ← decList? zs
    pure (replyBool (isDSeparated (fullyDirected TE) nodes (pairs TE) X Y Z))
  | ["minimal", ns, es, x, y, zs] => orBad do
    let nodes ← decList? ns
    let E ← decEdges? es
    let x ← hexDec? x
    let y ← hexDec? y
    let Z ← decList? zs
    pure (replyBool (isMinimallyDSeparated true nodes E x y Z))
  | ["validsep", _ns, es, x, y, zs] => orBad do
    let E ← decEdges? es
    let x ← hexDec? x
    let y ← hexDec? y
    let Z ← decList? zs
    pure (boolStr (isMinimalSepB E x y Z))
  | ["getpre", ns, es, x, y] => orBad do
    let nodes ← decList? ns
    let E ← decEdges? es
    let x ← hexDec? x
    let y ← hexDec? y
    pure (replyUnit (getDSeparationSetPre true nodes E x y))
  | ["mb", ns, es, n] => orBad do
    let nodes ← decList? ns
    let E ← decEdges? es
    let n ← hexDec? n
    pure (replyList (identifyMarkovBoundary true nodes E n))
  | ["mbt", ns, es, n] => orBad do
    let nodes ← decList? ns
    let TE ← decTypedEdges? es
    let n ← hexDec? n
    pure (replyList (identifyMarkovBoundary (fullyDirected TE) nodes (pairs TE) n))
  | ["colliders", ns, es, flag] => orBad do
    let nodes ← decList? ns
    let TE ← decTypedEdges? es
    let u ← (if flag = "1" then some true else if flag = "0" then some false else none)
    pure (encList (sortStr (colliders TE nodes u)))
  | ["skmb", ns, es, n] => orBad do
    let nodes ← decList? ns
    let TE ← decTypedEdges? es
    let n ← hexDec? n
    pure (replyList (skeletonBoundary nodes TE n))
  | _ => "bad-op"

end CG.Driver.Dsep
