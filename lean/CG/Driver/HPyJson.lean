/-
Driver handler `pyjson`: the transcription of CPython 3.12 `json.dumps` / `json.loads` (CG/Model/PyJson.lean).

  pyjson dumps  <hex of the canonical encoding of a value>   → hex of the text `json.dumps(v)`
  pyjson dumpss <hex of the canonical encoding of a value>   → hex of the text `json.dumps(v, sort_keys=True)`
  pyjson cj     <hex of the canonical encoding of a value>   → hex of the text
                                                               `json.dumps(v, sort_keys=True, separators=(',', ':'), ensure_ascii=False)`
  pyjson dumpsf <0|1> <w1> <w2> <w3> <w4> <value>            → hex of the text
                                                               `json.dumps(v, ensure_ascii=<0|1>, separators=(w1 + ',' + w2, w3 + ':' + w4))`
                                                               (the four `w` are hex strings)
  pyjson loads  <hex of a text>                              → hex of the canonical encoding of `json.loads(text)`
                                                               | err JSONDecodeError | unsupported
  pyjson unsupported                                         → unsupported   (what the Python side sends for a value that
                                                               has no canonical encoding: a float, a non-str key, a str
                                                               with an unpaired surrogate)

Canonical encoding of a value (a tagged prefix code; the Python side writes it without `json`), as a text:

  n                 None
  t / f             True / False
  i<decimal>;       an int (`str(i)`: optional `-`, decimal digits)
  s<N>:<chars>      a str of N code points, verbatim
  a<N>:<v1>…<vN>    a list of N values
  o<N>:<k1><v1>…    a dict of N items in insertion order; a key is `<N>:<chars>` (a str without the tag)

`unsupported`: Python accepts the text but the value holds a float or an unpaired surrogate (see the model).
-/
import CG.Driver.Codec
import CG.Model.PyJson

namespace CG.Driver.PyJson
open CG.Codec CG.PyJson

/-! ### canonical encoding -/

def encStr (s : String) : List Char := (toString s.toList.length).toList ++ ':' :: s.toList

mutual
def encJ : JVal → List Char
  | .null => ['n']
  | .bool true => ['t']
  | .bool false => ['f']
  | .int i => 'i' :: (toString i).toList ++ [';']
  | .str s => 's' :: encStr s
  | .arr xs => 'a' :: (toString xs.length).toList ++ ':' :: encJs xs
  | .obj kvs => 'o' :: (toString kvs.length).toList ++ ':' :: encPairs kvs
def encJs : List JVal → List Char
  | [] => []
  | x :: xs => encJ x ++ encJs xs
def encPairs : List (String × JVal) → List Char
  | [] => []
  | (k, v) :: kvs => encStr k ++ (encJ v ++ encPairs kvs)
end

/-- decimal digits up to the terminator `stop` -/
def takeNat (stop : Char) (cs : List Char) : Option (Nat × List Char) :=
  let ds := (spanDigits cs).1
  match ds, (spanDigits cs).2 with
  | [], _ => none
  | _ :: _, c :: rest => if c = stop then some (decVal ds, rest) else none
  | _, [] => none

def takeStr (cs : List Char) : Option (String × List Char) :=
  match takeNat ':' cs with
  | none => none
  | some (n, rest) =>
    let t := rest.take n
    if t.length < n then none else some (String.ofList t, rest.drop n)

mutual
def decJ : Nat → List Char → Option (JVal × List Char)
  | 0, _ => none
  | _ + 1, [] => none
  | f + 1, c :: r =>
    if c = 'n' then some (.null, r)
    else if c = 't' then some (.bool true, r)
    else if c = 'f' then some (.bool false, r)
    else if c = 'i' then
      match r with
      | [] => none
      | s :: r' =>
        if s = '-' then (takeNat ';' r').map fun (n, rest) => (.int (- Int.ofNat n), rest)
        else (takeNat ';' r).map fun (n, rest) => (.int (Int.ofNat n), rest)
    else if c = 's' then (takeStr r).map fun (s, rest) => (.str s, rest)
    else if c = 'a' then
      match takeNat ':' r with
      | none => none
      | some (n, rest) => (decJs f n rest).map fun (vs, rest') => (.arr vs, rest')
    else if c = 'o' then
      match takeNat ':' r with
      | none => none
      | some (n, rest) => (decPairs f n rest).map fun (ps, rest') => (.obj ps, rest')
    else none
def decJs : Nat → Nat → List Char → Option (List JVal × List Char)
  | 0, _, _ => none
  | _ + 1, 0, cs => some ([], cs)
  | f + 1, n + 1, cs =>
    match decJ f cs with
    | none => none
    | some (v, rest) => (decJs f n rest).map fun (vs, rest') => (v :: vs, rest')
def decPairs : Nat → Nat → List Char → Option (List (String × JVal) × List Char)
  | 0, _, _ => none
  | _ + 1, 0, cs => some ([], cs)
  | f + 1, n + 1, cs =>
    match takeStr cs with
    | none => none
    | some (k, rest) =>
      match decJ f rest with
      | none => none
      | some (v, rest') => (decPairs f n rest').map fun (ps, rest'') => ((k, v) :: ps, rest'')
end

def decValue? (t : String) : Option JVal := do
  let s ← hexDec? t
  let cs := s.toList
  match decJ (2 * cs.length + 2) cs with
  | some (v, []) => some v
  | _ => none

def replyLoads : Except JErr JVal → String
  | .ok v => hexEnc (String.ofList (encJ v))
  | .error .unsupported => "unsupported"
  | .error e => "err " ++ e.name

def orBad (r : Option String) : String := r.getD "bad-op"

def handle : List String → String
  | ["dumps", t] => orBad do
    let v ← decValue? t
    pure (hexEnc (dumps v))
  | ["dumpss", t] => orBad do
    let v ← decValue? t
    pure (hexEnc (dumpsSorted v))
  | ["cj", t] => orBad do
    let v ← decValue? t
    pure (hexEnc (cj v))
  | ["dumpsf", a, w1, w2, w3, w4, t] => orBad do
    let v ← decValue? t
    let w1 ← hexDec? w1
    let w2 ← hexDec? w2
    let w3 ← hexDec? w3
    let w4 ← hexDec? w4
    let fmt : Fmt := ⟨a == "1", w1.toList, w2.toList, w3.toList, w4.toList⟩
    pure (hexEnc (String.ofList (dumpsF fmt v)))
  | ["loads", t] => orBad do
    let s ← hexDec? t
    pure (replyLoads (loads s))
  | ["unsupported"] => "unsupported"
  | _ => "bad-op"

end CG.Driver.PyJson
