/-
Driver handler `nxtopo`: the transcription of the topological-order routines of networkx 3.2.1 (CG/Model/NxTopo.lean).

  nxtopo sort  <nodes> <edges>         → hxlist in networkx's order | err NetworkXUnfeasible     list(networkx.topological_sort(G))
  nxtopo gens  <nodes> <edges>         → hxlistlist, each generation in networkx's order | err …  list(networkx.topological_generations(G))
  nxtopo isdag <nodes> <edges>         → 1 | 0                                                    networkx.is_directed_acyclic_graph(G)
  nxtopo lex   <nodes> <edges> <keys>  → hxlist in networkx's order | err …      list(networkx.lexicographical_topological_sort(G, key))
  nxtopo all   <nodes> <edges>         → hxlistlist in networkx's generation order | err …        list(networkx.all_topological_sorts(G))

<nodes> is a hex list (`.` = empty) in `G.nodes` order, <edges> is `hexsrc>hexdst,…` (the successors of every node in
adjacency order, e.g. `G.edges` order or the order in which the edges were added), <keys> is a comma separated list of
integers (`.` = empty), one per node, in node order.  Nothing is sorted: the order of every reply is networkx's.
(`err RuntimeError`, `err AssertionError`, `err KeyError`, `err IndexError`, `err OutOfFuel` are the other branches of
the transcription; proved unreachable on a well-formed graph, CG/Proofs/C10NxTopo.lean.)
-/
import CG.Driver.Codec
import CG.Model.NxTopo

namespace CG.Driver.NxTopo
open CG.Codec CG.NxTopo

def orBad (r : Option String) : String := r.getD "bad-op"

def replyWith {β : Type} (enc : β → String) : Except NxErr β → String
  | .ok b => enc b
  | .error e => "err " ++ e.name

/-- `key(node)`: the integer at the node's position (0 for an unknown node; not used on a well-formed request) -/
def keyOf (nodes : List String) (keys : List Int) (v : String) : Int := keys.getD (nodes.idxOf v) 0

def decKeys? (t : String) : Option (List Int) := (splitList t).mapM decInt?

def handle : List String → String
  | ["sort", ns, es] => orBad do
    let nodes ← decList? ns
    let E ← decEdges? es
    pure (replyWith encList (nxTopologicalSort nodes E))
  | ["gens", ns, es] => orBad do
    let nodes ← decList? ns
    let E ← decEdges? es
    pure (replyWith encListList (nxTopologicalGenerations nodes E))
  | ["isdag", ns, es] => orBad do
    let nodes ← decList? ns
    let E ← decEdges? es
    pure (replyWith boolStr (nxIsDirectedAcyclicGraph nodes E))
  | ["lex", ns, es, ks] => orBad do
    let nodes ← decList? ns
    let E ← decEdges? es
    let keys ← decKeys? ks
    if keys.length ≠ nodes.length then none
    else pure (replyWith encList (nxLexTopo nodes E (keyOf nodes keys)))
  | ["all", ns, es] => orBad do
    let nodes ← decList? ns
    let E ← decEdges? es
    pure (replyWith encListList (nxAllTopologicalSorts nodes E))
  | _ => "bad-op"

end CG.Driver.NxTopo
