/-
Driver handler `ts` (C14–C17): the derived graphs of the time-series class, on whole graphs as tokens
(`CG/Driver/GraphCodec.lean`).  Stateless.

    ts minimal      <graph> [<idx>]                  →  ok <graph> | err <Class>
    ts isminimal    <graph> [<idx>]                  →  1 | 0 | err <Class>
    ts extend       <graph> <b|~> <f|~> <0|1> [<idx>] →  ok <graph> | err <Class>
    ts stationary   <graph> [<idx>]                  →  ok <graph> | err <Class>
    ts isstationary <graph> [<idx>]                  →  1 | 0 | err <Class>
    ts summary      <graph>                          →  ok <graph> | err <Class>

`<idx>` = hex list of node identifiers in the order of the implementation's variable index
(`get_nodes_for_variable_name`), see `CG/Model/TS.lean`; absent = sorted order.  `<b>`, `<f>` are decimal integers
(negative ones are accepted by the protocol: the model answers `err AssertionError` as the code does).
-/
import CG.Driver.GraphCodec
import CG.Model.TS

namespace CG.Driver.TS
open CG CG.Codec CG.Driver.GraphCodec CG.Driver.GraphH

def replyG : Except Err Graph → String
  | .ok g => "ok " ++ encGraph g
  | .error e => "err " ++ e.text

def replyBool : Except Err Bool → String
  | .ok b => boolStr b
  | .error e => "err " ++ e.text

def decIdx? : List String → Option (List String)
  | [] => some []
  | [t] => decList? t
  | _ => none

def handle : List String → String
  | "minimal" :: t :: rest =>
    match decGraph? t, decIdx? rest with
    | some g, some idx => replyG (CG.TS.minimalGraph g idx)
    | _, _ => "bad-op"
  | "isminimal" :: t :: rest =>
    match decGraph? t, decIdx? rest with
    | some g, some idx => replyBool (CG.TS.isMinimalGraph g idx)
    | _, _ => "bad-op"
  | "extend" :: t :: b :: f :: iap :: rest =>
    match decGraph? t, decOpt? decInt? b, decOpt? decInt? f, decBool? iap, decIdx? rest with
    | some g, some b?, some f?, some i, some idx => replyG (CG.TS.extendGraph g idx b? f? i)
    | _, _, _, _, _ => "bad-op"
  | "stationary" :: t :: rest =>
    match decGraph? t, decIdx? rest with
    | some g, some idx => replyG (CG.TS.stationaryGraph g idx)
    | _, _ => "bad-op"
  | "isstationary" :: t :: rest =>
    match decGraph? t, decIdx? rest with
    | some g, some idx => replyBool (CG.TS.isStationaryGraph g idx)
    | _, _ => "bad-op"
  | ["summary", t] =>
    match decGraph? t with
    | some g => replyG (CG.TS.summaryGraph g)
    | none => "bad-op"
  | _ => "bad-op"

end CG.Driver.TS
