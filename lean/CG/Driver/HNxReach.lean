/-
Driver handler `nxreach`: the transcription of networkx 3.2.1 `descendants`, `ancestors`, `bfs_edges`,
`all_simple_paths`, `to_numpy_array` (CG/Model/NxReach.lean).

  nxreach desc    <nodes> <edges> <x>       → sorted node list | err NetworkXError          networkx.descendants(G, x)
  nxreach anc     <nodes> <edges> <x>       → sorted node list | err NetworkXError          networkx.ancestors(G, x)
  nxreach bfs     <nodes> <edges> <x>       → edge list in generation order | err NetworkXError    list(networkx.bfs_edges(G, x))
  nxreach rbfs    <nodes> <edges> <x>       → edge list in generation order | err NetworkXError    list(networkx.bfs_edges(G, x, reverse=True))
  nxreach paths   <nodes> <edges> <s> <t>   → list of paths in generation ORDER | err NodeNotFound     list(networkx.all_simple_paths(G, s, t))
  nxreach pathsu  <nodes> <edges> <s> <t>   → the same list, sorted (for an unknown multi-character target, where the
                                              generation order within one cutoff batch is the order of a Python set)
  nxreach matrix  <nodes> <edges>           → rows of 0/1 digits separated by `;` (`.` for the empty graph)     networkx.to_numpy_array(DiGraph)
  nxreach umatrix <nodes> <edges>           → the same for an undirected `Graph` whose `G.edges` is <edges>

<nodes> is a hex list (`.` = empty), <x>, <s>, <t> hex strings, <edges> is `hexsrc>hexdst,…` in insertion order.
Nodes are Python `str`: an unknown target of `all_simple_paths` is read as the set of its characters (`strItems`).
-/
import CG.Driver.Codec
import CG.Model.NxReach

namespace CG.Driver.NxReach
open CG.Codec CG.NxReach

def sortStr (xs : List String) : List String := xs.mergeSort (fun a b => decide (a ≤ b))

/-- lexicographic order on lists of strings (Python's list comparison) -/
def listLe : List String → List String → Bool
  | [], _ => true
  | _ :: _, [] => false
  | a :: as, b :: bs => if a < b then true else if b < a then false else listLe as bs

def sortPaths (ps : List (List String)) : List (List String) := ps.mergeSort listLe

def replySet : Except NxErr (List String) → String
  | .ok l => encList (sortStr l.eraseDups)
  | .error e => "err " ++ e.name

def replyEdges : Except NxErr (List (String × String)) → String
  | .ok l => encEdges l
  | .error e => "err " ++ e.name

def replyPaths (sorted : Bool) : Except NxErr (List (List String)) → String
  | .ok l => encListList (if sorted then sortPaths l else l)
  | .error e => "err " ++ e.name

def encMatrix (A : List (List Nat)) : String :=
  if A.isEmpty then "." else ";".intercalate (A.map fun row => String.join (row.map toString))

def orBad (r : Option String) : String := r.getD "bad-op"

def handle : List String → String
  | ["desc", ns, es, x] => orBad do
    let nodes ← decList? ns
    let E ← decEdges? es
    let x ← hexDec? x
    pure (replySet (nxDescendants nodes E x))
  | ["anc", ns, es, x] => orBad do
    let nodes ← decList? ns
    let E ← decEdges? es
    let x ← hexDec? x
    pure (replySet (nxAncestors nodes E x))
  | ["bfs", ns, es, x] => orBad do
    let nodes ← decList? ns
    let E ← decEdges? es
    let x ← hexDec? x
    pure (replyEdges (bfsEdges nodes E x false))
  | ["rbfs", ns, es, x] => orBad do
    let nodes ← decList? ns
    let E ← decEdges? es
    let x ← hexDec? x
    pure (replyEdges (bfsEdges nodes E x true))
  | ["paths", ns, es, s, t] => orBad do
    let nodes ← decList? ns
    let E ← decEdges? es
    let s ← hexDec? s
    let t ← hexDec? t
    pure (replyPaths false (nxAllSimplePaths strItems nodes E s t))
  | ["pathsu", ns, es, s, t] => orBad do
    let nodes ← decList? ns
    let E ← decEdges? es
    let s ← hexDec? s
    let t ← hexDec? t
    pure (replyPaths true (nxAllSimplePaths strItems nodes E s t))
  | ["matrix", ns, es] => orBad do
    let nodes ← decList? ns
    let E ← decEdges? es
    pure (encMatrix (nxToNumpyArray nodes E))
  | ["umatrix", ns, es] => orBad do
    let nodes ← decList? ns
    let E ← decEdges? es
    pure (encMatrix (nxToNumpyArrayU nodes E))
  | _ => "bad-op"

end CG.Driver.NxReach
