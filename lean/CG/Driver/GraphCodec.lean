/-
A whole graph as ONE protocol token, so that stateless handlers can take graphs as arguments:

  `<cls>/<nodes>/<edges>/<gmeta>`   cls = plain | ts
  nodes : `,`-separated `hexid|vtype|meta` (plain) or `hexid|vtype|meta|hexvar|lag` (ts); `.` = none
  edges : `,`-separated `hexsrc>hexdst|type|meta`; `.` = none
  meta  : `_` or `hexkey=hexvalue&…`

`decGraph?` builds the maps directly (no checks): the sender is responsible for sending a state the
implementation actually reached.
-/
import CG.Driver.HGraph

namespace CG.Driver.GraphCodec
open CG CG.Codec CG.Driver.GraphH Std

def encGraph (g : Graph) : String :=
  let c := match g.cls with | .plain => "plain" | .ts => "ts"
  c ++ "/" ++ joinList ((getNodes g).map (encNode g)) ++ "/" ++ joinList ((getEdges g none none none).map encEdge)
    ++ "/" ++ encMeta g.gmeta

def decNode? (c : GraphClass) (t : String) : Option (String × NodeRec) :=
  match c, t.splitOn "|" with
  | .plain, [i, vt, m] => do pure ((← hexDec? i), { vtype := (← VType.ofText? vt), md := (← decMeta? m) })
  | .ts, [i, vt, m, v, l] => do
    pure ((← hexDec? i), { vtype := (← VType.ofText? vt), md := (← decMeta? m), var := (← hexDec? v), lag := (← decInt? l) })
  | _, _ => none

def decEdge? (t : String) : Option (EKey × EdgeRec) :=
  match t.splitOn "|" with
  | [k, ty, m] =>
    match k.splitOn ">" with
    | [a, b] => do pure (((← hexDec? a), (← hexDec? b)), { ty := (← EdgeType.ofText? ty), md := (← decMeta? m) })
    | _ => none
  | _ => none

def decGraph? (t : String) : Option Graph :=
  match t.splitOn "/" with
  | [c, ns, es, gm] => do
    let cls ← if c = "plain" then some GraphClass.plain else if c = "ts" then some GraphClass.ts else none
    let nodes ← (splitList ns).mapM (decNode? cls)
    let edges ← (splitList es).mapM decEdge?
    let gmeta ← decMeta? gm
    pure { cls := cls,
           nodes := nodes.foldl (fun acc (k, r) => acc.insert k r) ∅,
           edges := edges.foldl (fun acc (k, r) => acc.insert k r) ∅,
           gmeta := gmeta }
  | _ => none

end CG.Driver.GraphCodec
