/-
Driver handler `name` (C12, string half).

    name parse <hex>          →  ok <hexvar> <int>  |  err ValueError
    name format <hex> <int>   →  ok <hex>           |  err ValueError
    name extract <hxlist>     →  ok <hexvar>:<int>,… <max>   |  err ValueError      (`.` = empty list)
-/
import CG.Driver.Codec
import CG.Model.Name

namespace CG.Driver.Name
open CG.Codec

def handle : List String → String
  | ["parse", h] =>
    match hexDec? h with
    | none => "bad-op"
    | some s =>
      match CG.Name.parse s with
      | none => "err ValueError"
      | some (v, k) => "ok " ++ hexEnc v ++ " " ++ toString k
  | ["format", h, n] =>
    match hexDec? h, decInt? n with
    | some s, some k =>
      match CG.Name.format s k with
      | none => "err ValueError"
      | some r => "ok " ++ hexEnc r
    | _, _ => "bad-op"
  | ["extract", t] =>
    match decList? t with
    | none => "bad-op"
    | some names =>
      match CG.Name.extractNamesAndLags names with
      | none => "err ValueError"
      | some (ps, m) =>
        let body := if ps.isEmpty then "." else joinList (ps.map fun p => hexEnc p.1 ++ ":" ++ toString p.2)
        "ok " ++ body ++ " " ++ toString m
  | _ => "bad-op"

end CG.Driver.Name
