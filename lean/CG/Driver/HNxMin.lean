/-
Driver handler `nxmin`: the transcription of networkx 3.2.1 `minimal_d_separator` / `is_minimal_d_separator`
(CG/Model/NxMinSep.lean).

  nxmin sep   <nodes> <edges> <u> <v>                  → sorted node list | err NetworkXError | err NodeNotFound
                                                          networkx.minimal_d_separator(G, u, v)
  nxmin ismin <nodes> <edges> <u> <v> <Z>              → 1 | 0 | err NetworkXError | err NodeNotFound
                                                          networkx.is_minimal_d_separator(G, u, v, Z)
  nxmin marks <nodes> <edges> <u> <v> <start> <check>  → sorted node list | err NetworkXError
                                                          _bfs_with_marks(moral_graph(G.subgraph(An(u) ∪ An(v) ∪ {u, v})), start, check)
  nxmin moral <nodes> <edges> <u> <v>                  → sorted edge list (each undirected edge once, smaller end first) | err NetworkXError
                                                          moral_graph(G.subgraph(An(u) ∪ An(v) ∪ {u, v})).edges

<nodes>, <Z>, <check> are hex lists (`.` = empty), <u>, <v>, <start> hex strings, <edges> is `hexsrc>hexdst,…` in
`G.edges` order.
-/
import CG.Driver.Codec
import CG.Model.NxMinSep

namespace CG.Driver.NxMin
open CG.Codec CG.NxDSep CG.NxMinSep

def sortStr (xs : List String) : List String := xs.mergeSort (fun a b => decide (a ≤ b))

def sortEdges (es : List (String × String)) : List (String × String) :=
  es.mergeSort (fun a b => decide (a.1 < b.1 ∨ (a.1 = b.1 ∧ a.2 ≤ b.2)))

def replyBool : Except NxErr Bool → String
  | .ok b => boolStr b
  | .error e => "err " ++ e.name

def replySet : Except NxErr (List String) → String
  | .ok l => encList (sortStr l.eraseDups)
  | .error e => "err " ++ e.name

def orBad (r : Option String) : String := r.getD "bad-op"

def handle : List String → String
  | ["sep", ns, es, u, v] => orBad do
    let nodes ← decList? ns
    let E ← decEdges? es
    let u ← hexDec? u
    let v ← hexDec? v
    pure (replySet (nxMinimalDSeparator nodes E u v))
  | ["ismin", ns, es, u, v, zs] => orBad do
    let nodes ← decList? ns
    let E ← decEdges? es
    let u ← hexDec? u
    let v ← hexDec? v
    let Z ← decList? zs
    pure (replyBool (nxIsMinimalDSeparator nodes E u v Z))
  | ["marks", ns, es, u, v, s, cs] => orBad do
    let nodes ← decList? ns
    let E ← decEdges? es
    let u ← hexDec? u
    let v ← hexDec? v
    let s ← hexDec? s
    let C ← decList? cs
    pure (replySet (bfsWithMarksE nodes E u v s C))
  | ["moral", ns, es, u, v] => orBad do
    let nodes ← decList? ns
    let E ← decEdges? es
    let u ← hexDec? u
    let v ← hexDec? v
    pure (if [u, v].any (fun n => decide (n ∉ nodes)) then "err NetworkXError"
      else encEdges (sortEdges ((moralOf nodes E u v).filter (fun e => decide (e.1 ≤ e.2))).eraseDups))
  | _ => "bad-op"

end CG.Driver.NxMin
