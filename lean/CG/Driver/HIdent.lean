/-
Handler `ident`: the identify utilities (C18, C19).

  ident confounders <nodes> <edges> <hexx> <hexy> [0|1]
  ident instruments <nodes> <edges> <hexs> <hext> <max_num_paths> [0|1]
  ident mediators   <nodes> <edges> <hexs> <hext> <max_num_paths> [0|1]

`<nodes>` hex list, `<edges>` directed edge list in networkx adjacency order, the optional last token is
`CausalGraph._is_fully_directed()` (default `1`; `0` for a mixed graph, `<edges>` then holds the directed edges only).
Reply: `ok <sorted, duplicate-free hex list>` or `err <ExceptionClass>`.
-/
import CG.Driver.Codec
import CG.Model.Identify

namespace CG.Driver.Ident
open CG.Codec CG.Ident

def canonSet (xs : List String) : List String :=
  (xs.mergeSort (fun a b => !(decide (b < a)))).eraseDups

def reply : Except Err (List String) → String
  | .ok xs => "ok " ++ encList (canonSet xs)
  | .error e => "err " ++ e.name

def flag? : List String → Option Bool
  | [] => some true
  | ["1"] => some true
  | ["0"] => some false
  | _ => none

def handle : List String → String
  | "confounders" :: ns :: es :: x :: y :: rest =>
    match decList? ns, decEdges? es, hexDec? x, hexDec? y, flag? rest with
    | some nodes, some E, some x, some y, some fd => reply (identifyConfoundersChecked fd nodes E x y)
    | _, _, _, _, _ => "bad-op"
  | "instruments" :: ns :: es :: x :: y :: m :: rest =>
    match decList? ns, decEdges? es, hexDec? x, hexDec? y, decInt? m, flag? rest with
    | some nodes, some E, some x, some y, some m, some fd => reply (identifyInstrumentsChecked fd nodes E x y m)
    | _, _, _, _, _, _ => "bad-op"
  | "mediators" :: ns :: es :: x :: y :: m :: rest =>
    match decList? ns, decEdges? es, hexDec? x, hexDec? y, decInt? m, flag? rest with
    | some nodes, some E, some x, some y, some m, some fd => reply (identifyMediatorsChecked fd nodes E x y m)
    | _, _, _, _, _, _ => "bad-op"
  | _ => "bad-op"

end CG.Driver.Ident
