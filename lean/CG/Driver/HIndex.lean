/-
Driver handler `idx`: the redundant containers of the index-level model (CG/Model/Indexed.lean), computed for the
canonical indexes `IGraph.ofGraph g` of a graph sent as ONE token (CG/Driver/GraphCodec.lean).

  idx views <graph>   →   S=<pairs> D=<pairs> N=<nodes> L=<lags> V=<vars>

    S   the key pairs of the by-source index, `hexsrc>hexdst,…` sorted by (source, destination); `.` = none
    D   the key pairs of the by-destination index written `hexdst>hexsrc,…`, sorted by (destination, source)
    N   per node (sorted by identifier) `hexid:<inbound pairs>:<outbound pairs>`, the pairs `hexsrc>hexdst` SORTED,
        entries joined by `;`; `.` = no node
    L   per lag with a non-empty bucket (ascending) `<lag>:<hex identifiers, SORTED>` joined by `;`; `.` = none
    V   per variable with a non-empty bucket (sorted) `hexvar:<hex identifiers, SORTED>` joined by `;`; `.` = none

Members are sorted because their insertion order depends on the history, which a stateless line does not carry.

  idx replay <cls> <prim> <prim> …   →   the same text for `IRun prims (IGraph.empty cls)`, members of every list in
                                          the model's INSERTION order (S, D, the node / lag / variable keys still sorted)

    <cls> = plain | ts;  <prim> =  n:<hexid>:<hexvar>:<lag>     `IGraph.insNode`   (variable type / metadata play no role)
                                 | e:<hexsrc>:<hexdst>:<type>   `IGraph.insEdge`   (<type> = `->`, `--`, `<>`, `oo`, `o>`, `o-`)
                                 | x:<hexsrc>:<hexdst>          `IGraph.delEdgeRaw`
                                 | d:<hexid>                    `IGraph.delNodeRaw`

Anything else → `bad-op`.
-/
import CG.Driver.Codec
import CG.Driver.GraphCodec
import CG.Model.Indexed

namespace CG.Driver.Index
open CG CG.Codec CG.Indexed Std

def sortStr (xs : List String) : List String := xs.mergeSort (fun a b => decide (a ≤ b))

def sortPairs (xs : List EKey) : List EKey := xs.mergeSort (fun a b => ekCmp a b != .gt)

def encNodeLists (sorted : Bool) (I : IGraph) (n : String) : String :=
  let f : List EKey → List EKey := if sorted then sortPairs else id
  hexEnc n ++ ":" ++ encEdges (f (inboundEdges I n)) ++ ":" ++ encEdges (f (outboundEdges I n))

def encViews (sorted : Bool) (I : IGraph) : String :=
  let f : List String → List String := if sorted then sortStr else id
  let s := encEdges I.bySrc.keys
  let d := encEdges I.byDst.keys
  let n := joinList (I.nodes.keys.map (encNodeLists sorted I)) ";"
  let l := joinList ((I.lagIdx.toList.filter (fun kv => !kv.2.isEmpty)).map
            (fun kv => toString kv.1 ++ ":" ++ encList (f kv.2))) ";"
  let v := joinList ((I.varIdx.toList.filter (fun kv => !kv.2.isEmpty)).map
            (fun kv => hexEnc kv.1 ++ ":" ++ encList (f kv.2))) ";"
  "S=" ++ s ++ " D=" ++ d ++ " N=" ++ n ++ " L=" ++ l ++ " V=" ++ v

def decPrim? (t : String) : Option Prim :=
  match t.splitOn ":" with
  | ["n", i, v, l] => do
    pure (.insNode (← hexDec? i) { vtype := .unspecified, md := [], var := (← hexDec? v), lag := (← decInt? l) })
  | ["e", a, b, ty] => do pure (.insEdge (← hexDec? a) (← hexDec? b) { ty := (← EdgeType.ofText? ty), md := [] })
  | ["x", a, b] => do pure (.delEdge (← hexDec? a) (← hexDec? b))
  | ["d", i] => do pure (.delNode (← hexDec? i))
  | _ => none

def handle : List String → String
  | ["views", t] =>
    match CG.Driver.GraphCodec.decGraph? t with
    | some g => encViews true (IGraph.ofGraph g)
    | none => "bad-op"
  | "replay" :: c :: ps =>
    match (if c = "plain" then some GraphClass.plain else if c = "ts" then some GraphClass.ts else none),
          ps.mapM decPrim? with
    | some cls, some prims => encViews false (IRun prims (IGraph.empty cls))
    | _, _ => "bad-op"
  | _ => "bad-op"

end CG.Driver.Index
