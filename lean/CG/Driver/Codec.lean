/-
Line-protocol codec shared by every driver handler.

Strings travel as lowercase hex of their UTF-8 bytes (`-` is the empty string, `~` is "argument absent").
Lists are comma separated; the empty list is `.`.
-/
namespace CG.Codec

def hexDigit (n : Nat) : Char :=
  if n < 10 then Char.ofNat (48 + n) else Char.ofNat (87 + n)

def hexVal? (c : Char) : Option Nat :=
  if '0' ≤ c ∧ c ≤ '9' then some (c.toNat - 48)
  else if 'a' ≤ c ∧ c ≤ 'f' then some (c.toNat - 87)
  else none

def hexEnc (s : String) : String :=
  if s.isEmpty then "-" else
  String.ofList (s.toUTF8.toList.flatMap fun b => [hexDigit (b.toNat / 16), hexDigit (b.toNat % 16)])

def hexBytes : List Char → Option (List UInt8)
  | [] => some []
  | [_] => none
  | a :: b :: rest => do
    let x ← hexVal? a
    let y ← hexVal? b
    let r ← hexBytes rest
    pure (UInt8.ofNat (x * 16 + y) :: r)

def hexDec? (t : String) : Option String :=
  if t = "-" then some "" else do
    let bs ← hexBytes t.toList
    String.fromUTF8? (ByteArray.mk bs.toArray)

/-- split on a separator character, `.` meaning the empty list -/
def splitList (t : String) (sep : Char := ',') : List String :=
  if t = "." then [] else t.splitOn (String.singleton sep)

def joinList (xs : List String) (sep : String := ",") : String :=
  if xs.isEmpty then "." else sep.intercalate xs

def decList? (t : String) : Option (List String) :=
  (splitList t).mapM hexDec?

def encList (xs : List String) : String := joinList (xs.map hexEnc)

def boolStr (b : Bool) : String := if b then "1" else "0"

def optStr? (t : String) : Option (Option String) :=
  if t = "~" then some none else (hexDec? t).map some

/-- directed edge list: `hexsrc>hexdst` items, comma separated, `.` for none -/
def decEdges? (t : String) : Option (List (String × String)) :=
  (splitList t).mapM fun item =>
    match item.splitOn ">" with
    | [a, b] => do
      let x ← hexDec? a
      let y ← hexDec? b
      pure (x, y)
    | _ => none

def encEdges (es : List (String × String)) : String :=
  joinList (es.map fun (a, b) => hexEnc a ++ ">" ++ hexEnc b)

/-- list of lists of strings: inner lists comma separated, outer separated by `;`, `.` for none; an empty inner list is `_` -/
def encListList (xss : List (List String)) : String :=
  if xss.isEmpty then "." else ";".intercalate (xss.map fun xs => if xs.isEmpty then "_" else ",".intercalate (xs.map hexEnc))

def decListList? (t : String) : Option (List (List String)) :=
  if t = "." then some [] else
  (t.splitOn ";").mapM fun item => if item = "_" then some [] else (item.splitOn ",").mapM hexDec?

def decInt? (t : String) : Option Int := t.toInt?

end CG.Codec
