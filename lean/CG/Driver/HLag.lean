/-
Driver handler `lag` (C08, lagged round trip): `TimeSeriesCausalGraph.from_adjacency_matrices` WITH minimisation
(`construct_minimal=True`, the default), i.e. the composition the theorem `CG.C08.fromAdjMatrices_toNumpyByLag` is about:
`CG.Mx.fromAdjacencyMatricesFull` (`CG/Model/Matrix.lean`, everything up to `get_minimal_graph()`) followed by
`CG.TS.minimalGraph` (`CG/Model/TS.lean`).  Formatting only.  Stateless.

    lag from_min <validate> <lagdict> <names|~>      ->  ok <graph> | err <Class>
    lag rt <validate> <minimal graph>                ->  ok <graph> | err <Class>
         (`from_adjacency_matrices(*to_numpy_by_lag(), validate=…)` computed from the minimal graph: export, import,
          minimise; the error of whichever step fails first)

`<lagdict>`, `<names>` as for `mx from_lagged` (`CG/Driver/HConv.lean`).

The variable index handed to `minimalGraph` is the empty list (sorted fallback): the graph built by the constructor has
every node fresh (variable type unspecified, no metadata), so the choice of the first node of a floating variable cannot
be observed.
-/
import CG.Driver.HConv
import CG.Model.TS

namespace CG.Driver.Lag
open CG CG.Codec CG.Driver.GraphCodec CG.Driver.GraphH CG.Driver.Conv CG.Mx

/-- `from_adjacency_matrices(mats, names, construct_minimal=True, validate)` -/
def fromAdjacencyMatricesMin (mats : List (Int × Mat)) (names? : Option (List String)) (validate : Bool) :
    Except Err Graph :=
  match fromAdjacencyMatricesFull mats names? validate with
  | (_, some e) => .error e
  | (g, none) => CG.TS.minimalGraph g []

def replyX : Except Err Graph → String
  | .ok g => "ok " ++ encGraph g
  | .error e => "err " ++ e.text

def handle : List String → String
  | ["from_min", v, d, ns] => (do
      pure (replyX (fromAdjacencyMatricesMin (← decLagDict? d) (← decNames? ns) (← decBool? v)))).getD "bad-op"
  | ["rt", v, g] => (do
      let m ← decGraph? g
      let val ← decBool? v
      pure (replyX (match toNumpyByLagOf m with
        | .error e => .error e
        | .ok (d, vars) => fromAdjacencyMatricesMin d (some vars) val))).getD "bad-op"
  | _ => "bad-op"

end CG.Driver.Lag
