/-
Driver handler for C06 (token `alias`).

  alias <recipe> <cls> <order> <tree> <shape…>

  recipe  to_networkx | adjacency_matrix | to_numpy | to_dict | to_dict_nometa | node_to_dict:<i> |
          edge_to_dict:<i> | listing | variables | nodes_at_lag:<k> | nodes_for_variable:<k> |
          adjacency_matrices | copy | copy_nometa | from_dict | ancestral | descendant | parents | children |
          minimal | extend | stationary | summary | from_causal_graph
  cls     plain | ts                 class of the source graph
  order   first | later              is the first export the cache-filling call, or did one call come before
  tree    repaired | legacy          recipes with D6–D8 repaired / as before the repairs
  shape   flat | nested              3 nodes, edges 0→1, 1→2, every metadata dictionary flat / nested
          or three tokens  <g> <nodes> <edges>:
            g      0 | 1             is the graph metadata nested
            nodes  e.g. 101          one flag per node (sorted-identifier order), `.` for none
            edges  e.g. 0-1-1,1-2-0  source index, destination index, nested flag; `.` for none

Reply: `ge1=_ ge2=_ e1e2=_ e1=_ e2=_` (`CG.Alias.Matrix.text`): does the graph share a location with the first /
second export, do the two exports share, do two distinct metadata cells inside the first / second export share.
Derived graphs are built with the adversarial plan `advPlans` (every code path from every cell).  `bad-op` for
anything that does not parse.

Mutators that take or move a metadata container use the same layout with `m0` / `m1` (is the caller's dictionary
flat / nested) in the place of `order`:

  alias <mutator> <cls> m0|m1 <tree> <shape…>

  mutator  mut_add_edge_meta:<s>:<d> | mut_add_node_meta | mut_replace_node:<i> | mut_replace_node_meta:<i> |
           mut_replace_node_inplace:<i> | mut_change_edge_type:<i>

Reply: `int=_ arg=_ old=_` (`CG.Alias.MutMatrix.text`): after the call, do two metadata cells of the graph share, does
the graph share with the caller's dictionary, does it share with the metadata of an object the call removed.
-/
import CG.Model.Alias

namespace CG.Driver.Alias
open CG.Alias

def parseIdx (name pre : String) : Option Nat :=
  match name.splitOn ":" with
  | [p, i] => if p = pre then i.toNat? else none
  | _ => none

def parseRecipe (name : String) (nNodes nEdges : Nat) : Option Recipe :=
  let plans := advPlans nNodes nEdges
  match name with
  | "to_networkx" => some .toNetworkx
  | "adjacency_matrix" => some .adjacencyMatrix
  | "to_numpy" => some .toNumpy
  | "to_dict" => some (.toDict true)
  | "to_dict_nometa" => some (.toDict false)
  | "listing" => some .listing
  | "variables" => some .variables
  | "adjacency_matrices" => some .adjacencyMatrices
  | "copy" => some (.derived (.copy true) plans)
  | "copy_nometa" => some (.derived (.copy false) plans)
  | "from_dict" => some (.derived .fromDict plans)
  | "ancestral" => some (.derived .ancestral plans)
  | "descendant" => some (.derived .descendant plans)
  | "parents" => some (.derived .parents plans)
  | "children" => some (.derived .children plans)
  | "minimal" => some (.derived .minimal plans)
  | "extend" => some (.derived .extend plans)
  | "stationary" => some (.derived .stationary plans)
  | "summary" => some (.derived .summary plans)
  | "from_causal_graph" => some (.derived .fromCausalGraph plans)
  | _ =>
    match parseIdx name "node_to_dict", parseIdx name "edge_to_dict", parseIdx name "nodes_at_lag",
      parseIdx name "nodes_for_variable" with
    | some i, _, _, _ => some (.nodeToDict i)
    | _, some i, _, _ => some (.edgeToDict i)
    | _, _, some k, _ => some (.nodesAtLag k)
    | _, _, _, some k => some (.nodesForVariable k)
    | _, _, _, _ => none

def parseMutator (name : String) : Option Mutator :=
  match name.splitOn ":" with
  | ["mut_add_edge_meta", a, b] => do
    let x ← a.toNat?
    let y ← b.toNat?
    pure (.addEdgeMeta x y)
  | ["mut_add_node_meta"] => some .addNodeMeta
  | ["mut_replace_node", i] => i.toNat?.map (.replaceNodeRename · false)
  | ["mut_replace_node_meta", i] => i.toNat?.map (.replaceNodeRename · true)
  | ["mut_replace_node_inplace", i] => i.toNat?.map .replaceNodeInPlace
  | ["mut_change_edge_type", i] => i.toNat?.map .changeEdgeType
  | _ => none

def parseBit (c : Char) : Option Bool :=
  if c = '0' then some false else if c = '1' then some true else none

def parseBits (t : String) : Option (List Bool) :=
  if t = "." then some [] else t.toList.mapM parseBit

def parseEdge (t : String) : Option (Nat × Nat × Bool) :=
  match t.splitOn "-" with
  | [a, b, c] => do
    let x ← a.toNat?
    let y ← b.toNat?
    let z ← parseBits c
    match z with
    | [f] => pure (x, y, f)
    | _ => none
  | _ => none

def parseEdges (t : String) : Option (List (Nat × Nat × Bool)) :=
  if t = "." then some [] else (t.splitOn ",").mapM parseEdge

def parseShape : List String → Option (Bool × List Bool × List (Nat × Nat × Bool))
  | ["flat"] => some (false, [false, false, false], [(0, 1, false), (1, 2, false)])
  | ["nested"] => some (true, [true, true, true], [(0, 1, true), (1, 2, true)])
  | [g, ns, es] => do
    let gb ← parseBits g
    let nb ← parseBits ns
    let eb ← parseEdges es
    match gb with
    | [b] => pure (b, nb, eb)
    | _ => none
  | _ => none

def handleMut (μ : Mutator) (cls ord : String) (shape : List String) : Option String := do
  let c ← (match cls with | "plain" => some Cls.plain | "ts" => some Cls.ts | _ => none)
  let nested ← (match ord with | "m0" => some false | "m1" => some true | _ => none)
  let sh ← parseShape shape
  let hp := mkHeap sh.1 sh.2.1 sh.2.2 0
  let m := mkMeta nested hp.2
  pure (mutSharing m.1 (mutate c m.1 μ hp.1 m.2)).text

def handle (args : List String) : String :=
  match args with
  | name :: cls :: ord :: tree :: shape =>
    let r : Option String := do
      if let some μ := parseMutator name then
        if tree = "repaired" ∨ tree = "legacy" then return ← handleMut μ cls ord shape else none
      let c ← (match cls with | "plain" => some Cls.plain | "ts" => some Cls.ts | _ => none)
      let o ← (match ord with | "first" => some Order.first | "later" => some Order.later | _ => none)
      let t ← (match tree with | "repaired" => some Tree.repaired | "legacy" => some Tree.legacy | _ => none)
      let sh ← parseShape shape
      let rec_ ← parseRecipe name sh.2.1.length sh.2.2.length
      let hp := mkHeap sh.1 sh.2.1 sh.2.2 0
      pure (sharing (runTwice c t rec_ o hp.1 hp.2)).text
    r.getD "bad-op"
  | _ => "bad-op"

end CG.Driver.Alias
