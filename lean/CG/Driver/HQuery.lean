/-
Driver handler `q10`: structural queries of property C10 (stateless).

  q10 anc      <nodes> <edges> <n>          -> sorted hxlist            | err AssertionError
  q10 desc     <nodes> <edges> <n>          -> sorted hxlist            | err AssertionError
  q10 isanc    <nodes> <edges> <a> <ds>     -> 1|0   (ds : hxlist)      | err AssertionError
  q10 isdesc   <nodes> <edges> <d> <as>     -> 1|0   (as : hxlist)      | err AssertionError
  q10 canc     <nodes> <edges> <a> <b>      -> sorted hxlist            | err AssertionError
  q10 cdesc    <nodes> <edges> <a> <b>      -> sorted hxlist            | err AssertionError
  q10 paths    <nodes> <edges> <s> <t>      -> sorted hxlistlist        | err AssertionError
  q10 between  <nodes> <edges> <s> <t>      -> sorted hxlist            | err AssertionError | err KeyError
  q10 dpe      <nodes> <edges> <s> <t>      -> 1|0                      | err AssertionError | err RecursionError
  q10 ancg     <nodes> <edges> <n>          -> <sorted nodes> <sorted edges>  | err AssertionError
  q10 descg    <nodes> <edges> <n>          -> idem
  q10 parg     <nodes> <edges> <n>          -> idem
  q10 chg      <nodes> <edges> <n>          -> idem

`<nodes>` is an hxlist, `<edges>` an hxedges list of the DIRECTED edges only.
-/
import CG.Driver.Codec
import CG.Model.Queries

namespace CG.Driver.Query
open CG.Codec CG.Q

def strLe (a b : String) : Bool := !(b < a)

def listLe : List String → List String → Bool
  | [], _ => true
  | _ :: _, [] => false
  | a :: as, b :: bs => if a < b then true else if b < a then false else listLe as bs

def edgeLe (x y : String × String) : Bool :=
  if x.1 < y.1 then true else if y.1 < x.1 then false else strLe x.2 y.2

def sortSet (xs : List String) : List String := (xs.mergeSort strLe).eraseDups

def sortPaths (ps : List (List String)) : List (List String) := (ps.mergeSort listLe).eraseDups

def sortEdges (es : List (String × String)) : List (String × String) := (es.mergeSort edgeLe).eraseDups

def errStr (e : Err) : String := "err " ++ e.name

def replySet : Except Err (List String) → String
  | .ok xs => encList (sortSet xs)
  | .error e => errStr e

def replyBool : Except Err Bool → String
  | .ok b => boolStr b
  | .error e => errStr e

def replyPaths : Except Err (List (List String)) → String
  | .ok ps => encListList (sortPaths ps)
  | .error e => errStr e

def replyGraph : Except Err (List String × List (String × String)) → String
  | .ok (ns, es) => encList (sortSet ns) ++ " " ++ encEdges (sortEdges es)
  | .error e => errStr e

def handle : List String → String
  | fn :: nt :: et :: rest =>
    match decList? nt, decEdges? et with
    | some nodes, some E =>
      match fn, rest with
      | "anc", [x] => match hexDec? x with
        | some n => replySet (getAncestors nodes E n) | none => "bad-op"
      | "desc", [x] => match hexDec? x with
        | some n => replySet (getDescendants nodes E n) | none => "bad-op"
      | "isanc", [x, ys] => match hexDec? x, decList? ys with
        | some a, some ds => replyBool (getIsAncestor nodes E a ds) | _, _ => "bad-op"
      | "isdesc", [x, ys] => match hexDec? x, decList? ys with
        | some d, some as => replyBool (getIsDescendant nodes E d as) | _, _ => "bad-op"
      | "canc", [x, y] => match hexDec? x, hexDec? y with
        | some a, some b => replySet (getCommonAncestors nodes E a b) | _, _ => "bad-op"
      | "cdesc", [x, y] => match hexDec? x, hexDec? y with
        | some a, some b => replySet (getCommonDescendants nodes E a b) | _, _ => "bad-op"
      | "paths", [x, y] => match hexDec? x, hexDec? y with
        | some s, some t => replyPaths (getAllCausalPaths nodes E s t) | _, _ => "bad-op"
      | "between", [x, y] => match hexDec? x, hexDec? y with
        | some s, some t => replySet (getNodesBetween nodes E s t) | _, _ => "bad-op"
      | "dpe", [x, y] => match hexDec? x, hexDec? y with
        | some s, some t => replyBool (getDirectedPathExists nodes E s t) | _, _ => "bad-op"
      | "ancg", [x] => match hexDec? x with
        | some n => replyGraph (getAncestralGraph nodes E n) | none => "bad-op"
      | "descg", [x] => match hexDec? x with
        | some n => replyGraph (getDescendantGraph nodes E n) | none => "bad-op"
      | "parg", [x] => match hexDec? x with
        | some n => replyGraph (getParentsGraph nodes E n) | none => "bad-op"
      | "chg", [x] => match hexDec? x with
        | some n => replyGraph (getChildrenGraph nodes E n) | none => "bad-op"
      | _, _ => "bad-op"
    | _, _ => "bad-op"
  | _ => "bad-op"

end CG.Driver.Query
