/-
Driver handler `nx`: the transcription of networkx 3.2.1 `d_separated` (CG/Model/NxDSep.lean).

  nx dsep   <nodes> <edges> <X> <Y> <Z>   → 1 | 0 | err NetworkXError | err NodeNotFound     networkx.d_separated(G, X, Y, Z)
  nx dsepuf <nodes> <edges> <X> <Y> <Z>   → same, with the union-find step transcribed instead of its closed form
  nx prune  <nodes> <edges> <U>           → sorted node list        nodes left after removing leaves outside U repeatedly
  nx final  <nodes> <edges> <X> <Y> <Z>   → sorted edge list        edges left after pruning and deleting the out-edges of Z

<nodes>, <X>, … are hex lists (`.` = empty), <edges> is `hexsrc>hexdst,…` in `G.edges` order.
-/
import CG.Driver.Codec
import CG.Model.NxDSep

namespace CG.Driver.Nx
open CG.Codec CG.NxDSep

def sortStr (xs : List String) : List String := xs.mergeSort (fun a b => decide (a ≤ b))

def sortEdges (es : List (String × String)) : List (String × String) :=
  es.mergeSort (fun a b => decide (a.1 < b.1 ∨ (a.1 = b.1 ∧ a.2 ≤ b.2)))

def replyBool : Except NxErr Bool → String
  | .ok b => boolStr b
  | .error e => "err " ++ e.name

def orBad (r : Option String) : String := r.getD "bad-op"

def handle : List String → String
  | ["dsep", ns, es, xs, ys, zs] => orBad do
    let nodes ← decList? ns
    let E ← decEdges? es
    let X ← decList? xs
    let Y ← decList? ys
    let Z ← decList? zs
    pure (replyBool (dSeparated nodes E X Y Z))
  | ["dsepuf", ns, es, xs, ys, zs] => orBad do
    let nodes ← decList? ns
    let E ← decEdges? es
    let X ← decList? xs
    let Y ← decList? ys
    let Z ← decList? zs
    pure (replyBool ((dSeparated nodes E X Y Z).map (fun _ => nxDSeparatedUF nodes E X Y Z)))
  | ["prune", ns, es, us] => orBad do
    let nodes ← decList? ns
    let E ← decEdges? es
    let U ← decList? us
    pure (encList (sortStr (pruneLeaves nodes E U).1))
  | ["final", ns, es, xs, ys, zs] => orBad do
    let nodes ← decList? ns
    let E ← decEdges? es
    let X ← decList? xs
    let Y ← decList? ys
    let Z ← decList? zs
    pure (encEdges (sortEdges (finalEdges nodes E X Y Z)))
  | _ => "bad-op"

end CG.Driver.Nx
