/-
Driver handler `nxgml`: the transcription of the GML text layer of networkx 3.2.1 (CG/Model/NxGml.lean).

  nxgml gen <0|1 directed> <hxlist labels> <hxedges edges>   → hex of '\n'.join(generate_gml(G))     G = DiGraph / Graph holding
                                                                the labels (that order) and `list(G.edges)` = <edges>
  nxgml parse <hex text>      → <0|1 directed> <items: list(G.nodes)> <items>items,… : list(G.edges)>   | err <Class> | unsupported
                                G = networkx.parse_gml(text)
  nxgml esc <hex>             → hex of escape(text)
  nxgml unesc <hex>           → hex of unescape(text) | err ValueError | unsupported

An item is the hex of a `str` node (`-` = the empty string; this is `hxlist` / `hxedges` when every node is a string),
`i<decimal>` for an `int` node, `t` for the node `()`.  `unsupported`: see the header of the model.
-/
import CG.Driver.Codec
import CG.Model.NxGml

namespace CG.Driver.NxGml
open CG.Codec CG.NxGml

def encAtom : Atom → String
  | .str s => hexEnc (String.ofList s)
  | .int i => "i" ++ toString i
  | .tuple0 => "t"

def errStr (e : Err) : String :=
  match e with
  | .unsupported => "unsupported"
  | e => "err " ++ e.name

def replyParsed : R Parsed → String
  | .ok p => boolStr p.directed ++ " " ++ joinList (p.nodes.map encAtom) ++ " " ++
      joinList (p.edges.map fun e => encAtom e.1 ++ ">" ++ encAtom e.2)
  | .error e => errStr e

def orBad (r : Option String) : String := r.getD "bad-op"

def handle : List String → String
  | ["gen", d, ls, es] => orBad do
    let labels ← decList? ls
    let edges ← decEdges? es
    let dir ← if d = "1" then some true else if d = "0" then some false else none
    pure (hexEnc (generateGml dir labels edges))
  | ["parse", t] => orBad do
    let text ← hexDec? t
    pure (replyParsed (parseGml text))
  | ["esc", t] => orBad do
    let text ← hexDec? t
    pure (hexEnc (String.ofList (escape text.toList)))
  | ["unesc", t] => orBad do
    let text ← hexDec? t
    pure (match unescape text.toList with
      | .ok s => hexEnc (String.ofList s)
      | .error e => errStr e)
  | _ => "bad-op"

end CG.Driver.NxGml
