/-
Reference definitions for C14–C17 (time-series graphs over (variable, lag) pairs), stated on the graph state in the
textbook way.  A node's variable and lag are the fields of its record (`WF` ties them to the identifier); the identifier
of the pair `(v, k)` is `Name.fmt v k`.
-/
import CG.Model.TS
import CG.Proofs.WF

namespace CG.TS
open CG Std CG.Name

/-- the domain of the C12 theorems: a non-empty variable name without a `lag(n=d+)` / `future(n=d+)` marker -/
def Dom (v : String) : Prop := v ≠ "" ∧ NoMarker v.toList

/-- `CanonicalNames g`: every node identifier is `fmt v k` for a non-empty marker-free `v` (the C12 domain; without it
    re-lagging a name can raise) -/
def CanonicalNames (g : Graph) : Prop := ∀ n : String, n ∈ g.nodes → ∃ (v : String) (k : Int), Dom v ∧ n = fmt v k

/-- `IsEdge g a b ty`: the stored edge `a → b` of type `ty` -/
def IsEdge (g : Graph) (a b : String) (ty : EdgeType) : Prop := ∃ r : EdgeRec, g.edges[(a, b)]? = some r ∧ r.ty = ty

/-- `(s, d, δ, ty)` is a template of `g`: some stored edge of type `ty` runs from a node of variable `s` to a node of
    variable `d` that lies `δ` later -/
def IsTemplate (g : Graph) (s d : String) (δ : Int) (ty : EdgeType) : Prop :=
  ∃ (a b : String) (ra rb : NodeRec) (re : EdgeRec),
    g.edges[(a, b)]? = some re ∧ g.nodes[a]? = some ra ∧ g.nodes[b]? = some rb ∧
    ra.var = s ∧ rb.var = d ∧ rb.lag - ra.lag = δ ∧ re.ty = ty

/-- `v` is a variable of `g` -/
def IsVar (g : Graph) (v : String) : Prop := ∃ (n : String) (r : NodeRec), g.nodes[n]? = some r ∧ r.var = v

/-- at most one template per (ordered variable pair, difference); at difference 0 at most one per UNORDERED pair, and
    none from a variable to itself -/
structure TemplateConsistent (g : Graph) : Prop where
  oneType : ∀ (s d : String) (δ : Int) (ty ty' : EdgeType), IsTemplate g s d δ ty → IsTemplate g s d δ ty' → ty = ty'
  noRev0 : ∀ (s d : String) (ty ty' : EdgeType), IsTemplate g s d 0 ty → ¬ IsTemplate g d s 0 ty'

/-- all nodes of a variable carry the same variable type and user metadata; all instances of a template the same edge
    metadata -/
structure VarConsistent (g : Graph) : Prop where
  nodes : ∀ (n n' : String) (r r' : NodeRec), g.nodes[n]? = some r → g.nodes[n']? = some r' → r.var = r'.var →
    r.vtype = r'.vtype ∧ r.md = r'.md
  edges : ∀ (a b a' b' : String) (ra rb ra' rb' : NodeRec) (re re' : EdgeRec),
    g.edges[(a, b)]? = some re → g.edges[(a', b')]? = some re' →
    g.nodes[a]? = some ra → g.nodes[b]? = some rb → g.nodes[a']? = some ra' → g.nodes[b']? = some rb' →
    ra.var = ra'.var → rb.var = rb'.var → rb.lag - ra.lag = rb'.lag - ra'.lag → re.md = re'.md

/-- the hypotheses of the C14–C16 theorems that concern names -/
structure TsHyp (g : Graph) : Prop where
  wf : WF g
  cls : g.cls = .ts
  names : CanonicalNames g

/-! ### C14: the minimal graph -/

/-- the edges the minimal graph must have: one per template, destination at lag 0, source at minus the difference -/
def MinEdge (g : Graph) (a b : String) (ty : EdgeType) : Prop :=
  ∃ (s d : String) (δ : Int), IsTemplate g s d δ ty ∧ a = fmt s (-δ) ∧ b = fmt d 0

/-- the nodes the minimal graph must have: template endpoints, plus each variable without a template endpoint once at
    lag 0 -/
def MinNode (g : Graph) (n : String) : Prop :=
  (∃ (a b : String) (ty : EdgeType), MinEdge g a b ty ∧ (n = a ∨ n = b)) ∨
  (∃ v : String, IsVar g v ∧ n = fmt v 0 ∧
    ¬ ∃ (a b : String) (ty : EdgeType) (k : Int), MinEdge g a b ty ∧ (a = fmt v k ∨ b = fmt v k))

/-! ### C15: the unrolling -/

/-- `t` is a destination time at which `extend_graph(b, f)` places template copies: 0 (the minimal graph itself), the
    backward extension range `[-b, -1]`, the forward extension range `[1, f]` -/
def ExtTime (b f : Option Nat) (iap : Bool) (δ t : Int) : Prop :=
  t = 0 ∨
  (∃ bb : Nat, b = some bb ∧ -(bb : Int) ≤ t ∧ t ≤ -1 ∧ (iap = true ∨ -(bb : Int) ≤ t - δ)) ∨
  (∃ ff : Nat, f = some ff ∧ 1 ≤ t ∧ t ≤ (ff : Int))

/-- the lag window every variable is present at -/
def InWindow (b f : Option Nat) (t : Int) : Prop :=
  (∃ bb : Nat, b = some bb ∧ -(bb : Int) ≤ t ∧ t ≤ 0) ∨ (∃ ff : Nat, f = some ff ∧ 0 ≤ t ∧ t ≤ (ff : Int))

/-- `Unroll.edge`: the copy of a template ending at an extension time -/
def UnrollEdge (g : Graph) (b f : Option Nat) (iap : Bool) (a c : String) (ty : EdgeType) : Prop :=
  ∃ (s d : String) (δ t : Int), IsTemplate g s d δ ty ∧ ExtTime b f iap δ t ∧ a = fmt s (t - δ) ∧ c = fmt d t

/-- `Unroll.node`: the minimal graph's nodes, every variable at every lag of the window, and copy endpoints -/
def UnrollNode (g : Graph) (b f : Option Nat) (iap : Bool) (n : String) : Prop :=
  MinNode g n ∨
  (∃ (v : String) (t : Int), IsVar g v ∧ InWindow b f t ∧ n = fmt v t) ∨
  (∃ (a c : String) (ty : EdgeType), UnrollEdge g b f iap a c ty ∧ (n = a ∨ n = c))

/-! ### C16: stationarity -/

/-- `k` is a lag of some node -/
def HasLag (g : Graph) (k : Int) : Prop := ∃ (n : String) (r : NodeRec), g.nodes[n]? = some r ∧ r.lag = k

/-- `lo … hi` is the lag range of `g` -/
def LagRange (g : Graph) (lo hi : Int) : Prop :=
  HasLag g lo ∧ HasLag g hi ∧ ∀ k : Int, HasLag g k → lo ≤ k ∧ k ≤ hi

/-- semantic stationarity (no acyclicity in it): every variable present at every lag of the range, and every copy of
    every template that fits in the range is an edge -/
def Stationary (s : Graph) : Prop :=
  ∀ lo hi : Int, LagRange s lo hi →
    (∀ (v : String) (t : Int), IsVar s v → lo ≤ t → t ≤ hi → fmt v t ∈ s.nodes) ∧
    (∀ (x y : String) (δ t : Int) (ty : EdgeType), IsTemplate s x y δ ty → lo ≤ t - δ → t ≤ hi →
      IsEdge s (fmt x (t - δ)) (fmt y t) ty)

/-! ### C17: the summary graph -/

/-- some edge of `g` runs from a node of variable `x` to a node of variable `y` -/
def Link (g : Graph) (x y : String) : Prop := ∃ (δ : Int) (ty : EdgeType), IsTemplate g x y δ ty

end CG.TS
