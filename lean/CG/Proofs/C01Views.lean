/-
C01 (3) `views_spec` and (4) `views_sorted`: every read view of `CG/Model/Views.lean` equals its one-line
definition over the abstract graph (the two extensional maps `g.nodes`, `g.edges`), is returned in the documented
order, and has no duplicates.  Nothing here needs the invariant `WF` except the one corollary that says so.

Core Lean + `Std` only.
-/
import CG.Model.Views
import CG.Proofs.WF

namespace CG.C01
open Std

/-! ### the two orders -/

theorem str_compare_lt (a b : String) : compare a b = .lt ↔ a < b := compareOfLessAndEq_eq_lt

theorem str_compare_eq (a b : String) : compare a b = .eq ↔ a = b := compare_eq_iff_eq

theorem ekCmp_def (a b : EKey) : ekCmp a b = (compare a.1 b.1).then (compare a.2 b.2) := rfl

/-- the edge-key order is the lexicographic order on (source, destination) -/
theorem ekCmp_lt_iff (a b : EKey) : ekCmp a b = .lt ↔ a.1 < b.1 ∨ (a.1 = b.1 ∧ a.2 < b.2) := by
  rw [ekCmp_def, ← str_compare_lt, ← str_compare_lt, ← str_compare_eq]
  cases compare a.1 b.1 <;> simp [Ordering.then]

theorem ekCmp_irrefl (a : EKey) : ¬ ekCmp a a = .lt := by
  rw [ekCmp_lt_iff]; simp [String.lt_irrefl]

/-- equal destinations: the order is the order of the sources -/
theorem ekCmp_same_snd {a b : EKey} (h : a.2 = b.2) : ekCmp a b = .lt ↔ a.1 < b.1 := by
  rw [ekCmp_lt_iff, h]; simp [String.lt_irrefl]

/-- equal sources: the order is the order of the destinations -/
theorem ekCmp_same_fst {a b : EKey} (h : a.1 = b.1) : ekCmp a b = .lt ↔ a.2 < b.2 := by
  rw [ekCmp_lt_iff, h]; simp [String.lt_irrefl]

theorem ne_of_str_lt {a b : String} (h : a < b) : a ≠ b := by
  intro e; subst e; exact String.lt_irrefl _ h

/-! ### generic list facts -/

/-- in a list strictly sorted by key, the rows with a given key are exactly the one row that is there -/
theorem filter_key_of_mem {α β : Type} [DecidableEq α] (R : α → α → Prop) (irr : ∀ a, ¬ R a a)
    (l : List (α × β)) (h : l.Pairwise (fun a b => R a.1 b.1)) (k : α) (v : β) (hm : (k, v) ∈ l) :
    l.filter (fun kv => kv.1 = k) = [(k, v)] := by
  induction l with
  | nil => simp at hm
  | cons x xs ih =>
    rw [List.pairwise_cons] at h
    obtain ⟨hx, hxs⟩ := h
    rcases List.mem_cons.mp hm with rfl | hm'
    · have : xs.filter (fun kv => kv.1 = k) = [] := by
        rw [List.filter_eq_nil_iff]
        intro y hy hk
        simp only [decide_eq_true_eq] at hk
        have := hx y hy
        rw [hk] at this
        exact irr _ this
      simp [this]
    · have hne : ¬ x.1 = k := by
        intro e
        have := hx _ hm'
        rw [e] at this
        exact irr _ this
      simp [hne, ih hxs hm']

theorem filter_key_of_not_mem {α β : Type} [DecidableEq α] (l : List (α × β)) (k : α)
    (hm : ∀ v, (k, v) ∉ l) : l.filter (fun kv => kv.1 = k) = [] := by
  rw [List.filter_eq_nil_iff]
  intro y hy hk
  simp only [decide_eq_true_eq] at hk
  exact hm y.2 (by rw [← hk]; exact hy)

/-- a strictly sorted list (irreflexive relation) has no duplicates -/
theorem nodup_of_pairwise {α : Type} {R : α → α → Prop} (irr : ∀ a, ¬ R a a) {l : List α}
    (h : l.Pairwise R) : l.Nodup := by
  refine List.Pairwise.imp ?_ h
  intro a b hab e
  subst e
  exact irr _ hab

/-! ### `sortDedup` -/

theorem mem_insSorted (x y : String) (l : List String) : y ∈ insSorted x l ↔ y = x ∨ y ∈ l := by
  induction l with
  | nil => simp [insSorted]
  | cons z zs ih =>
    unfold insSorted
    split
    · simp
    · split
      · rename_i _ h; subst h; simp
      · simp [ih]; grind

theorem str_lt_of_not_lt_of_ne {x y : String} (h1 : ¬ x < y) (h2 : x ≠ y) : y < x := by
  apply Decidable.byContradiction
  intro h3
  exact h2 (String.le_antisymm (String.not_lt.mp h3) (String.not_lt.mp h1))

theorem insSorted_sorted (x : String) (l : List String) (h : l.Pairwise (· < ·)) :
    (insSorted x l).Pairwise (· < ·) := by
  induction l with
  | nil => simp [insSorted]
  | cons z zs ih =>
    rw [List.pairwise_cons] at h
    obtain ⟨hz, hzs⟩ := h
    unfold insSorted
    split
    · rename_i hxz
      rw [List.pairwise_cons]
      refine ⟨?_, List.pairwise_cons.mpr ⟨hz, hzs⟩⟩
      intro a ha
      rcases List.mem_cons.mp ha with rfl | ha
      · exact hxz
      · exact String.lt_trans hxz (hz a ha)
    · split
      · exact List.pairwise_cons.mpr ⟨hz, hzs⟩
      · rename_i h1 h2
        rw [List.pairwise_cons]
        refine ⟨?_, ih hzs⟩
        intro a ha
        rcases (mem_insSorted x a zs).mp ha with rfl | ha
        · exact str_lt_of_not_lt_of_ne h1 h2
        · exact hz a ha

/-- `sortDedup` keeps exactly the members -/
theorem mem_sortDedup (y : String) (l : List String) : y ∈ sortDedup l ↔ y ∈ l := by
  induction l with
  | nil => simp [sortDedup]
  | cons x xs ih =>
    have : sortDedup (x :: xs) = insSorted x (sortDedup xs) := rfl
    rw [this, mem_insSorted, ih]; simp

/-- `sortDedup` returns a strictly increasing list -/
theorem sortDedup_sorted (l : List String) : (sortDedup l).Pairwise (· < ·) := by
  induction l with
  | nil => simp [sortDedup]
  | cons x xs ih => exact insSorted_sorted x _ ih

theorem sortDedup_nodup (l : List String) : (sortDedup l).Nodup :=
  nodup_of_pairwise String.lt_irrefl (sortDedup_sorted l)

/-! ### map facts used below -/

theorem mem_edges_iff (g : Graph) (k : EKey) : k ∈ g.edges ↔ ∃ r, g.edges[k]? = some r := by
  rw [ExtTreeMap.mem_iff_isSome_getElem?, Option.isSome_iff_exists]

theorem mem_nodes_iff (g : Graph) (n : String) : n ∈ g.nodes ↔ ∃ r, g.nodes[n]? = some r := by
  rw [ExtTreeMap.mem_iff_isSome_getElem?, Option.isSome_iff_exists]

theorem mem_edgeList (g : Graph) (k : EKey) (r : EdgeRec) : (k, r) ∈ g.edges.toList ↔ g.edges[k]? = some r :=
  ExtTreeMap.mem_toList_iff_getElem?_eq_some

theorem mem_edgeList' (g : Graph) (kv : EKey × EdgeRec) : kv ∈ g.edges.toList ↔ g.edges[kv.1]? = some kv.2 :=
  ExtTreeMap.mem_toList_iff_getElem?_eq_some

theorem mem_nodeList (g : Graph) (n : String) (r : NodeRec) : (n, r) ∈ g.nodes.toList ↔ g.nodes[n]? = some r :=
  ExtTreeMap.mem_toList_iff_getElem?_eq_some

theorem edgeList_sorted (g : Graph) : g.edges.toList.Pairwise (fun a b => ekCmp a.1 b.1 = .lt) :=
  ExtTreeMap.ordered_keys_toList

theorem nodeList_sorted (g : Graph) : g.nodes.toList.Pairwise (fun a b => a.1 < b.1) :=
  (ExtTreeMap.ordered_keys_toList (t := g.nodes)).imp (fun h => (str_compare_lt _ _).mp h)

theorem tyOk_iff (ty? : Option EdgeType) (r : EdgeRec) : tyOk ty? r = true ↔ ∀ t, ty? = some t → r.ty = t := by
  cases ty? <;> simp [tyOk]

/-! ### `views_spec` : nodes -/

/-- `get_node_names()` lists exactly the identifiers of the node map -/
theorem mem_getNodeNames (g : Graph) (n : String) : n ∈ getNodeNames g ↔ n ∈ g.nodes :=
  ExtTreeMap.mem_keys

/-- `get_nodes()` lists exactly the (identifier, record) pairs of the node map -/
theorem mem_getNodes (g : Graph) (n : String) (r : NodeRec) : (n, r) ∈ getNodes g ↔ g.nodes[n]? = some r :=
  mem_nodeList g n r

/-- `get_node_names()` is `get_nodes()` with the records dropped, as lists -/
theorem getNodeNames_eq_map (g : Graph) : getNodeNames g = (getNodes g).map (·.1) :=
  (ExtTreeMap.map_fst_toList_eq_keys (t := g.nodes)).symm

/-- `get_nodes(id)` : the one node of that name, or the empty list -/
theorem getNodes1_spec (g : Graph) (n m : String) (r : NodeRec) :
    (m, r) ∈ getNodes1 g n ↔ m = n ∧ g.nodes[n]? = some r := by
  unfold getNodes1
  split <;> rename_i h
  · rw [h]; simp; grind
  · rw [h]; simp

theorem getNodes1_length_le (g : Graph) (n : String) : (getNodes1 g n).length ≤ 1 := by
  unfold getNodes1; split <;> simp

/-- `get_nodes(id)` is the `id` row of `get_nodes()`, as lists -/
theorem getNodes1_eq_filter (g : Graph) (n : String) :
    getNodes1 g n = (getNodes g).filter (fun kv => kv.1 = n) := by
  unfold getNodes1 getNodes
  split <;> rename_i h
  · rename_i r
    exact (filter_key_of_mem (· < ·) String.lt_irrefl _ (nodeList_sorted g) n r ((mem_nodeList g n r).mpr h)).symm
  · refine (filter_key_of_not_mem _ n ?_).symm
    intro v hv
    rw [mem_nodeList, h] at hv
    cases hv

/-- `node_exists(id)` -/
theorem nodeExists_iff (g : Graph) (n : String) : nodeExists g n = true ↔ n ∈ g.nodes :=
  ExtTreeMap.contains_iff_mem

/-- `get_nodes([ids])` succeeds with `l` iff `l` lists the requested identifiers in argument order, each with
    its record (so repeated identifiers are repeated) -/
theorem getNodesL_ok_iff (g : Graph) (ns : List String) (l : List (String × NodeRec)) :
    getNodesL g ns = .ok l ↔ l.map (·.1) = ns ∧ ∀ x ∈ l, g.nodes[x.1]? = some x.2 := by
  induction ns generalizing l with
  | nil => simp [getNodesL]; rintro rfl; simp
  | cons n ns ih =>
    unfold getNodesL
    split <;> rename_i h
    · simp only [reduceCtorEq, false_iff]
      rintro ⟨h1, h2⟩
      cases l with
      | nil => simp at h1
      | cons x xs =>
        simp only [List.map_cons, List.cons.injEq] at h1
        have := h2 x (by simp)
        rw [h1.1, h] at this
        cases this
    · rename_i r
      cases hr : getNodesL g ns with
      | error e =>
        simp only [Except.map, reduceCtorEq, false_iff]
        rintro ⟨h1, h2⟩
        cases l with
        | nil => simp at h1
        | cons x xs =>
          simp only [List.map_cons, List.cons.injEq] at h1
          have := (ih xs).mpr ⟨h1.2, fun y hy => h2 y (by simp [hy])⟩
          rw [hr] at this
          cases this
      | ok l0 =>
        simp only [Except.map, Except.ok.injEq]
        have ih0 := (ih l0).mp hr
        constructor
        · rintro rfl
          refine ⟨by simp [ih0.1], ?_⟩
          intro x hx
          rcases List.mem_cons.mp hx with rfl | hx
          · exact h
          · exact ih0.2 x hx
        · rintro ⟨h1, h2⟩
          cases l with
          | nil => simp at h1
          | cons x xs =>
            simp only [List.map_cons, List.cons.injEq] at h1
            have hx := h2 x (by simp)
            rw [h1.1, h] at hx
            have hxs := (ih xs).mpr ⟨h1.2, fun y hy => h2 y (by simp [hy])⟩
            rw [hr] at hxs
            obtain ⟨a, b⟩ := x
            simp only at h1 hx
            cases hx
            cases hxs
            rw [h1.1]

/-- `get_nodes([ids])` raises iff some requested identifier is missing, and then it is `ValueError` -/
theorem getNodesL_error_iff (g : Graph) (ns : List String) (e : Err) :
    getNodesL g ns = .error e ↔ e = .valueError ∧ ∃ n ∈ ns, n ∉ g.nodes := by
  induction ns with
  | nil => simp [getNodesL]
  | cons n ns ih =>
    unfold getNodesL
    split <;> rename_i h
    · have : n ∉ g.nodes := by rw [mem_nodes_iff]; simp [h]
      simp only [Except.error.injEq, List.mem_cons, exists_eq_or_imp, this, not_false_eq_true, true_or, and_true]
      exact eq_comm
    · rename_i r
      have : n ∈ g.nodes := (mem_nodes_iff g n).mpr ⟨r, h⟩
      cases hr : getNodesL g ns with
      | error e' =>
        rw [hr] at ih
        simp only [Except.map, List.mem_cons, exists_eq_or_imp, this, not_true_eq_false, false_or]
        exact ih
      | ok l0 =>
        rw [hr] at ih
        simp only [Except.map, reduceCtorEq, false_iff, List.mem_cons, exists_eq_or_imp, this, not_true_eq_false, false_or]
        simpa using ih

theorem getNodesL_cons (g : Graph) (n : String) (ns : List String) :
    getNodesL g (n :: ns) =
      match g.nodes[n]? with
      | none => .error .valueError
      | some r => (getNodesL g ns).map ((n, r) :: ·) := rfl

/-- the first missing identifier decides: the list is processed left to right and what follows the first
    missing identifier is never looked at (there is only one exception class here, so this is about evaluation
    order only) -/
theorem getNodesL_append (g : Graph) (a b : List String) :
    getNodesL g (a ++ b) =
      match getNodesL g a with
      | .error e => .error e
      | .ok la => (getNodesL g b).map (la ++ ·) := by
  induction a with
  | nil => simp only [List.nil_append, getNodesL]; cases getNodesL g b <;> simp [Except.map]
  | cons n ns ih =>
    simp only [List.cons_append, getNodesL_cons, ih]
    cases g.nodes[n]? with
    | none => rfl
    | some r =>
      cases getNodesL g ns with
      | error e => rfl
      | ok la => cases getNodesL g b <;> rfl

/-! ### `views_spec` : edges -/

/-- the one row of the edge list with a given key -/
theorem edgeList_filter_key (g : Graph) (k : EKey) :
    g.edges.toList.filter (fun kv => kv.1 = k) = (g.edges[k]?.map (fun r => (k, r))).toList := by
  cases h : g.edges[k]? with
  | some r =>
    exact filter_key_of_mem (fun a b => ekCmp a b = .lt) ekCmp_irrefl _ (edgeList_sorted g) k r
      ((mem_edgeList g k r).mpr h)
  | none =>
    refine filter_key_of_not_mem _ k ?_
    intro v hv
    rw [mem_edgeList, h] at hv
    cases hv

/-- "argument not given, or equal to it" -/
def optOk (o : Option String) (x : String) : Bool :=
  match o with | none => true | some y => decide (x = y)

theorem optOk_iff (o : Option String) (x : String) : optOk o x = true ↔ ∀ y, o = some y → x = y := by
  cases o <;> simp [optOk]

/-- the selection predicate of `get_edges(source?, destination?, edge_type?)` : every argument that is given
    matches -/
def sel (s? d? : Option String) (ty? : Option EdgeType) (kv : EKey × EdgeRec) : Bool :=
  optOk s? kv.1.1 && optOk d? kv.1.2 && tyOk ty? kv.2

theorem sel_iff (s? d? : Option String) (ty? : Option EdgeType) (kv : EKey × EdgeRec) :
    sel s? d? ty? kv = true ↔
      (∀ s, s? = some s → kv.1.1 = s) ∧ (∀ d, d? = some d → kv.1.2 = d) ∧ (∀ t, ty? = some t → kv.2.ty = t) := by
  simp only [sel, Bool.and_eq_true, optOk_iff, tyOk_iff, and_assoc]

/-- **C01 (3), `get_edges` in all four source / destination forms, with and without `edge_type`**: the result
    holds exactly the entries of the edge map that match every argument that was given. -/
theorem mem_getEdges (g : Graph) (s? d? : Option String) (ty? : Option EdgeType) (k : EKey) (r : EdgeRec) :
    (k, r) ∈ getEdges g s? d? ty? ↔
      g.edges[k]? = some r ∧ (∀ s, s? = some s → k.1 = s) ∧ (∀ d, d? = some d → k.2 = d) ∧
        (∀ t, ty? = some t → r.ty = t) := by
  unfold getEdges
  simp only [List.mem_filter, tyOk_iff]
  cases s? with
  | none =>
    cases d? with
    | none => simp
    | some d => simp [List.mem_filter, and_assoc]
  | some s =>
    cases d? with
    | none => simp [List.mem_filter, and_assoc]
    | some d =>
      obtain ⟨a, b⟩ := k
      simp only [Option.some.injEq, forall_eq']
      split <;> rename_i h
      · rename_i r0
        simp only [List.mem_singleton, Prod.mk.injEq]
        constructor
        · rintro ⟨⟨⟨rfl, rfl⟩, rfl⟩, h2⟩
          exact ⟨h, rfl, rfl, h2⟩
        · rintro ⟨h1, rfl, rfl, h2⟩
          rw [h] at h1; cases h1
          exact ⟨⟨⟨rfl, rfl⟩, rfl⟩, h2⟩
      · simp only [List.not_mem_nil, false_and, false_iff]
        rintro ⟨h1, rfl, rfl, -⟩
        rw [h] at h1; cases h1

/-- **all `get_edges` forms are the matching rows of the full edge list, as lists (same order)** -/
theorem getEdges_eq_filter (g : Graph) (s? d? : Option String) (ty? : Option EdgeType) :
    getEdges g s? d? ty? = (getEdges g none none none).filter (sel s? d? ty?) := by
  have hall : getEdges g none none none = g.edges.toList := by
    simp [getEdges, tyOk]
  rw [hall]
  unfold getEdges
  cases s? with
  | none =>
    cases d? with
    | none =>
      apply List.filter_congr
      intro kv _
      simp [sel, optOk]
    | some d =>
      simp only
      rw [List.filter_filter]
      apply List.filter_congr
      intro kv _
      simp [sel, optOk, Bool.and_comm]
  | some s =>
    cases d? with
    | none =>
      simp only
      rw [List.filter_filter]
      apply List.filter_congr
      intro kv _
      simp [sel, optOk, Bool.and_comm]
    | some d =>
      have hk := edgeList_filter_key g (s, d)
      have hrhs : g.edges.toList.filter (sel (some s) (some d) ty?) =
          (g.edges.toList.filter (fun kv => kv.1 = (s, d))).filter (fun kv => tyOk ty? kv.2) := by
        rw [List.filter_filter]
        apply List.filter_congr
        rintro ⟨⟨a, b⟩, r⟩ _
        simp [sel, optOk, Bool.and_comm]
      rw [hrhs, hk]
      simp only
      split <;> rename_i h <;> simp [h]

/-- cross-view: `get_edges(source=s)` is the list of `s`-rows of `get_edges()`, in the same order -/
theorem getEdges_src_eq_filter (g : Graph) (s : String) :
    getEdges g (some s) none none = (getEdges g none none none).filter (fun kv => kv.1.1 = s) := by
  simp [getEdges, tyOk]

/-- cross-view: `get_edges(destination=d)` is the list of `d`-columns of `get_edges()`, in the same order -/
theorem getEdges_dst_eq_filter (g : Graph) (d : String) :
    getEdges g none (some d) none = (getEdges g none none none).filter (fun kv => kv.1.2 = d) := by
  simp [getEdges, tyOk]

/-- cross-view: the `edge_type=` argument is a filter on the untyped form, in the same order -/
theorem getEdges_ty_eq_filter (g : Graph) (s? d? : Option String) (t : EdgeType) :
    getEdges g s? d? (some t) = (getEdges g s? d? none).filter (fun kv => kv.2.ty = t) := by
  simp [getEdges, tyOk]

theorem getEdges_all (g : Graph) : getEdges g none none none = g.edges.toList := by
  simp [getEdges, tyOk]

/-- `get_edge(s, d, edge_type?)` returns the stored record iff there is one (of the requested type) -/
theorem getEdge_spec (g : Graph) (s d : String) (ty? : Option EdgeType) (r : EdgeRec) :
    getEdge g s d ty? = .ok r ↔ g.edges[(s, d)]? = some r ∧ (∀ t, ty? = some t → r.ty = t) := by
  unfold getEdge
  split <;> rename_i h
  · simp [h]
  · rename_i r0
    split <;> rename_i h2
    · rw [tyOk_iff] at h2
      simp only [Except.ok.injEq, h, Option.some.injEq]
      constructor
      · rintro rfl; exact ⟨rfl, h2⟩
      · rintro ⟨rfl, -⟩; rfl
    · rw [tyOk_iff] at h2
      simp only [reduceCtorEq, h, Option.some.injEq, false_iff]
      rintro ⟨rfl, h3⟩; exact h2 h3

/-- `get_edge` raises iff no stored edge `(s, d)` has the requested type, and then it is
    `EdgeDoesNotExistError` -/
theorem getEdge_error_iff (g : Graph) (s d : String) (ty? : Option EdgeType) (e : Err) :
    getEdge g s d ty? = .error e ↔
      e = .edgeDoesNotExist ∧ ¬ ∃ r, g.edges[(s, d)]? = some r ∧ (∀ t, ty? = some t → r.ty = t) := by
  unfold getEdge
  split <;> rename_i h
  · simp [h, eq_comm]
  · rename_i r0
    split <;> rename_i h2
    · rw [tyOk_iff] at h2
      simp only [reduceCtorEq, h, Option.some.injEq, false_iff, not_and]
      intro _ h3; exact h3 ⟨r0, rfl, h2⟩
    · rw [tyOk_iff] at h2
      simp only [Except.error.injEq, h, Option.some.injEq]
      constructor
      · rintro rfl
        refine ⟨rfl, ?_⟩
        rintro ⟨r, rfl, h3⟩; exact h2 h3
      · rintro ⟨rfl, -⟩; rfl

/-- `edge_exists(s, d, edge_type?)` -/
theorem edgeExists_iff (g : Graph) (s d : String) (ty? : Option EdgeType) :
    edgeExists g s d ty? = true ↔ ∃ r, g.edges[(s, d)]? = some r ∧ (∀ t, ty? = some t → r.ty = t) := by
  unfold edgeExists
  split <;> rename_i h
  · simp [h]
  · simp [h, tyOk_iff]

/-- `edge_exists` is `get_edge` not raising -/
theorem edgeExists_iff_getEdge (g : Graph) (s d : String) (ty? : Option EdgeType) :
    edgeExists g s d ty? = true ↔ ∃ r, getEdge g s d ty? = .ok r := by
  simp only [edgeExists_iff, getEdge_spec]

/-- cross-view: `edge_exists(s, d)` iff the pair is a row of `get_edges()` -/
theorem edgeExists_iff_mem_getEdges (g : Graph) (s d : String) :
    edgeExists g s d none = true ↔ ∃ r, ((s, d), r) ∈ getEdges g none none none := by
  simp [edgeExists_iff, mem_getEdges]

/-- cross-view, typed form -/
theorem edgeExists_iff_mem_getEdges_ty (g : Graph) (s d : String) (ty? : Option EdgeType) :
    edgeExists g s d ty? = true ↔ ∃ r, ((s, d), r) ∈ getEdges g (some s) (some d) ty? := by
  simp [edgeExists_iff, mem_getEdges]

theorem edgeExists_none_iff (g : Graph) (s d : String) : edgeExists g s d none = true ↔ (s, d) ∈ g.edges := by
  simp [edgeExists_iff, mem_edges_iff]

/-- `get_edge_pairs()` -/
theorem mem_getEdgePairs (g : Graph) (k : EKey) : k ∈ getEdgePairs g ↔ k ∈ g.edges :=
  ExtTreeMap.mem_keys

theorem getEdgePairs_eq_map (g : Graph) : getEdgePairs g = (getEdges g none none none).map (·.1) := by
  rw [getEdges_all]; exact (ExtTreeMap.map_fst_toList_eq_keys (t := g.edges)).symm

/-- `get_directed_edges()` and its five siblings -/
theorem mem_edgesOfType (g : Graph) (t : EdgeType) (k : EKey) (r : EdgeRec) :
    (k, r) ∈ edgesOfType g t ↔ g.edges[k]? = some r ∧ r.ty = t := by
  simp [edgesOfType, List.mem_filter]

/-- `get_nondirected_edges()` -/
theorem mem_edgesNotOfType (g : Graph) (t : EdgeType) (k : EKey) (r : EdgeRec) :
    (k, r) ∈ edgesNotOfType g t ↔ g.edges[k]? = some r ∧ r.ty ≠ t := by
  simp [edgesNotOfType, List.mem_filter]

/-- the per-type list is `get_edges(edge_type=t)`, as lists -/
theorem edgesOfType_eq_getEdges (g : Graph) (t : EdgeType) : edgesOfType g t = getEdges g none none (some t) := by
  simp [edgesOfType, getEdges, tyOk]

/-- `is_fully_directed` (used by `is_dag`) -/
theorem isFullyDirected_iff (g : Graph) :
    isFullyDirected g = true ↔ ∀ (k : EKey) (r : EdgeRec), g.edges[k]? = some r → r.ty = .directed := by
  simp only [isFullyDirected, List.all_eq_true, decide_eq_true_eq]
  constructor
  · intro h k r hk; exact h (k, r) ((mem_edgeList g k r).mpr hk)
  · rintro h ⟨k, r⟩ hk; exact h k r ((mem_edgeList g k r).mp hk)

/-! ### `views_spec` : parents, children, neighbours, inputs, outputs -/

theorem hasNode_eq_false_iff (g : Graph) (n : String) : (!g.hasNode n) = true ↔ n ∉ g.nodes := by
  unfold Graph.hasNode
  rw [Bool.not_eq_true', ← Bool.not_eq_true, ExtTreeMap.contains_iff_mem]

/-- `get_parents(n)` raises iff `n` is not a node, and then it is `AssertionError` -/
theorem getParents_error_iff (g : Graph) (n : String) (e : Err) :
    getParents g n = .error e ↔ e = .assertionError ∧ n ∉ g.nodes := by
  unfold getParents
  split <;> rename_i h
  · rw [hasNode_eq_false_iff] at h; simp [h, eq_comm]
  · rw [hasNode_eq_false_iff] at h; simp [h]

theorem getParents_ok_of_mem (g : Graph) (n : String) (h : n ∈ g.nodes) : ∃ ps, getParents g n = .ok ps := by
  cases hp : getParents g n with
  | ok ps => exact ⟨ps, rfl⟩
  | error e => exact absurd h ((getParents_error_iff g n e).mp hp).2

/-- **`get_parents(n)`** : exactly the sources of the stored directed edges into `n` -/
theorem mem_getParents (g : Graph) (n : String) (ps : List String) (h : getParents g n = .ok ps) (p : String) :
    p ∈ ps ↔ ∃ r, g.edges[(p, n)]? = some r ∧ r.ty = .directed := by
  unfold getParents at h
  split at h
  · cases h
  · simp only [Except.ok.injEq] at h
    subst h
    simp only [List.mem_map, List.mem_filter, decide_eq_true_eq]
    constructor
    · rintro ⟨⟨⟨a, b⟩, r⟩, ⟨h1, h2, h3⟩, h4⟩
      simp only at h2 h3 h4
      subst h2 h4
      exact ⟨r, (mem_edgeList g _ r).mp h1, h3⟩
    · rintro ⟨r, h1, h2⟩
      exact ⟨((p, n), r), ⟨(mem_edgeList g _ r).mpr h1, rfl, h2⟩, rfl⟩

theorem getChildren_error_iff (g : Graph) (n : String) (e : Err) :
    getChildren g n = .error e ↔ e = .assertionError ∧ n ∉ g.nodes := by
  unfold getChildren
  split <;> rename_i h
  · rw [hasNode_eq_false_iff] at h; simp [h, eq_comm]
  · rw [hasNode_eq_false_iff] at h; simp [h]

theorem getChildren_ok_of_mem (g : Graph) (n : String) (h : n ∈ g.nodes) : ∃ cs, getChildren g n = .ok cs := by
  cases hp : getChildren g n with
  | ok cs => exact ⟨cs, rfl⟩
  | error e => exact absurd h ((getChildren_error_iff g n e).mp hp).2

/-- **`get_children(n)`** : exactly the destinations of the stored directed edges out of `n` -/
theorem mem_getChildren (g : Graph) (n : String) (cs : List String) (h : getChildren g n = .ok cs) (c : String) :
    c ∈ cs ↔ ∃ r, g.edges[(n, c)]? = some r ∧ r.ty = .directed := by
  unfold getChildren at h
  split at h
  · cases h
  · simp only [Except.ok.injEq] at h
    subst h
    simp only [List.mem_map, List.mem_filter, decide_eq_true_eq]
    constructor
    · rintro ⟨⟨⟨a, b⟩, r⟩, ⟨h1, h2, h3⟩, h4⟩
      simp only at h2 h3 h4
      subst h2 h4
      exact ⟨r, (mem_edgeList g _ r).mp h1, h3⟩
    · rintro ⟨r, h1, h2⟩
      exact ⟨((n, c), r), ⟨(mem_edgeList g _ r).mpr h1, rfl, h2⟩, rfl⟩

/-- cross-view: `p` is a parent of `n` iff `n` is a child of `p` (whenever both calls return) -/
theorem parent_iff_child (g : Graph) (n p : String) (ps cs : List String)
    (hp : getParents g n = .ok ps) (hc : getChildren g p = .ok cs) : p ∈ ps ↔ n ∈ cs := by
  rw [mem_getParents g n ps hp, mem_getChildren g p cs hc]

/-- cross-view under the invariant: a parent is a node, so its `get_children` returns and contains `n` -/
theorem parent_child_wf (g : Graph) (hwf : WF g) (n p : String) (ps : List String)
    (hp : getParents g n = .ok ps) (hmem : p ∈ ps) : ∃ cs, getChildren g p = .ok cs ∧ n ∈ cs := by
  obtain ⟨r, h1, h2⟩ := (mem_getParents g n ps hp p).mp hmem
  have hpn : (p, n) ∈ g.edges := (mem_edges_iff g _).mpr ⟨r, h1⟩
  obtain ⟨cs, hcs⟩ := getChildren_ok_of_mem g p (hwf.ends p n hpn).1
  exact ⟨cs, hcs, (mem_getChildren g p cs hcs n).mpr ⟨r, h1, h2⟩⟩

theorem child_parent_wf (g : Graph) (hwf : WF g) (n c : String) (cs : List String)
    (hc : getChildren g n = .ok cs) (hmem : c ∈ cs) : ∃ ps, getParents g c = .ok ps ∧ n ∈ ps := by
  obtain ⟨r, h1, h2⟩ := (mem_getChildren g n cs hc c).mp hmem
  have hpn : (n, c) ∈ g.edges := (mem_edges_iff g _).mpr ⟨r, h1⟩
  obtain ⟨ps, hps⟩ := getParents_ok_of_mem g c (hwf.ends n c hpn).2
  exact ⟨ps, hps, (mem_getParents g c ps hps n).mpr ⟨r, h1, h2⟩⟩

theorem getNeighbors_error_iff (g : Graph) (n : String) (e : Err) :
    getNeighbors g n = .error e ↔ e = .assertionError ∧ n ∉ g.nodes := by
  unfold getNeighbors
  split <;> rename_i h
  · rw [hasNode_eq_false_iff] at h; simp [h, eq_comm]
  · rw [hasNode_eq_false_iff] at h; simp [h]

theorem getNeighbors_ok_of_mem (g : Graph) (n : String) (h : n ∈ g.nodes) : ∃ ns, getNeighbors g n = .ok ns := by
  cases hp : getNeighbors g n with
  | ok ns => exact ⟨ns, rfl⟩
  | error e => exact absurd h ((getNeighbors_error_iff g n e).mp hp).2

theorem mem_srcRows (g : Graph) (n m : String) :
    m ∈ (g.edges.toList.filter (fun kv => kv.1.1 = n)).map (·.1.2) ↔ (n, m) ∈ g.edges := by
  rw [mem_edges_iff]
  simp only [List.mem_map, List.mem_filter, decide_eq_true_eq]
  constructor
  · rintro ⟨⟨⟨a, b⟩, r⟩, ⟨h1, h2⟩, h4⟩
    simp only at h2 h4
    subst h2 h4
    exact ⟨r, (mem_edgeList g _ r).mp h1⟩
  · rintro ⟨r, h1⟩
    exact ⟨((n, m), r), ⟨(mem_edgeList g _ r).mpr h1, rfl⟩, rfl⟩

theorem mem_dstRows (g : Graph) (n m : String) :
    m ∈ (g.edges.toList.filter (fun kv => kv.1.2 = n)).map (·.1.1) ↔ (m, n) ∈ g.edges := by
  rw [mem_edges_iff]
  simp only [List.mem_map, List.mem_filter, decide_eq_true_eq]
  constructor
  · rintro ⟨⟨⟨a, b⟩, r⟩, ⟨h1, h2⟩, h4⟩
    simp only at h2 h4
    subst h2 h4
    exact ⟨r, (mem_edgeList g _ r).mp h1⟩
  · rintro ⟨r, h1⟩
    exact ⟨((m, n), r), ⟨(mem_edgeList g _ r).mpr h1, rfl⟩, rfl⟩

/-- **`get_neighbors(n)`** : the other endpoint of every stored edge touching `n`, any type, either
    orientation; never `n` itself -/
theorem mem_getNeighbors (g : Graph) (n : String) (ns : List String) (h : getNeighbors g n = .ok ns) (m : String) :
    m ∈ ns ↔ m ≠ n ∧ ((n, m) ∈ g.edges ∨ (m, n) ∈ g.edges) := by
  unfold getNeighbors at h
  split at h
  · cases h
  · simp only [Except.ok.injEq] at h
    subst h
    rw [mem_sortDedup, List.mem_filter, List.mem_append, mem_srcRows, mem_dstRows]
    simp [and_comm]

/-- neighbourhood is symmetric (whenever both calls return) -/
theorem neighbor_symm (g : Graph) (n m : String) (ns ms : List String)
    (hn : getNeighbors g n = .ok ns) (hm : getNeighbors g m = .ok ms) : m ∈ ns ↔ n ∈ ms := by
  rw [mem_getNeighbors g n ns hn, mem_getNeighbors g m ms hm]
  constructor <;> rintro ⟨h1, h2⟩ <;> exact ⟨Ne.symm h1, h2.symm⟩

/-- parents and children are neighbours -/
theorem parent_mem_neighbors (g : Graph) (hwf : WF g) (n p : String) (ps ns : List String)
    (hp : getParents g n = .ok ps) (hn : getNeighbors g n = .ok ns) (hmem : p ∈ ps) : p ∈ ns := by
  obtain ⟨r, h1, -⟩ := (mem_getParents g n ps hp p).mp hmem
  have hpn : (p, n) ∈ g.edges := (mem_edges_iff g _).mpr ⟨r, h1⟩
  rw [mem_getNeighbors g n ns hn]
  refine ⟨?_, Or.inr hpn⟩
  rintro rfl
  exact hwf.noLoop _ hpn

theorem isEmpty_dstRows_iff (g : Graph) (n : String) :
    (g.edges.toList.filter (fun kv => kv.1.2 = n)).isEmpty = true ↔ ∀ s : String, (s, n) ∉ g.edges := by
  rw [List.isEmpty_iff, List.filter_eq_nil_iff]
  simp only [decide_eq_true_eq]
  constructor
  · intro h s hs
    obtain ⟨r, hr⟩ := (mem_edges_iff g _).mp hs
    exact h ((s, n), r) ((mem_edgeList g _ r).mpr hr) rfl
  · rintro h ⟨⟨a, b⟩, r⟩ hm hb
    simp only at hb
    subst hb
    exact h a ((mem_edges_iff g _).mpr ⟨r, (mem_edgeList g _ r).mp hm⟩)

theorem isEmpty_srcRows_iff (g : Graph) (n : String) :
    (g.edges.toList.filter (fun kv => kv.1.1 = n)).isEmpty = true ↔ ∀ d : String, (n, d) ∉ g.edges := by
  rw [List.isEmpty_iff, List.filter_eq_nil_iff]
  simp only [decide_eq_true_eq]
  constructor
  · intro h d hd
    obtain ⟨r, hr⟩ := (mem_edges_iff g _).mp hd
    exact h ((n, d), r) ((mem_edgeList g _ r).mpr hr) rfl
  · rintro h ⟨⟨a, b⟩, r⟩ hm ha
    simp only at ha
    subst ha
    exact h b ((mem_edges_iff g _).mpr ⟨r, (mem_edgeList g _ r).mp hm⟩)

/-- **`get_inputs()`** : the nodes that are the stored destination of no edge, of any type -/
theorem mem_getInputs (g : Graph) (n : String) : n ∈ getInputs g ↔ n ∈ g.nodes ∧ ∀ s : String, (s, n) ∉ g.edges := by
  unfold getInputs
  rw [List.mem_filter, ExtTreeMap.mem_keys, isEmpty_dstRows_iff]

/-- **`get_outputs()`** : the nodes that are the stored source of no edge, of any type -/
theorem mem_getOutputs (g : Graph) (n : String) : n ∈ getOutputs g ↔ n ∈ g.nodes ∧ ∀ d : String, (n, d) ∉ g.edges := by
  unfold getOutputs
  rw [List.mem_filter, ExtTreeMap.mem_keys, isEmpty_srcRows_iff]

/-- cross-view: a node is an input iff `get_edges(destination=n)` is empty -/
theorem mem_getInputs_iff_getEdges (g : Graph) (n : String) :
    n ∈ getInputs g ↔ n ∈ getNodeNames g ∧ getEdges g none (some n) none = [] := by
  rw [mem_getInputs, mem_getNodeNames, ← isEmpty_dstRows_iff, List.isEmpty_iff]
  simp [getEdges, tyOk]

theorem mem_getOutputs_iff_getEdges (g : Graph) (n : String) :
    n ∈ getOutputs g ↔ n ∈ getNodeNames g ∧ getEdges g (some n) none none = [] := by
  rw [mem_getOutputs, mem_getNodeNames, ← isEmpty_srcRows_iff, List.isEmpty_iff]
  simp [getEdges, tyOk]

/-! ### `views_sorted` -/

/-- strictly increasing in the lexicographic (source, destination) order, as the code's
    `sorted(sources)` / `sorted(destinations)` double loop produces -/
def LexLt (a b : EKey) : Prop := a.1 < b.1 ∨ (a.1 = b.1 ∧ a.2 < b.2)

theorem ekCmp_lt_iff_lexLt (a b : EKey) : ekCmp a b = .lt ↔ LexLt a b := ekCmp_lt_iff a b

/-- `get_node_names()` is strictly increasing -/
theorem getNodeNames_sorted (g : Graph) : (getNodeNames g).Pairwise (· < ·) :=
  (ExtTreeMap.ordered_keys (t := g.nodes)).imp (fun h => (str_compare_lt _ _).mp h)

/-- `get_nodes()` is strictly increasing by identifier -/
theorem getNodes_sorted (g : Graph) : (getNodes g).Pairwise (fun a b => a.1 < b.1) := nodeList_sorted g

/-- **`get_edges` in every form is strictly increasing in the (source, destination) key order** -/
theorem getEdges_sorted (g : Graph) (s? d? : Option String) (ty? : Option EdgeType) :
    (getEdges g s? d? ty?).Pairwise (fun a b => ekCmp a.1 b.1 = .lt) := by
  rw [getEdges_eq_filter, getEdges_all]
  exact List.Pairwise.filter _ (edgeList_sorted g)

/-- the same, in user terms: source first, destination second -/
theorem getEdges_sorted_lex (g : Graph) (s? d? : Option String) (ty? : Option EdgeType) :
    (getEdges g s? d? ty?).Pairwise (fun a b => LexLt a.1 b.1) :=
  (getEdges_sorted g s? d? ty?).imp (fun h => (ekCmp_lt_iff _ _).mp h)

/-- `get_edges(destination=d)` : the sources are strictly increasing -/
theorem getEdges_dst_sorted (g : Graph) (s? : Option String) (d : String) (ty? : Option EdgeType) :
    (getEdges g s? (some d) ty?).Pairwise (fun a b => a.1.1 < b.1.1) := by
  refine List.Pairwise.imp_of_mem ?_ (getEdges_sorted g s? (some d) ty?)
  rintro ⟨ka, ra⟩ ⟨kb, rb⟩ ha hb hab
  have h1 := ((mem_getEdges g _ _ _ ka ra).mp ha).2.2.1 d rfl
  have h2 := ((mem_getEdges g _ _ _ kb rb).mp hb).2.2.1 d rfl
  exact (ekCmp_same_snd (h1.trans h2.symm)).mp hab

/-- `get_edges(source=s)` : the destinations are strictly increasing -/
theorem getEdges_src_sorted (g : Graph) (s : String) (d? : Option String) (ty? : Option EdgeType) :
    (getEdges g (some s) d? ty?).Pairwise (fun a b => a.1.2 < b.1.2) := by
  refine List.Pairwise.imp_of_mem ?_ (getEdges_sorted g (some s) d? ty?)
  rintro ⟨ka, ra⟩ ⟨kb, rb⟩ ha hb hab
  have h1 := ((mem_getEdges g _ _ _ ka ra).mp ha).2.1 s rfl
  have h2 := ((mem_getEdges g _ _ _ kb rb).mp hb).2.1 s rfl
  exact (ekCmp_same_fst (h1.trans h2.symm)).mp hab

/-- `get_edges(source=s, destination=d)` has at most one element -/
theorem getEdges_pair_length_le (g : Graph) (s d : String) (ty? : Option EdgeType) :
    (getEdges g (some s) (some d) ty?).length ≤ 1 := by
  unfold getEdges
  refine Nat.le_trans (List.length_filter_le _ _) ?_
  simp only
  split <;> simp

/-- the six per-type lists -/
theorem edgesOfType_sorted (g : Graph) (t : EdgeType) :
    (edgesOfType g t).Pairwise (fun a b => ekCmp a.1 b.1 = .lt) :=
  List.Pairwise.filter _ (edgeList_sorted g)

theorem edgesOfType_sorted_lex (g : Graph) (t : EdgeType) :
    (edgesOfType g t).Pairwise (fun a b => LexLt a.1 b.1) :=
  (edgesOfType_sorted g t).imp (fun h => (ekCmp_lt_iff _ _).mp h)

/-- `get_nondirected_edges()` -/
theorem edgesNotOfType_sorted (g : Graph) (t : EdgeType) :
    (edgesNotOfType g t).Pairwise (fun a b => ekCmp a.1 b.1 = .lt) :=
  List.Pairwise.filter _ (edgeList_sorted g)

theorem edgesNotOfType_sorted_lex (g : Graph) (t : EdgeType) :
    (edgesNotOfType g t).Pairwise (fun a b => LexLt a.1 b.1) :=
  (edgesNotOfType_sorted g t).imp (fun h => (ekCmp_lt_iff _ _).mp h)

/-- `get_edge_pairs()` -/
theorem getEdgePairs_sorted (g : Graph) : (getEdgePairs g).Pairwise (fun a b => ekCmp a b = .lt) :=
  ExtTreeMap.ordered_keys

theorem getEdgePairs_sorted_lex (g : Graph) : (getEdgePairs g).Pairwise LexLt :=
  (getEdgePairs_sorted g).imp (fun h => (ekCmp_lt_iff _ _).mp h)

/-- `get_parents(n)` is strictly increasing (hence a set) -/
theorem getParents_sorted (g : Graph) (n : String) (ps : List String) (h : getParents g n = .ok ps) :
    ps.Pairwise (· < ·) := by
  unfold getParents at h
  split at h
  · cases h
  · simp only [Except.ok.injEq] at h
    subst h
    rw [List.pairwise_map]
    refine List.Pairwise.imp_of_mem ?_ (List.Pairwise.filter _ (edgeList_sorted g))
    intro a b ha hb hab
    simp only [List.mem_filter, decide_eq_true_eq] at ha hb
    exact (ekCmp_same_snd (ha.2.1.trans hb.2.1.symm)).mp hab

/-- `get_children(n)` is strictly increasing (hence a set) -/
theorem getChildren_sorted (g : Graph) (n : String) (cs : List String) (h : getChildren g n = .ok cs) :
    cs.Pairwise (· < ·) := by
  unfold getChildren at h
  split at h
  · cases h
  · simp only [Except.ok.injEq] at h
    subst h
    rw [List.pairwise_map]
    refine List.Pairwise.imp_of_mem ?_ (List.Pairwise.filter _ (edgeList_sorted g))
    intro a b ha hb hab
    simp only [List.mem_filter, decide_eq_true_eq] at ha hb
    exact (ekCmp_same_fst (ha.2.1.trans hb.2.1.symm)).mp hab

/-- `get_neighbors(n)` is strictly increasing (hence a set) -/
theorem getNeighbors_sorted (g : Graph) (n : String) (ns : List String) (h : getNeighbors g n = .ok ns) :
    ns.Pairwise (· < ·) := by
  unfold getNeighbors at h
  split at h
  · cases h
  · simp only [Except.ok.injEq] at h
    subst h
    exact sortDedup_sorted _

/-- `get_inputs()` / `get_outputs()` are strictly increasing -/
theorem getInputs_sorted (g : Graph) : (getInputs g).Pairwise (· < ·) :=
  List.Pairwise.filter _ (getNodeNames_sorted g)

theorem getOutputs_sorted (g : Graph) : (getOutputs g).Pairwise (· < ·) :=
  List.Pairwise.filter _ (getNodeNames_sorted g)

/-! ### no duplicates -/

theorem nodup_of_key_sorted {l : List (EKey × EdgeRec)} (h : l.Pairwise (fun a b => ekCmp a.1 b.1 = .lt)) :
    l.Nodup := by
  refine List.Pairwise.imp ?_ h
  intro a b hab e
  subst e
  exact ekCmp_irrefl _ hab

theorem getNodeNames_nodup (g : Graph) : (getNodeNames g).Nodup :=
  nodup_of_pairwise String.lt_irrefl (getNodeNames_sorted g)

theorem getNodes_nodup (g : Graph) : (getNodes g).Nodup :=
  @nodup_of_pairwise (String × NodeRec) (fun a b => a.1 < b.1) (fun a => String.lt_irrefl a.1) _ (getNodes_sorted g)

theorem getNodes1_nodup (g : Graph) (n : String) : (getNodes1 g n).Nodup := by
  unfold getNodes1; split <;> simp

theorem getEdges_nodup (g : Graph) (s? d? : Option String) (ty? : Option EdgeType) :
    (getEdges g s? d? ty?).Nodup := nodup_of_key_sorted (getEdges_sorted g s? d? ty?)

/-- stronger: no two rows of a `get_edges` result share their (source, destination) pair -/
theorem getEdges_keys_nodup (g : Graph) (s? d? : Option String) (ty? : Option EdgeType) :
    ((getEdges g s? d? ty?).map (·.1)).Nodup := by
  refine @nodup_of_pairwise EKey (fun a b => ekCmp a b = .lt) ekCmp_irrefl _ ?_
  rw [List.pairwise_map]; exact getEdges_sorted g s? d? ty?

theorem edgesOfType_nodup (g : Graph) (t : EdgeType) : (edgesOfType g t).Nodup :=
  nodup_of_key_sorted (edgesOfType_sorted g t)

theorem edgesNotOfType_nodup (g : Graph) (t : EdgeType) : (edgesNotOfType g t).Nodup :=
  nodup_of_key_sorted (edgesNotOfType_sorted g t)

theorem getEdgePairs_nodup (g : Graph) : (getEdgePairs g).Nodup :=
  @nodup_of_pairwise EKey (fun a b => ekCmp a b = .lt) ekCmp_irrefl _ (getEdgePairs_sorted g)

theorem getParents_nodup (g : Graph) (n : String) (ps : List String) (h : getParents g n = .ok ps) : ps.Nodup :=
  nodup_of_pairwise String.lt_irrefl (getParents_sorted g n ps h)

theorem getChildren_nodup (g : Graph) (n : String) (cs : List String) (h : getChildren g n = .ok cs) : cs.Nodup :=
  nodup_of_pairwise String.lt_irrefl (getChildren_sorted g n cs h)

theorem getNeighbors_nodup (g : Graph) (n : String) (ns : List String) (h : getNeighbors g n = .ok ns) : ns.Nodup :=
  nodup_of_pairwise String.lt_irrefl (getNeighbors_sorted g n ns h)

theorem getInputs_nodup (g : Graph) : (getInputs g).Nodup :=
  nodup_of_pairwise String.lt_irrefl (getInputs_sorted g)

theorem getOutputs_nodup (g : Graph) : (getOutputs g).Nodup :=
  nodup_of_pairwise String.lt_irrefl (getOutputs_sorted g)

/-- every edge type occurs in exactly one of the six per-type lists: the lists partition `get_edges()` -/
theorem mem_getEdges_iff_mem_edgesOfType (g : Graph) (k : EKey) (r : EdgeRec) :
    (k, r) ∈ getEdges g none none none ↔ (k, r) ∈ edgesOfType g r.ty := by
  simp [mem_getEdges, mem_edgesOfType]

/-- `get_nondirected_edges()` is the complement of `get_directed_edges()` within `get_edges()` -/
theorem mem_edgesNotOfType_iff (g : Graph) (t : EdgeType) (kv : EKey × EdgeRec) :
    kv ∈ edgesNotOfType g t ↔ kv ∈ getEdges g none none none ∧ kv ∉ edgesOfType g t := by
  obtain ⟨k, r⟩ := kv
  simp only [mem_edgesNotOfType, mem_getEdges, mem_edgesOfType]
  constructor
  · rintro ⟨h1, h2⟩; exact ⟨⟨h1, by simp⟩, fun h => h2 h.2⟩
  · rintro ⟨⟨h1, -⟩, h2⟩; exact ⟨h1, fun h => h2 ⟨h1, h⟩⟩

/-! ### the bundled statements -/

/-- **C01 (3)** every read view is its one-line definition over the two maps of the abstract graph -/
structure ViewsSpec (g : Graph) : Prop where
  nodeNames : ∀ n : String, n ∈ getNodeNames g ↔ n ∈ g.nodes
  nodes : ∀ (n : String) (r : NodeRec), (n, r) ∈ getNodes g ↔ g.nodes[n]? = some r
  nodes1 : ∀ (n m : String) (r : NodeRec), (m, r) ∈ getNodes1 g n ↔ m = n ∧ g.nodes[n]? = some r
  nodesL_ok : ∀ (ns : List String) (l : List (String × NodeRec)),
    getNodesL g ns = .ok l ↔ l.map (·.1) = ns ∧ ∀ x ∈ l, g.nodes[x.1]? = some x.2
  nodesL_error : ∀ (ns : List String) (e : Err), getNodesL g ns = .error e ↔ e = .valueError ∧ ∃ n ∈ ns, n ∉ g.nodes
  nodeExists : ∀ n : String, nodeExists g n = true ↔ n ∈ g.nodes
  edges : ∀ (s? d? : Option String) (ty? : Option EdgeType) (k : EKey) (r : EdgeRec),
    (k, r) ∈ getEdges g s? d? ty? ↔
      g.edges[k]? = some r ∧ (∀ s, s? = some s → k.1 = s) ∧ (∀ d, d? = some d → k.2 = d) ∧
        (∀ t, ty? = some t → r.ty = t)
  edge_ok : ∀ (s d : String) (ty? : Option EdgeType) (r : EdgeRec),
    getEdge g s d ty? = .ok r ↔ g.edges[(s, d)]? = some r ∧ (∀ t, ty? = some t → r.ty = t)
  edge_error : ∀ (s d : String) (ty? : Option EdgeType) (e : Err),
    getEdge g s d ty? = .error e ↔
      e = .edgeDoesNotExist ∧ ¬ ∃ r, g.edges[(s, d)]? = some r ∧ (∀ t, ty? = some t → r.ty = t)
  edgeExists : ∀ (s d : String) (ty? : Option EdgeType),
    edgeExists g s d ty? = true ↔ ∃ r, g.edges[(s, d)]? = some r ∧ (∀ t, ty? = some t → r.ty = t)
  edgePairs : ∀ k : EKey, k ∈ getEdgePairs g ↔ k ∈ g.edges
  ofType : ∀ (t : EdgeType) (k : EKey) (r : EdgeRec), (k, r) ∈ edgesOfType g t ↔ g.edges[k]? = some r ∧ r.ty = t
  notOfType : ∀ (t : EdgeType) (k : EKey) (r : EdgeRec),
    (k, r) ∈ edgesNotOfType g t ↔ g.edges[k]? = some r ∧ r.ty ≠ t
  parents : ∀ (n : String) (ps : List String), getParents g n = .ok ps →
    ∀ p : String, p ∈ ps ↔ ∃ r, g.edges[(p, n)]? = some r ∧ r.ty = .directed
  parents_error : ∀ (n : String) (e : Err), getParents g n = .error e ↔ e = .assertionError ∧ n ∉ g.nodes
  children : ∀ (n : String) (cs : List String), getChildren g n = .ok cs →
    ∀ c : String, c ∈ cs ↔ ∃ r, g.edges[(n, c)]? = some r ∧ r.ty = .directed
  children_error : ∀ (n : String) (e : Err), getChildren g n = .error e ↔ e = .assertionError ∧ n ∉ g.nodes
  neighbors : ∀ (n : String) (ns : List String), getNeighbors g n = .ok ns →
    ∀ m : String, m ∈ ns ↔ m ≠ n ∧ ((n, m) ∈ g.edges ∨ (m, n) ∈ g.edges)
  neighbors_error : ∀ (n : String) (e : Err), getNeighbors g n = .error e ↔ e = .assertionError ∧ n ∉ g.nodes
  inputs : ∀ n : String, n ∈ getInputs g ↔ n ∈ g.nodes ∧ ∀ s : String, (s, n) ∉ g.edges
  outputs : ∀ n : String, n ∈ getOutputs g ↔ n ∈ g.nodes ∧ ∀ d : String, (n, d) ∉ g.edges
  fullyDirected : isFullyDirected g = true ↔ ∀ (k : EKey) (r : EdgeRec), g.edges[k]? = some r → r.ty = .directed

/-- **C01 (3) `views_spec`**, for every graph state (no invariant needed: the views are functions of the two
    maps; the invariant says which maps are reachable) -/
theorem views_spec (g : Graph) : ViewsSpec g where
  nodeNames := mem_getNodeNames g
  nodes := mem_getNodes g
  nodes1 := getNodes1_spec g
  nodesL_ok := getNodesL_ok_iff g
  nodesL_error := getNodesL_error_iff g
  nodeExists := nodeExists_iff g
  edges := mem_getEdges g
  edge_ok := getEdge_spec g
  edge_error := getEdge_error_iff g
  edgeExists := edgeExists_iff g
  edgePairs := mem_getEdgePairs g
  ofType := mem_edgesOfType g
  notOfType := mem_edgesNotOfType g
  parents := mem_getParents g
  parents_error := getParents_error_iff g
  children := mem_getChildren g
  children_error := getChildren_error_iff g
  neighbors := mem_getNeighbors g
  neighbors_error := getNeighbors_error_iff g
  inputs := mem_getInputs g
  outputs := mem_getOutputs g
  fullyDirected := isFullyDirected_iff g

/-- cross-view consistency: the views agree with each other, as lists where order matters -/
structure ViewsConsistent (g : Graph) : Prop where
  names_eq : getNodeNames g = (getNodes g).map (·.1)
  nodes1_eq : ∀ n : String, getNodes1 g n = (getNodes g).filter (fun kv => kv.1 = n)
  edges_eq : ∀ (s? d? : Option String) (ty? : Option EdgeType),
    getEdges g s? d? ty? = (getEdges g none none none).filter (sel s? d? ty?)
  src_eq : ∀ s : String, getEdges g (some s) none none = (getEdges g none none none).filter (fun kv => kv.1.1 = s)
  dst_eq : ∀ d : String, getEdges g none (some d) none = (getEdges g none none none).filter (fun kv => kv.1.2 = d)
  ty_eq : ∀ (s? d? : Option String) (t : EdgeType),
    getEdges g s? d? (some t) = (getEdges g s? d? none).filter (fun kv => kv.2.ty = t)
  pairs_eq : getEdgePairs g = (getEdges g none none none).map (·.1)
  ofType_eq : ∀ t : EdgeType, edgesOfType g t = getEdges g none none (some t)
  notOfType_iff : ∀ (t : EdgeType) (kv : EKey × EdgeRec),
    kv ∈ edgesNotOfType g t ↔ kv ∈ getEdges g none none none ∧ kv ∉ edgesOfType g t
  exists_iff_mem : ∀ s d : String, edgeExists g s d none = true ↔ ∃ r, ((s, d), r) ∈ getEdges g none none none
  exists_iff_get : ∀ (s d : String) (ty? : Option EdgeType),
    edgeExists g s d ty? = true ↔ ∃ r, getEdge g s d ty? = .ok r
  parent_child : ∀ (n p : String) (ps cs : List String), getParents g n = .ok ps → getChildren g p = .ok cs →
    (p ∈ ps ↔ n ∈ cs)
  neighbor_symm : ∀ (n m : String) (ns ms : List String), getNeighbors g n = .ok ns → getNeighbors g m = .ok ms →
    (m ∈ ns ↔ n ∈ ms)
  inputs_iff : ∀ n : String, n ∈ getInputs g ↔ n ∈ getNodeNames g ∧ getEdges g none (some n) none = []
  outputs_iff : ∀ n : String, n ∈ getOutputs g ↔ n ∈ getNodeNames g ∧ getEdges g (some n) none none = []

theorem views_consistent (g : Graph) : ViewsConsistent g where
  names_eq := getNodeNames_eq_map g
  nodes1_eq := getNodes1_eq_filter g
  edges_eq := getEdges_eq_filter g
  src_eq := getEdges_src_eq_filter g
  dst_eq := getEdges_dst_eq_filter g
  ty_eq := getEdges_ty_eq_filter g
  pairs_eq := getEdgePairs_eq_map g
  ofType_eq := edgesOfType_eq_getEdges g
  notOfType_iff := mem_edgesNotOfType_iff g
  exists_iff_mem := edgeExists_iff_mem_getEdges g
  exists_iff_get := edgeExists_iff_getEdge g
  parent_child := fun n p ps cs => parent_iff_child g n p ps cs
  neighbor_symm := fun n m ns ms => neighbor_symm g n m ns ms
  inputs_iff := mem_getInputs_iff_getEdges g
  outputs_iff := mem_getOutputs_iff_getEdges g

/-- **C01 (4)** the documented orders -/
structure ViewsSorted (g : Graph) : Prop where
  nodeNames : (getNodeNames g).Pairwise (· < ·)
  nodes : (getNodes g).Pairwise (fun a b => a.1 < b.1)
  nodesL : ∀ (ns : List String) (l : List (String × NodeRec)), getNodesL g ns = .ok l → l.map (·.1) = ns
  edges : ∀ (s? d? : Option String) (ty? : Option EdgeType),
    (getEdges g s? d? ty?).Pairwise (fun a b => ekCmp a.1 b.1 = .lt)
  edges_lex : ∀ (s? d? : Option String) (ty? : Option EdgeType),
    (getEdges g s? d? ty?).Pairwise (fun a b => a.1.1 < b.1.1 ∨ (a.1.1 = b.1.1 ∧ a.1.2 < b.1.2))
  edges_dst : ∀ (s? : Option String) (d : String) (ty? : Option EdgeType),
    (getEdges g s? (some d) ty?).Pairwise (fun a b => a.1.1 < b.1.1)
  edges_src : ∀ (s : String) (d? : Option String) (ty? : Option EdgeType),
    (getEdges g (some s) d? ty?).Pairwise (fun a b => a.1.2 < b.1.2)
  ofType : ∀ t : EdgeType, (edgesOfType g t).Pairwise (fun a b => a.1.1 < b.1.1 ∨ (a.1.1 = b.1.1 ∧ a.1.2 < b.1.2))
  notOfType : ∀ t : EdgeType,
    (edgesNotOfType g t).Pairwise (fun a b => a.1.1 < b.1.1 ∨ (a.1.1 = b.1.1 ∧ a.1.2 < b.1.2))
  edgePairs : (getEdgePairs g).Pairwise (fun a b => a.1 < b.1 ∨ (a.1 = b.1 ∧ a.2 < b.2))
  parents : ∀ (n : String) (ps : List String), getParents g n = .ok ps → ps.Pairwise (· < ·)
  children : ∀ (n : String) (cs : List String), getChildren g n = .ok cs → cs.Pairwise (· < ·)
  neighbors : ∀ (n : String) (ns : List String), getNeighbors g n = .ok ns → ns.Pairwise (· < ·)
  inputs : (getInputs g).Pairwise (· < ·)
  outputs : (getOutputs g).Pairwise (· < ·)

/-- **C01 (4) `views_sorted`** -/
theorem views_sorted (g : Graph) : ViewsSorted g where
  nodeNames := getNodeNames_sorted g
  nodes := getNodes_sorted g
  nodesL := fun ns l h => ((getNodesL_ok_iff g ns l).mp h).1
  edges := getEdges_sorted g
  edges_lex := getEdges_sorted_lex g
  edges_dst := getEdges_dst_sorted g
  edges_src := getEdges_src_sorted g
  ofType := edgesOfType_sorted_lex g
  notOfType := edgesNotOfType_sorted_lex g
  edgePairs := getEdgePairs_sorted_lex g
  parents := getParents_sorted g
  children := getChildren_sorted g
  neighbors := getNeighbors_sorted g
  inputs := getInputs_sorted g
  outputs := getOutputs_sorted g

/-- no list view repeats an element -/
structure ViewsNodup (g : Graph) : Prop where
  nodeNames : (getNodeNames g).Nodup
  nodes : (getNodes g).Nodup
  nodes1 : ∀ n : String, (getNodes1 g n).Nodup
  edges : ∀ (s? d? : Option String) (ty? : Option EdgeType), (getEdges g s? d? ty?).Nodup
  edges_keys : ∀ (s? d? : Option String) (ty? : Option EdgeType), ((getEdges g s? d? ty?).map (·.1)).Nodup
  ofType : ∀ t : EdgeType, (edgesOfType g t).Nodup
  notOfType : ∀ t : EdgeType, (edgesNotOfType g t).Nodup
  edgePairs : (getEdgePairs g).Nodup
  parents : ∀ (n : String) (ps : List String), getParents g n = .ok ps → ps.Nodup
  children : ∀ (n : String) (cs : List String), getChildren g n = .ok cs → cs.Nodup
  neighbors : ∀ (n : String) (ns : List String), getNeighbors g n = .ok ns → ns.Nodup
  inputs : (getInputs g).Nodup
  outputs : (getOutputs g).Nodup

theorem views_nodup (g : Graph) : ViewsNodup g where
  nodeNames := getNodeNames_nodup g
  nodes := getNodes_nodup g
  nodes1 := getNodes1_nodup g
  edges := getEdges_nodup g
  edges_keys := getEdges_keys_nodup g
  ofType := edgesOfType_nodup g
  notOfType := edgesNotOfType_nodup g
  edgePairs := getEdgePairs_nodup g
  parents := getParents_nodup g
  children := getChildren_nodup g
  neighbors := getNeighbors_nodup g
  inputs := getInputs_nodup g
  outputs := getOutputs_nodup g

/-! ### non-vacuity: a concrete 4-node mixed graph -/

def nr0 : NodeRec := { vtype := .unspecified, md := [] }

/-- nodes `a b c d`; edges `c -> a`, `b <> c`, `a -- d`, `b -> a`, inserted out of order -/
def g4 : Graph :=
  { cls := .plain
    nodes := (∅ : NMap) |>.insert "c" nr0 |>.insert "a" nr0 |>.insert "d" nr0 |>.insert "b" nr0
    edges := (∅ : EMap) |>.insert ("c", "a") ⟨.directed, []⟩ |>.insert ("b", "c") ⟨.bidirected, []⟩
      |>.insert ("a", "d") ⟨.undirected, []⟩ |>.insert ("b", "a") ⟨.directed, []⟩
    gmeta := [] }

example : getNodeNames g4 = ["a", "b", "c", "d"] := by decide
example : (getEdges g4 none none none).map (·.1) = [("a", "d"), ("b", "a"), ("b", "c"), ("c", "a")] := by decide
example : (getEdges g4 none (some "a") none).map (·.1) = [("b", "a"), ("c", "a")] := by decide
example : (getEdges g4 (some "b") none none).map (·.1) = [("b", "a"), ("b", "c")] := by decide
example : (getEdges g4 (some "b") none (some .directed)).map (·.1) = [("b", "a")] := by decide
example : (getEdges g4 (some "a") (some "b") none) = [] := by decide
example : ((getEdges g4 none none none).filter (sel (some "b") none (some .directed))).map (·.1) = [("b", "a")] := by
  decide
example : (edgesNotOfType g4 .directed).map (·.1) = [("a", "d"), ("b", "c")] := by decide
example : getParents g4 "a" = .ok ["b", "c"] := by rfl
example : getChildren g4 "b" = .ok ["a"] := by rfl
example : getNeighbors g4 "a" = .ok ["b", "c", "d"] := by rfl
example : getNeighbors g4 "zz" = .error .assertionError := by rfl
example : (getNodesL g4 ["d", "a", "d"]).toOption.map (·.map (·.1)) = some ["d", "a", "d"] := by decide
example : getNodesL g4 ["d", "zz", "a"] = .error .valueError := by rfl
example : getInputs g4 = ["b"] ∧ getOutputs g4 = ["d"] := by decide
example : edgeExists g4 "b" "c" none = true ∧ edgeExists g4 "c" "b" none = false ∧
    edgeExists g4 "b" "c" (some .directed) = false := by decide

theorem g4_mem_edges (s d : String) :
    (s, d) ∈ g4.edges ↔ (s, d) ∈ [("c", "a"), ("b", "c"), ("a", "d"), ("b", "a")] := by
  simp only [g4, ExtTreeMap.mem_insert, ExtTreeMap.not_mem_empty, ekCmp_eq_iff, List.mem_cons, List.not_mem_nil,
    or_false]
  grind

/-- the example graph satisfies the invariant (hypothesis of the two `_wf` corollaries) -/
theorem g4_wf : WF g4 where
  ends := by
    intro s d h
    rw [g4_mem_edges] at h
    simp only [List.mem_cons, Prod.mk.injEq, List.not_mem_nil, or_false] at h
    rcases h with ⟨rfl, rfl⟩ | ⟨rfl, rfl⟩ | ⟨rfl, rfl⟩ | ⟨rfl, rfl⟩ <;> decide
  noLoop := by
    intro s h
    rw [g4_mem_edges] at h
    simp only [List.mem_cons, Prod.mk.injEq, List.not_mem_nil, or_false] at h
    rcases h with ⟨rfl, h⟩ | ⟨rfl, h⟩ | ⟨rfl, h⟩ | ⟨rfl, h⟩ <;> exact absurd h (by decide)
  onePer := by
    intro s d h h2
    rw [g4_mem_edges] at h h2
    simp only [List.mem_cons, Prod.mk.injEq, List.not_mem_nil, or_false] at h
    rcases h with ⟨rfl, rfl⟩ | ⟨rfl, rfl⟩ | ⟨rfl, rfl⟩ | ⟨rfl, rfl⟩ <;> exact absurd h2 (by decide)
  tsName := by intro h; exact absurd h (by decide)
  tsTime := by intro h; exact absurd h (by decide)

example : ∃ cs, getChildren g4 "b" = .ok cs ∧ "a" ∈ cs :=
  parent_child_wf g4 g4_wf "a" "b" ["b", "c"] (by rfl) (by decide)

end CG.C01
