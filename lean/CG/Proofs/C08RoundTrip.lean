/-
C08, second half: `from_adjacency_matrix` on a matrix that obeys the entry law of a graph re-creates that graph
(up to what a matrix cannot carry), hence the `to_numpy` / `to_networkx` / skeleton round trips.
-/
import CG.Proofs.C08
import CG.Proofs.C05

set_option linter.unusedSimpArgs false

namespace CG.C08
open CG CG.Mx CG.Conv Std

/-! ### the node loop of the constructor (plain class) -/

/-- the node `add_node(identifier)` creates -/
def freshRec : NodeRec := { vtype := .unspecified, md := [] }

theorem hasNode_false_iff (g : Graph) (n : String) : g.hasNode n = false ↔ n ∉ g.nodes := by
  unfold Graph.hasNode
  rw [Bool.eq_false_iff]
  exact not_congr ExtTreeMap.contains_iff_mem

theorem hasNode_true_iff (g : Graph) (n : String) : g.hasNode n = true ↔ n ∈ g.nodes := by
  unfold Graph.hasNode
  exact ExtTreeMap.contains_iff_mem

theorem hasEdge_false_iff (g : Graph) (s d : String) : g.hasEdge s d = false ↔ (s, d) ∉ g.edges := by
  unfold Graph.hasEdge
  rw [Bool.eq_false_iff]
  exact not_congr ExtTreeMap.contains_iff_mem

theorem foldl_insFresh (l : List String) (g : Graph) :
    l.foldl (fun g n => g.insNode n freshRec) g = { g with nodes := insAll g.nodes (l.map (fun n => (n, freshRec))) } := by
  induction l generalizing g with
  | nil => rfl
  | cons n l ih =>
    simp only [List.foldl_cons, List.map_cons, insAll_cons]
    rw [ih]
    rfl

/-- `add_nodes_from(names)` on the empty plain graph, for distinct names -/
theorem addNodesFrom_plain (names : List String) (hnd : names.Nodup) :
    addNodesFrom (Graph.empty .plain) names =
      ({ cls := .plain, nodes := insAll ∅ (names.map (fun n => (n, freshRec))), edges := ∅, gmeta := [] }, none) := by
  unfold addNodesFrom
  refine Eq.trans (bulk_ok _ (fun g n => g.insNode n freshRec)
    (fun g rest => g.cls = .plain ∧ (∀ n ∈ rest, g.hasNode n = false) ∧ rest.Nodup) ?_ _ _ ?_) ?_
  rotate_left 1
  · exact ⟨rfl, fun n _ => by rw [hasNode_false_iff]; simp [Graph.empty], hnd⟩
  · rw [foldl_insFresh]; rfl
  · rintro g n rest ⟨h1, h2, h3⟩
    have hn := h2 n List.mem_cons_self
    refine ⟨?_, h1, ?_, (List.nodup_cons.mp h3).2⟩
    · simp [addNode, mkNode, h1, hn, bind, Except.bind, pure, Except.pure, freshRec]
    · intro m hm
      have hne : n ≠ m := fun e => (List.nodup_cons.mp h3).1 (e ▸ hm)
      have := h2 m (List.mem_cons_of_mem _ hm)
      rw [hasNode_false_iff] at this ⊢
      simp only [Graph.insNode, ExtTreeMap.mem_insert, compare_eq_iff_eq]
      rintro (h | h)
      · exact hne h
      · exact this h

theorem mem_freshNodes (names : List String) (n : String) :
    n ∈ insAll (∅ : NMap) (names.map (fun n => (n, freshRec))) ↔ n ∈ names := by
  rw [mem_insAll]
  simp only [ExtTreeMap.not_mem_empty, List.mem_map, false_or]
  constructor
  · rintro ⟨_, ⟨a, h, rfl⟩, rfl⟩; exact h
  · intro h; exact ⟨_, ⟨n, h, rfl⟩, rfl⟩

/-! ### the scan (plain class) -/

/-- the edge one iteration of the scan adds -/
def edgeOf (A : Mat) (names : List String) (p : Nat × Nat) : Option (EKey × EdgeRec) :=
  let a := cell A p.1 p.2
  let b := cell A p.2 p.1
  let ni := names.getD p.1 ""
  let nj := names.getD p.2 ""
  if a ≠ 0 && b = 0 then some ((ni, nj), { ty := .directed, md := [] })
  else if a = 0 && b ≠ 0 then some ((nj, ni), { ty := .directed, md := [] })
  else if a ≠ 0 && b ≠ 0 then some ((ni, nj), { ty := .undirected, md := [] })
  else none

def scanApply (A : Mat) (names : List String) (g : Graph) (p : Nat × Nat) : Graph :=
  match edgeOf A names p with
  | some (k, r) => g.insEdge k.1 k.2 r
  | none => g

/-- plain class: `add_edge` between two existing distinct nodes whose pair is free, without validation -/
theorem addEdge_plain_ok (g : Graph) (s d : String) (ty : EdgeType) (hc : g.cls = .plain) (hsd : s ≠ d)
    (hs : g.hasNode s = true) (hd : g.hasNode d = true) (hnew : g.hasEdge s d = false) (hrev : g.hasEdge d s = false) :
    addEdge g s d ty [] false = .ok (g.insEdge s d { ty := ty, md := [] }) := by
  simp [addEdge, addEdgeE, ensureNode, hs, hd, hnew, orient, hc, setEdge, hrev, hsd, bind, Except.bind]

theorem edgeOf_key (A : Mat) (names : List String) (p : Nat × Nat) (k : EKey) (r : EdgeRec)
    (h : edgeOf A names p = some (k, r)) :
    k = (names.getD p.1 "", names.getD p.2 "") ∨ k = (names.getD p.2 "", names.getD p.1 "") := by
  unfold edgeOf at h
  simp only at h
  split at h
  · cases h; exact .inl rfl
  · split at h
    · cases h; exact .inr rfl
    · split at h
      · cases h; exact .inl rfl
      · cases h

theorem scanStep_eq (A : Mat) (names : List String) (g : Graph) (p : Nat × Nat) (hc : g.cls = .plain)
    (hne : names.getD p.1 "" ≠ names.getD p.2 "")
    (hi : g.hasNode (names.getD p.1 "") = true) (hj : g.hasNode (names.getD p.2 "") = true)
    (h1 : g.hasEdge (names.getD p.1 "") (names.getD p.2 "") = false)
    (h2 : g.hasEdge (names.getD p.2 "") (names.getD p.1 "") = false) :
    scanStep A names g p = .ok (scanApply A names g p) := by
  unfold scanStep scanApply edgeOf
  simp only
  split
  · exact addEdge_plain_ok g _ _ _ hc hne hi hj h1 h2
  · split
    · exact addEdge_plain_ok g _ _ _ hc (Ne.symm hne) hj hi h2 h1
    · split
      · exact addEdge_plain_ok g _ _ _ hc hne hi hj h1 h2
      · rfl

theorem mem_scanPairs_iff (n : Nat) (p : Nat × Nat) : p ∈ scanPairs n ↔ p.1 < p.2 ∧ p.2 < n := by
  constructor
  · exact mem_scanPairs n p
  · rintro ⟨h1, h2⟩
    unfold scanPairs
    simp only [List.mem_flatMap, List.mem_range, List.mem_map, List.mem_filter, decide_eq_true_eq]
    exact ⟨p.1, by omega, p.2, ⟨h2, h1⟩, rfl⟩

theorem nodup_scanPairs (n : Nat) : (scanPairs n).Nodup := by
  unfold scanPairs List.Nodup
  rw [List.pairwise_flatMap]
  constructor
  · intro i _
    rw [List.pairwise_map]
    refine (List.Pairwise.filter _ (List.nodup_range (n := n))).imp ?_
    intro a b hab e
    exact hab (congrArg Prod.snd e)
  · refine (List.nodup_range (n := n)).imp ?_
    intro a b hab x hx y hy e
    simp only [List.mem_map, List.mem_filter] at hx hy
    obtain ⟨_, _, rfl⟩ := hx
    obtain ⟨_, _, rfl⟩ := hy
    exact hab (congrArg Prod.fst e)

theorem getD_eq_getElem (names : List String) (i : Nat) (h : i < names.length) : names.getD i "" = names[i] := by
  rw [List.getD_eq_getElem?_getD, List.getElem?_eq_getElem h]
  rfl

theorem getD_inj (names : List String) (hnd : names.Nodup) (i j : Nat) (hi : i < names.length) (hj : j < names.length)
    (h : names.getD i "" = names.getD j "") : i = j := by
  rw [getD_eq_getElem _ _ hi, getD_eq_getElem _ _ hj] at h
  have h1 := hnd.idxOf_getElem i hi
  have h2 := hnd.idxOf_getElem j hj
  rw [h] at h1
  omega

/-- invariant of the scan: class, nodes, and every edge present joins the two names of a pair already processed -/
def SInv (names : List String) (g1 g : Graph) (rest : List (Nat × Nat)) : Prop :=
  g.cls = .plain ∧ g.nodes = g1.nodes ∧ rest.Nodup ∧ (∀ p ∈ rest, p.1 < p.2 ∧ p.2 < names.length) ∧
  (∀ k, k ∈ g.edges → ∃ p : Nat × Nat, p ∉ rest ∧ p.1 < p.2 ∧ p.2 < names.length ∧
    (k = (names.getD p.1 "", names.getD p.2 "") ∨ k = (names.getD p.2 "", names.getD p.1 "")))

theorem pair_eq_of_names (names : List String) (hnd : names.Nodup) (p q : Nat × Nat)
    (hp : p.1 < p.2 ∧ p.2 < names.length) (hq : q.1 < q.2 ∧ q.2 < names.length)
    (h : (names.getD p.1 "", names.getD p.2 "") = (names.getD q.1 "", names.getD q.2 "") ∨
         (names.getD p.1 "", names.getD p.2 "") = (names.getD q.2 "", names.getD q.1 "")) : p = q := by
  rcases h with h | h
  · have h1 := getD_inj names hnd _ _ (by omega) (by omega) (congrArg Prod.fst h)
    have h2 := getD_inj names hnd _ _ (by omega) (by omega) (congrArg Prod.snd h)
    exact Prod.ext h1 h2
  · have h1 := getD_inj names hnd _ _ (by omega) (by omega) (congrArg Prod.fst h)
    have h2 := getD_inj names hnd _ _ (by omega) (by omega) (congrArg Prod.snd h)
    omega

/-- the scan of the plain class never fails: every iteration adds the edge `edgeOf` prescribes -/
theorem scan_plain (A : Mat) (names : List String) (g1 : Graph) (hnd : names.Nodup) (hc : g1.cls = .plain)
    (hn : ∀ n ∈ names, g1.hasNode n = true) (he : g1.edges = ∅) :
    bulk (scanStep A names) g1 (scanPairs names.length) =
      ((scanPairs names.length).foldl (scanApply A names) g1, none) := by
  refine bulk_ok _ (scanApply A names) (SInv names g1) ?_ _ _ ?_
  · rintro g p rest ⟨h1, h2, h3, h4, h5⟩
    have hp := h4 p List.mem_cons_self
    have hne : names.getD p.1 "" ≠ names.getD p.2 "" := by
      intro e
      have := getD_inj names hnd _ _ (by omega) (by omega) e
      omega
    have hfree : ∀ k, (k = (names.getD p.1 "", names.getD p.2 "") ∨ k = (names.getD p.2 "", names.getD p.1 "")) →
        k ∉ g.edges := by
      intro k hk hmem
      obtain ⟨q, hq1, hq2, hq3, hq4⟩ := h5 k hmem
      apply hq1
      have : p = q := by
        apply pair_eq_of_names names hnd p q hp ⟨hq2, hq3⟩
        rcases hk with hk | hk <;> rcases hq4 with hq4 | hq4 <;> rw [hk] at hq4
        · exact .inl hq4
        · exact .inr hq4
        · right
          exact Prod.ext (congrArg Prod.snd hq4) (congrArg Prod.fst hq4)
        · left
          exact Prod.ext (congrArg Prod.snd hq4) (congrArg Prod.fst hq4)
      rw [← this]
      exact List.mem_cons_self
    have hnode : ∀ n ∈ names, g.hasNode n = true := by
      intro n hn'
      have := hn n hn'
      simpa [Graph.hasNode, h2] using this
    refine ⟨?_, ?_⟩
    · apply scanStep_eq A names g p h1 hne
      · exact hnode _ (getD_mem names p.1 (by omega))
      · exact hnode _ (getD_mem names p.2 hp.2)
      · rw [hasEdge_false_iff]; exact hfree _ (.inl rfl)
      · rw [hasEdge_false_iff]; exact hfree _ (.inr rfl)
    · have hp_notin : p ∉ rest := (List.nodup_cons.mp h3).1
      unfold scanApply
      cases hE : edgeOf A names p with
      | none =>
        refine ⟨h1, h2, (List.nodup_cons.mp h3).2, fun q hq => h4 q (List.mem_cons_of_mem _ hq), ?_⟩
        intro k hk
        obtain ⟨q, hq1, hq⟩ := h5 k hk
        exact ⟨q, fun h => hq1 (List.mem_cons_of_mem _ h), hq⟩
      | some kr =>
        obtain ⟨k0, r0⟩ := kr
        refine ⟨h1, h2, (List.nodup_cons.mp h3).2, fun q hq => h4 q (List.mem_cons_of_mem _ hq), ?_⟩
        intro k hk
        simp only [Graph.insEdge, ExtTreeMap.mem_insert, ekCmp_eq_iff] at hk
        rcases hk with hk | hk
        · refine ⟨p, hp_notin, hp.1, hp.2, ?_⟩
          rw [← hk]
          exact edgeOf_key A names p k0 r0 hE
        · obtain ⟨q, hq1, hq⟩ := h5 k hk
          exact ⟨q, fun h => hq1 (List.mem_cons_of_mem _ h), hq⟩
  · refine ⟨hc, rfl, nodup_scanPairs _, fun p hp => mem_scanPairs _ p hp, ?_⟩
    intro k hk
    rw [he] at hk
    simp at hk

theorem foldl_scanApply (A : Mat) (names : List String) (l : List (Nat × Nat)) (g : Graph) :
    l.foldl (scanApply A names) g = { g with edges := insAll g.edges (l.filterMap (edgeOf A names)) } := by
  induction l generalizing g with
  | nil => rfl
  | cons p l ih =>
    simp only [List.foldl_cons, List.filterMap_cons]
    rw [ih]
    unfold scanApply
    cases edgeOf A names p with
    | none => rfl
    | some kr => rfl

/-- the edges the scan prescribes have pairwise distinct keys -/
theorem scanEdges_distinct (A : Mat) (names : List String) (hnd : names.Nodup) :
    ((scanPairs names.length).filterMap (edgeOf A names)).Pairwise (fun a b => a.1 ≠ b.1) := by
  rw [List.pairwise_filterMap]
  have h := nodup_scanPairs names.length
  unfold List.Nodup at h
  refine (List.Pairwise.and_mem.mp h).imp ?_
  rintro p q ⟨hp, hq, hne⟩ ⟨k, r⟩ hk ⟨k', r'⟩ hk' (e : k = k')
  subst e
  apply hne
  have h1 := edgeOf_key A names p k r hk
  have h2 := edgeOf_key A names q k r' hk'
  apply pair_eq_of_names names hnd p q (mem_scanPairs _ p hp) (mem_scanPairs _ q hq)
  rcases h1 with h1 | h1 <;> rcases h2 with h2 | h2 <;> rw [h1] at h2
  · exact .inl h2
  · exact .inr h2
  · right; exact Prod.ext (congrArg Prod.snd h2) (congrArg Prod.fst h2)
  · left; exact Prod.ext (congrArg Prod.snd h2) (congrArg Prod.fst h2)

/-- lookup in the scanned graph: exactly the prescribed edges -/
theorem scanned_lookup (A : Mat) (names : List String) (hnd : names.Nodup) (k : EKey) (r : EdgeRec) :
    (insAll (∅ : EMap) ((scanPairs names.length).filterMap (edgeOf A names)))[k]? = some r ↔
      ∃ p : Nat × Nat, p.1 < p.2 ∧ p.2 < names.length ∧ edgeOf A names p = some (k, r) := by
  constructor
  · intro h
    have := mem_of_getElem?_insAll _ k r (scanEdges_distinct A names hnd) h
    obtain ⟨p, hp, hE⟩ := List.mem_filterMap.mp this
    obtain ⟨h1, h2⟩ := mem_scanPairs _ p hp
    exact ⟨p, h1, h2, hE⟩
  · rintro ⟨p, h1, h2, hE⟩
    apply getElem?_insAll_of_mem _ _ _ _ (scanEdges_distinct A names hnd)
    exact List.mem_filterMap.mpr ⟨p, (mem_scanPairs_iff _ p).mpr ⟨h1, h2⟩, hE⟩

/-! ### a matrix that obeys the entry law of a graph -/

/-- `A` is an `n × n` 0/1 matrix over the sorted node names of `g` with
    `A[i][j] = 1 ↔ names[i] -> names[j] ∨ names[i] -- names[j]` -/
structure ObeysLaw (g : Graph) (A : Mat) : Prop where
  dim : Dim g.nodes.keys.length A
  le1 : ∀ i j, i < g.nodes.keys.length → j < g.nodes.keys.length → cell A i j ≤ 1
  law : ∀ (i j : Nat) (hi : i < g.nodes.keys.length) (hj : j < g.nodes.keys.length),
    cell A i j = 1 ↔ DirRel g g.nodes.keys[i] g.nodes.keys[j] ∨ UndirBetween g g.nodes.keys[i] g.nodes.keys[j]

theorem undir_symm (g : Graph) (a b : String) : UndirBetween g a b ↔ UndirBetween g b a := by
  unfold UndirBetween; exact Or.comm

theorem mem_edges_of_lookup (g : Graph) (k : EKey) (r : EdgeRec) (h : g.edges[k]? = some r) : k ∈ g.edges := by
  rw [ExtTreeMap.mem_iff_isSome_getElem?, h]; rfl

theorem dir_excl (g : Graph) (hwf : WF g) (a b : String) (h : DirRel g a b) : ¬ DirRel g b a ∧ ¬ UndirBetween g a b := by
  obtain ⟨r, hr, ht⟩ := h
  have hm := mem_edges_of_lookup g _ r hr
  constructor
  · rintro ⟨r', hr', _⟩
    exact hwf.onePer a b hm (mem_edges_of_lookup g _ r' hr')
  · rintro (⟨r', hr', ht'⟩ | ⟨r', hr', _⟩)
    · rw [hr] at hr'; cases hr'; rw [ht] at ht'; cases ht'
    · exact hwf.onePer a b hm (mem_edges_of_lookup g _ r' hr')

/-- for two in-range positions `i ≠ j`, the two entries decide between `->`, `<-`, `--` and nothing exactly as the
    graph does -/
theorem law_cases (g : Graph) (hwf : WF g) (A : Mat) (h : ObeysLaw g A) (i j : Nat)
    (hi : i < g.nodes.keys.length) (hj : j < g.nodes.keys.length) :
    ((cell A i j ≠ 0 ∧ cell A j i = 0) ↔ DirRel g g.nodes.keys[i] g.nodes.keys[j]) ∧
    ((cell A i j ≠ 0 ∧ cell A j i ≠ 0) ↔ UndirBetween g g.nodes.keys[i] g.nodes.keys[j]) := by
  have l1 := h.law i j hi hj
  have l2 := h.law j i hj hi
  have b1 := h.le1 i j hi hj
  have b2 := h.le1 j i hj hi
  have e1 : cell A i j ≠ 0 ↔ cell A i j = 1 := by omega
  have e2 : cell A j i ≠ 0 ↔ cell A j i = 1 := by omega
  have e3 : cell A j i = 0 ↔ ¬ cell A j i = 1 := by omega
  rw [e1, e2, e3, l1, l2, undir_symm g g.nodes.keys[j] g.nodes.keys[i]]
  constructor
  · constructor
    · rintro ⟨h1 | h1, h2⟩
      · exact h1
      · exact absurd (.inr h1) h2
    · intro h1
      have := dir_excl g hwf _ _ h1
      exact ⟨.inl h1, fun h2 => h2.elim this.1 this.2⟩
  · constructor
    · rintro ⟨h1 | h1, h2 | h2⟩
      · exact absurd h2 (dir_excl g hwf _ _ h1).1
      · exact h2
      · exact h1
      · exact h1
    · intro h1; exact ⟨.inr h1, .inr h1⟩

theorem isSquare_of_dim (n : Nat) (A : Mat) (h : Dim n A) : isSquare A = true := by
  unfold isSquare
  rw [List.all_eq_true]
  intro r hr
  simp [h.2 r hr, h.1]

theorem isBinary_of (n : Nat) (A : Mat) (hd : Dim n A) (h : ∀ i j, i < n → j < n → cell A i j ≤ 1) :
    isBinary A = true := by
  unfold isBinary
  rw [List.all_eq_true]
  intro r hr
  rw [List.all_eq_true]
  intro x hx
  obtain ⟨i, hi, rfl⟩ := List.mem_iff_getElem.mp hr
  obtain ⟨j, hj, rfl⟩ := List.mem_iff_getElem.mp hx
  have hrl := hd.2 _ hr
  have := h i j (by rw [← hd.1]; exact hi) (by rw [← hrl]; exact hj)
  unfold cell at this
  simp only [List.getElem?_eq_getElem hi, Option.bind_some, List.getElem?_eq_getElem hj, Option.getD_some] at this
  simpa using this

/-- what a matrix can carry of a graph: the node names (variable types and metadata are reset), the directed edges,
    the unordered undirected pairs; nothing else is present -/
structure MatrixImage (g g' : Graph) : Prop where
  cls : g'.cls = .plain
  nodes : g'.nodes = g.nodes.map (fun _ _ => freshRec)
  dir : ∀ a b, DirRel g' a b ↔ DirRel g a b
  undir : ∀ a b, UndirBetween g' a b ↔ UndirBetween g a b
  only : OnlyDirUndir g'
  bare : ∀ (k : EKey) (r : EdgeRec), g'.edges[k]? = some r → r.md = []
  gmeta : g'.gmeta = []

theorem keys_getElem_mem (g : Graph) (i : Nat) (hi : i < g.nodes.keys.length) : g.nodes.keys[i] ∈ g.nodes.keys :=
  List.getElem_mem hi

/-- position of a node name in the sorted name list -/
theorem pos_of_node (g : Graph) (a : String) (ha : a ∈ g.nodes) :
    ∃ i, ∃ (hi : i < g.nodes.keys.length), g.nodes.keys[i] = a := by
  have := ExtTreeMap.mem_keys.mpr ha
  obtain ⟨i, hi, h⟩ := List.mem_iff_getElem.mp this
  exact ⟨i, hi, h⟩

/-- the edge the scan prescribes for a pair `i < j`, read off the graph -/
theorem edgeOf_law (g : Graph) (hwf : WF g) (A : Mat) (h : ObeysLaw g A) (i j : Nat) (hij : i < j)
    (hj : j < g.nodes.keys.length) (k : EKey) (r : EdgeRec) :
    edgeOf A g.nodes.keys (i, j) = some (k, r) ↔
      (DirRel g g.nodes.keys[i] g.nodes.keys[j] ∧ k = (g.nodes.keys[i], g.nodes.keys[j]) ∧ r = ⟨.directed, []⟩) ∨
      (DirRel g g.nodes.keys[j] g.nodes.keys[i] ∧ k = (g.nodes.keys[j], g.nodes.keys[i]) ∧ r = ⟨.directed, []⟩) ∨
      (UndirBetween g g.nodes.keys[i] g.nodes.keys[j] ∧ k = (g.nodes.keys[i], g.nodes.keys[j]) ∧ r = ⟨.undirected, []⟩) := by
  have hi : i < g.nodes.keys.length := by omega
  obtain ⟨c1, c2⟩ := law_cases g hwf A h i j hi hj
  obtain ⟨c3, c4⟩ := law_cases g hwf A h j i hj hi
  unfold edgeOf
  simp only [getD_eq_getElem _ _ hi, getD_eq_getElem _ _ hj]
  by_cases ha : cell A i j = 0 <;> by_cases hb : cell A j i = 0
  · have n1 : ¬ DirRel g g.nodes.keys[i] g.nodes.keys[j] := fun x => (c1.mpr x).1 ha
    have n2 : ¬ DirRel g g.nodes.keys[j] g.nodes.keys[i] := fun x => (c3.mpr x).1 hb
    have n3 : ¬ UndirBetween g g.nodes.keys[i] g.nodes.keys[j] := fun x => (c2.mpr x).1 ha
    simp [ha, hb, n1, n2, n3]
  · have n1 : ¬ DirRel g g.nodes.keys[i] g.nodes.keys[j] := fun x => (c1.mpr x).1 ha
    have p2 : DirRel g g.nodes.keys[j] g.nodes.keys[i] := c3.mp ⟨hb, ha⟩
    have n3 : ¬ UndirBetween g g.nodes.keys[i] g.nodes.keys[j] := fun x => (c2.mpr x).1 ha
    simp [ha, hb, n1, p2, n3, eq_comm]
  · have p1 : DirRel g g.nodes.keys[i] g.nodes.keys[j] := c1.mp ⟨ha, hb⟩
    have n2 : ¬ DirRel g g.nodes.keys[j] g.nodes.keys[i] := fun x => (c3.mpr x).1 hb
    have n3 : ¬ UndirBetween g g.nodes.keys[i] g.nodes.keys[j] := fun x => (c2.mpr x).2 hb
    simp [ha, hb, p1, n2, n3, eq_comm]
  · have n1 : ¬ DirRel g g.nodes.keys[i] g.nodes.keys[j] := fun x => ((c1.mpr x).2 ▸ hb) rfl
    have n2 : ¬ DirRel g g.nodes.keys[j] g.nodes.keys[i] := fun x => ((c3.mpr x).2 ▸ ha) rfl
    have p3 : UndirBetween g g.nodes.keys[i] g.nodes.keys[j] := c2.mp ⟨ha, hb⟩
    simp [ha, hb, n1, n2, p3, eq_comm]

/-- the graph the constructor builds from `(A, names)` (plain class): fresh nodes, the prescribed edges -/
def builtGraph (A : Mat) (names : List String) : Graph :=
  { cls := .plain, nodes := insAll ∅ (names.map (fun n => (n, freshRec))),
    edges := insAll ∅ ((scanPairs names.length).filterMap (edgeOf A names)), gmeta := [] }

theorem built_dir (g : Graph) (hwf : WF g) (A : Mat) (h : ObeysLaw g A) (a b : String) :
    DirRel (builtGraph A g.nodes.keys) a b ↔ DirRel g a b := by
  have hnd : g.nodes.keys.Nodup := ExtTreeMap.nodup_keys
  constructor
  · rintro ⟨r, hr, ht⟩
    obtain ⟨⟨i, j⟩, h1, h2, hE⟩ := (scanned_lookup A _ hnd _ _).mp hr
    rcases (edgeOf_law g hwf A h i j h1 h2 _ _).mp hE with ⟨hd, hk, _⟩ | ⟨hd, hk, _⟩ | ⟨_, _, hr'⟩
    · cases hk; exact hd
    · cases hk; exact hd
    · rw [hr'] at ht; cases ht
  · intro hd
    obtain ⟨r, hr, _⟩ := hd
    have hm := mem_edges_of_lookup g _ r hr
    obtain ⟨ha, hb⟩ := hwf.ends a b hm
    obtain ⟨i, hi, rfl⟩ := pos_of_node g a ha
    obtain ⟨j, hj, rfl⟩ := pos_of_node g b hb
    have hne : i ≠ j := by
      rintro rfl
      exact hwf.noLoop _ hm
    have hd : DirRel g g.nodes.keys[i] g.nodes.keys[j] := ⟨r, hr, by assumption⟩
    rcases Nat.lt_or_gt_of_ne hne with hlt | hlt
    · exact ⟨⟨.directed, []⟩, (scanned_lookup A _ hnd _ _).mpr ⟨(i, j), hlt, hj,
        (edgeOf_law g hwf A h i j hlt hj _ _).mpr (.inl ⟨hd, rfl, rfl⟩)⟩, rfl⟩
    · exact ⟨⟨.directed, []⟩, (scanned_lookup A _ hnd _ _).mpr ⟨(j, i), hlt, hi,
        (edgeOf_law g hwf A h j i hlt hi _ _).mpr (.inr (.inl ⟨hd, rfl, rfl⟩))⟩, rfl⟩

theorem undir_ends (g : Graph) (hwf : WF g) (a b : String) (h : UndirBetween g a b) :
    a ∈ g.nodes ∧ b ∈ g.nodes ∧ a ≠ b := by
  rcases h with ⟨r, hr, _⟩ | ⟨r, hr, _⟩
  · have hm := mem_edges_of_lookup g _ r hr
    obtain ⟨ha, hb⟩ := hwf.ends _ _ hm
    exact ⟨ha, hb, fun e => hwf.noLoop a (e ▸ hm)⟩
  · have hm := mem_edges_of_lookup g _ r hr
    obtain ⟨hb, ha⟩ := hwf.ends _ _ hm
    exact ⟨ha, hb, fun e => hwf.noLoop a (e ▸ hm)⟩

theorem built_undir (g : Graph) (hwf : WF g) (A : Mat) (h : ObeysLaw g A) (a b : String) :
    UndirBetween (builtGraph A g.nodes.keys) a b ↔ UndirBetween g a b := by
  have hnd : g.nodes.keys.Nodup := ExtTreeMap.nodup_keys
  have one : ∀ a b r, (builtGraph A g.nodes.keys).edges[(a, b)]? = some r → r.ty = .undirected → UndirBetween g a b := by
    intro a b r hr ht
    obtain ⟨⟨i, j⟩, h1, h2, hE⟩ := (scanned_lookup A _ hnd _ _).mp hr
    rcases (edgeOf_law g hwf A h i j h1 h2 _ _).mp hE with ⟨_, _, hr'⟩ | ⟨_, _, hr'⟩ | ⟨hu, hk, _⟩
    · rw [hr'] at ht; cases ht
    · rw [hr'] at ht; cases ht
    · cases hk; exact hu
  constructor
  · rintro (⟨r, hr, ht⟩ | ⟨r, hr, ht⟩)
    · exact one a b r hr ht
    · exact (undir_symm g b a).mp (one b a r hr ht)
  · intro hu
    obtain ⟨ha, hb, hab⟩ := undir_ends g hwf a b hu
    obtain ⟨i, hi, rfl⟩ := pos_of_node g a ha
    obtain ⟨j, hj, rfl⟩ := pos_of_node g b hb
    have hne : i ≠ j := by
      rintro rfl
      exact hab rfl
    rcases Nat.lt_or_gt_of_ne hne with hlt | hlt
    · left
      exact ⟨⟨.undirected, []⟩, (scanned_lookup A _ hnd _ _).mpr ⟨(i, j), hlt, hj,
        (edgeOf_law g hwf A h i j hlt hj _ _).mpr (.inr (.inr ⟨hu, rfl, rfl⟩))⟩, rfl⟩
    · right
      exact ⟨⟨.undirected, []⟩, (scanned_lookup A _ hnd _ _).mpr ⟨(j, i), hlt, hi,
        (edgeOf_law g hwf A h j i hlt hi _ _).mpr (.inr (.inr ⟨(undir_symm g _ _).mp hu, rfl, rfl⟩))⟩, rfl⟩

theorem built_image (g : Graph) (hwf : WF g) (A : Mat) (h : ObeysLaw g A) : MatrixImage g (builtGraph A g.nodes.keys) := by
  have hnd : g.nodes.keys.Nodup := ExtTreeMap.nodup_keys
  refine ⟨rfl, ?_, built_dir g hwf A h, built_undir g hwf A h, ?_, ?_, rfl⟩
  · have := insAll_toList_map g.nodes (fun _ _ => freshRec)
    rw [← this]
    simp only [builtGraph]
    congr 1
    rw [← ExtTreeMap.map_fst_toList_eq_keys, List.map_map]
    rfl
  · intro k r hr
    obtain ⟨⟨i, j⟩, h1, h2, hE⟩ := (scanned_lookup A _ hnd _ _).mp hr
    rcases (edgeOf_law g hwf A h i j h1 h2 _ _).mp hE with ⟨_, _, hr'⟩ | ⟨_, _, hr'⟩ | ⟨_, _, hr'⟩ <;> rw [hr'] <;> simp
  · intro k r hr
    obtain ⟨⟨i, j⟩, h1, h2, hE⟩ := (scanned_lookup A _ hnd _ _).mp hr
    rcases (edgeOf_law g hwf A h i j h1 h2 _ _).mp hE with ⟨_, _, hr'⟩ | ⟨_, _, hr'⟩ | ⟨_, _, hr'⟩ <;> rw [hr']

/-- **C08 (1), general form.**  `from_adjacency_matrix(A, names)` of the plain class, on any matrix that obeys the
    entry law of a well-formed graph `g` over `g`'s sorted names, succeeds (with validation: when `g` is acyclic) and
    builds the matrix image of `g`: same node names, same directed edges, same unordered undirected pairs, nothing
    else -/
theorem fromAdj_of_law (g : Graph) (hwf : WF g) (A : Mat) (h : ObeysLaw g A) (v : Bool) (hv : v = true → AcyclicG g) :
    fromAdjacencyMatrix .plain A (some g.nodes.keys) v = (builtGraph A g.nodes.keys, none) ∧
      MatrixImage g (builtGraph A g.nodes.keys) := by
  have himg := built_image g hwf A h
  refine ⟨?_, himg⟩
  have hnd : g.nodes.keys.Nodup := ExtTreeMap.nodup_keys
  unfold fromAdjacencyMatrix
  rw [isSquare_of_dim _ A h.dim, isBinary_of _ A h.dim h.le1]
  simp only [Bool.not_true, Bool.false_eq_true, if_false, h.dim.1, if_true]
  rw [addNodesFrom_plain _ hnd]
  simp only
  rw [scan_plain A _ _ hnd rfl ?_ rfl]
  · simp only
    rw [foldl_scanApply]
    have hcyc : (v && anyOnCycle (builtGraph A g.nodes.keys) g.nodes.keys) = false := by
      cases v
      · rfl
      · have hac : AcyclicG (builtGraph A g.nodes.keys) := by
          intro n hn
          refine hv rfl n (TC.mono ?_ hn)
          intro a b hab
          rw [rel_dirEdges] at hab ⊢
          exact (himg.dir a b).mp hab
        simp only [Bool.true_and, anyOnCycle]
        apply List.any_eq_false.mpr
        intro n _
        simp [selfDepR_false_of_acyclic _ n hac]
    show (if (v && anyOnCycle (builtGraph A g.nodes.keys) g.nodes.keys) = true
        then (builtGraph A g.nodes.keys, some Err.cyclicConnection) else (builtGraph A g.nodes.keys, none)) = _
    rw [hcyc]
    rfl
  · intro n hn
    rw [hasNode_true_iff]
    exact (mem_freshNodes _ n).mpr hn

/-! ### the round trips -/

theorem obeys_of_toNumpy (g : Graph) (hwf : WF g) (A : Mat) (names : List String) (h : toNumpy g = .ok (A, names)) :
    names = g.nodes.keys ∧ ObeysLaw g A := by
  obtain ⟨rfl, h2, h3⟩ := entry_law g hwf A names h
  exact ⟨rfl, h2, fun i j hi hj => (h3 i j hi hj).2, fun i j hi hj => (h3 i j hi hj).1⟩

/-- **C08 (1)** `from_adjacency_matrix(*g.to_numpy(), validate)` (plain class) succeeds — with validation on, provided
    `g` is acyclic — and re-creates `g` up to what a matrix cannot carry (stored orientation of undirected edges,
    variable types, metadata): same node names, same directed edges, same unordered undirected pairs, no other edge.
    (`to_numpy` having answered, `g` consists of `->` and `--` edges only: `toNumpy_refuses_iff`.) -/
theorem fromAdj_toNumpy (g : Graph) (hwf : WF g) (A : Mat) (names : List String) (h : toNumpy g = .ok (A, names))
    (v : Bool) (hv : v = true → AcyclicG g) :
    ∃ g', fromAdjacencyMatrix .plain A (some names) v = (g', none) ∧ MatrixImage g g' := by
  obtain ⟨rfl, hl⟩ := obeys_of_toNumpy g hwf A names h
  exact ⟨_, fromAdj_of_law g hwf A hl v hv⟩

/-- … and a graph with a directed cycle (built with `validate=False`) is refused by the validated re-import -/
theorem fromAdj_toNumpy_cyclic_refused (g : Graph) (hwf : WF g) (A : Mat) (names : List String)
    (h : toNumpy g = .ok (A, names)) (hcyc : ¬ AcyclicG g) :
    (fromAdjacencyMatrix .plain A (some names) true).2 = some .cyclicConnection := by
  obtain ⟨rfl, hl⟩ := obeys_of_toNumpy g hwf A names h
  obtain ⟨h1, himg⟩ := fromAdj_of_law g hwf A hl false (by intro h; cases h)
  have : ¬ AcyclicG (builtGraph A g.nodes.keys) := by
    intro hac
    apply hcyc
    intro n hn
    refine hac n (TC.mono ?_ hn)
    intro a b hab
    rw [rel_dirEdges] at hab ⊢
    exact (himg.dir a b).mpr hab
  rw [(fromAdj_validated_iff .plain A _ _ h1).2 this]

theorem cell_table (names : List String) (f : String → String → Nat) (i j : Nat) (hi : i < names.length)
    (hj : j < names.length) : cell (names.map (fun a => names.map (fun b => f a b))) i j = f names[i] names[j] := by
  unfold cell
  simp [hi, hj]

theorem mem_keys_edges (g : Graph) (k : EKey) : g.edges.keys.contains k = true ↔ k ∈ g.edges := by
  rw [List.contains_iff_mem]
  exact ExtTreeMap.mem_keys

theorem lookup_of_mem (g : Graph) (k : EKey) (h : k ∈ g.edges) : ∃ r, g.edges[k]? = some r :=
  Option.isSome_iff_exists.mp (ExtTreeMap.mem_iff_isSome_getElem?.mp h)

theorem ite_one (c : Bool) : (if c = true then (1 : Nat) else 0) = 1 ↔ c = true := by cases c <;> simp

/-- the matrix networkx derives from a faithful networkx image of `g` obeys `g`'s entry law -/
theorem obeys_of_nx (g : Graph) (x : NX) (hn : x.nodes = g.nodes.keys) (he : x.edges = g.edges.keys)
    (hd : x.directed = true → AllDirected g) (hu : x.directed = false → AllUndirected g) :
    ObeysLaw g (nxToNumpy x) := by
  unfold nxToNumpy
  rw [hn]
  refine ⟨⟨by simp, ?_⟩, ?_, ?_⟩
  · intro row hrow
    simp only [List.mem_map] at hrow
    obtain ⟨_, _, rfl⟩ := hrow
    simp
  · intro i j hi hj
    rw [cell_table _ _ i j hi hj]
    unfold nxEntry
    split <;> simp
  · intro i j hi hj
    rw [cell_table _ _ i j hi hj]
    unfold nxEntry
    rw [he, ite_one]
    cases hdir : x.directed with
    | true =>
      have had := hd hdir
      simp only [Bool.not_true, Bool.false_and, Bool.or_false]
      rw [mem_keys_edges]
      constructor
      · intro hm
        obtain ⟨r, hr⟩ := lookup_of_mem g _ hm
        exact .inl ⟨r, hr, had _ r hr⟩
      · rintro (⟨r, hr, _⟩ | ⟨r, hr, ht⟩ | ⟨r, hr, ht⟩)
        · exact mem_edges_of_lookup g _ r hr
        · rw [had _ r hr] at ht; cases ht
        · rw [had _ r hr] at ht; cases ht
    | false =>
      have hau := hu hdir
      simp only [Bool.not_false, Bool.true_and, Bool.or_eq_true]
      rw [mem_keys_edges, mem_keys_edges]
      constructor
      · intro hm
        right
        rcases hm with hm | hm
        · obtain ⟨r, hr⟩ := lookup_of_mem g _ hm
          exact .inl ⟨r, hr, hau _ r hr⟩
        · obtain ⟨r, hr⟩ := lookup_of_mem g _ hm
          exact .inr ⟨r, hr, hau _ r hr⟩
      · rintro (⟨r, hr, ht⟩ | ⟨r, hr, _⟩ | ⟨r, hr, _⟩)
        · rw [hau _ r hr] at ht; cases ht
        · exact .inl (mem_edges_of_lookup g _ r hr)
        · exact .inr (mem_edges_of_lookup g _ r hr)

/-- **C08 (3)** `from_networkx(g.to_networkx(), validate)` (plain class) for a fully directed or fully undirected graph:
    same node names — isolated nodes included —, same directed edges, same undirected pairs -/
theorem fromNetworkx_toNetworkx (g : Graph) (hwf : WF g) (x : NX) (h : toNetworkx g = .ok x) (v : Bool)
    (hv : v = true → AcyclicG g) :
    ∃ g', fromNetworkx .plain x v = (g', none) ∧ MatrixImage g g' := by
  obtain ⟨h1, h2, h3, h4⟩ := toNetworkx_faithful g x h
  have hl := obeys_of_nx g x h1 h2 h3 h4
  unfold fromNetworkx
  rw [h1]
  exact ⟨_, fromAdj_of_law g hwf _ hl v hv⟩

/-- the GML round trip is the networkx round trip (the text layer is not modelled: `parse_gml ∘ generate_gml` is the
    identity on the abstract value, measured by the lane) -/
theorem fromGml_toGml (g : Graph) (hwf : WF g) (x : NX) (h : toGml g = .ok x) (v : Bool) (hv : v = true → AcyclicG g) :
    ∃ g', fromNetworkx .plain x v = (g', none) ∧ MatrixImage g g' :=
  fromNetworkx_toNetworkx g hwf x ((toGml_refuses_iff g).2.2.2 x h) v hv

/-- `g` with every edge re-typed `--` -/
def undirImage (g : Graph) : Graph := { g with edges := g.edges.map (fun _ r => { r with ty := .undirected }) }

theorem undirImage_wf (g : Graph) (hwf : WF g) : WF (undirImage g) := by
  have hm : ∀ k : EKey, k ∈ (undirImage g).edges ↔ k ∈ g.edges := by
    intro k; simp [undirImage, ExtTreeMap.mem_map]
  constructor
  · intro s d h; exact hwf.ends s d ((hm _).mp h)
  · intro s h; exact hwf.noLoop s ((hm _).mp h)
  · intro s d h h'; exact hwf.onePer s d ((hm _).mp h) ((hm _).mp h')
  · intro hc; exact hwf.tsName hc
  · intro hc s d h; exact hwf.tsTime hc s d ((hm _).mp h)

/-- **C08, skeleton** `from_skeleton(g.skeleton)` (plain class) is the undirected image of `g`: same node names, every
    pair of `g` as an undirected edge, no directed edge — for EVERY graph, whatever its edge types (always accepted:
    there is nothing to validate) -/
theorem fromSkeleton_skeleton (g : Graph) (hwf : WF g) (v : Bool) :
    ∃ g', fromSkeleton .plain g v = (g', none) ∧ MatrixImage (undirImage g) g' := by
  have hau : AllUndirected (undirImage g) := by
    intro k r hr
    simp only [undirImage, ExtTreeMap.getElem?_map] at hr
    cases h : g.edges[k]? with
    | none => rw [h] at hr; cases hr
    | some r0 => rw [h] at hr; cases hr; rfl
  have hl : ObeysLaw (undirImage g) (nxToNumpy (skeletonToNetworkx g)) := by
    apply obeys_of_nx (undirImage g) (skeletonToNetworkx g) rfl
    · simp [skeletonToNetworkx, undirImage, ExtTreeMap.keys_map]
    · intro h; cases h
    · intro _; exact hau
  have hac : AcyclicG (undirImage g) := by
    intro n hn
    obtain ⟨m, h1, _⟩ := hn.split
    rw [rel_dirEdges] at h1
    obtain ⟨r, hr, ht⟩ := h1
    rw [hau _ r hr] at ht
    cases ht
  unfold fromSkeleton fromNetworkx
  exact ⟨_, fromAdj_of_law (undirImage g) (undirImage_wf g hwf) _ hl v (fun _ => hac)⟩

/-! ### non-vacuity -/

/-- the concrete graph `a -> b`, `b -- c`, floating `d` of `C05.lean` goes through `to_numpy` and comes back, validated -/
example : ∃ A names g', toNumpy C05.exG = .ok (A, names) ∧
    fromAdjacencyMatrix .plain A (some names) true = (g', none) ∧ MatrixImage C05.exG g' := by
  cases h : toNumpy C05.exG with
  | error e =>
    obtain ⟨k, r, hr, h1, h2⟩ := (toNumpy_refuses_iff C05.exG).1.mp ⟨e, h⟩
    have := mem_of_getElem?_insAll _ k r (by simp) hr
    simp only [List.mem_cons, Prod.mk.injEq, List.mem_nil_iff, or_false] at this
    rcases this with ⟨_, rfl⟩ | ⟨_, rfl⟩
    · exact absurd rfl h1
    · exact absurd rfl h2
  | ok p =>
    obtain ⟨A, names⟩ := p
    obtain ⟨g', h1, h2⟩ := fromAdj_toNumpy C05.exG C05.exG_wf A names h true (fun _ => C05.exG_acyclic)
    exact ⟨A, names, g', rfl, h1, h2⟩

end CG.C08
